//! C07 layer `sdp`: remote descriptions and candidate strings into a live `PeerConnection`
//! (set_remote_description / create_answer / set_local_description / add_ice_candidate) in all
//! three transport modes, plus `ice_servers` URL strings from a grammar.

use super::{AllocWatch, Known, Out, Progress, STEP_MS};
use crate::engine::Fail;
use crate::props::c08_offer::{self, Local, Mode, Offer};
use proptest::prelude::*;
use rustrtc::transports::ice::IceCandidate;
use rustrtc::{IceServer, PeerConnection, RtcConfiguration, SdpType, SessionDescription, TransportMode};
use serde::{Deserialize, Serialize};
use std::sync::Arc;
use std::sync::atomic::{AtomicU64, Ordering};
use std::time::Duration;

/// every m= line of a remote description costs ~20 KiB (a transceiver with its buffers) and the number of
/// sections is not limited: a 64 KiB description makes the stack allocate > 30 MiB
pub const SIG_MSECTIONS: &str = "alloc-peak:sdp:m-sections";
const MSECTIONS_CAP: usize = 12;
static STEERED_MID: AtomicU64 = AtomicU64::new(0);
static STEERED_MSEC: AtomicU64 = AtomicU64::new(0);

pub fn steered_mid() -> u64 {
    STEERED_MID.load(Ordering::Relaxed)
}
pub fn steered_msections() -> u64 {
    STEERED_MSEC.load(Ordering::Relaxed)
}

/// Hostile attribute / line values (boundary numbers, truncated syntax, wrong arity).
const HOSTILE: &[&str] = &[
    "a=mid:65535", "a=mid:65534", "a=mid:65536", "a=mid:4294967295", "a=mid:", "a=mid:-1", "a=mid:0", "a=mid: 0 ", "a=mid:00000000000000000000000000001",
    "m=audio 9 UDP/TLS/RTP/SAVPF 4294967296", "m=audio 0 RTP/AVP 999 -1 256", "m=video 65535 UDP/TLS/RTP/SAVPF 96", "m=audio 65536 RTP/AVP 0", "m=audio 9 RTP/AVP", "m=audio", "m=", "m=audio 9",
    "m=audio 9/2 RTP/AVP 0", "m=application 9 UDP/DTLS/SCTP webrtc-datachannel", "m=application 0 UDP/DTLS/SCTP", "m=image 9 udptl t38", "m=image 65535 udptl 98", "m=x 1 y z", "m=audio 9 RTP/AVP 255 254 253 128 127",
    "a=rtpmap:111 opus/48000/2", "a=rtpmap:999999 x/0", "a=rtpmap:96", "a=rtpmap: /", "a=rtpmap:96 VP8/", "a=rtpmap:96 VP8/4294967296", "a=rtpmap:96 /90000", "a=rtpmap:256 H264/90000", "a=rtpmap:-1 PCMU/8000",
    "a=rtpmap:0 PCMU/8000/99999999999", "a=rtpmap:96 rtx/90000", "a=rtpmap:97 telephone-event/0", "a=rtpmap:127 red/48000/2/2/2",
    "a=fmtp:111", "a=fmtp:96 apt=", "a=fmtp:96 apt=999", "a=fmtp:97 apt=97", "a=fmtp:96 ;;;=;", "a=fmtp:", "a=fmtp:96 apt=96;apt=97;apt", "a=fmtp:4294967296 x", "a=fmtp:101 0-99999999999", "a=fmtp:96 profile-level-id=;packetization-mode=x",
    "a=extmap:0 urn:ietf:params:rtp-hdrext:sdes:mid", "a=extmap:256 urn:ietf:params:rtp-hdrext:sdes:mid", "a=extmap:15 urn:ietf:params:rtp-hdrext:sdes:mid", "a=extmap:1/sendrecv", "a=extmap:99999999999 x", "a=extmap:-1 x", "a=extmap:", "a=extmap:1",
    "a=extmap:255 http://www.webrtc.org/experiments/rtp-hdrext/abs-send-time", "a=extmap:14 urn:ietf:params:rtp-hdrext:sdes:rtp-stream-id", "a=extmap:3/recvonly urn:x a b c",
    "a=ssrc:1 cname:x", "a=ssrc:99999999999 cname:x", "a=ssrc:", "a=ssrc:4294967295", "a=ssrc:0 cname:", "a=ssrc:-1 msid:a b", "a=ssrc:1 :",
    "a=ssrc-group:FID", "a=ssrc-group:FID 1", "a=ssrc-group:FID x y", "a=ssrc-group:FID 1 1", "a=ssrc-group:SIM 1 2 3 4 5 6 7 8 9 10 11 12 13 14 15 16 17 18 19 20", "a=ssrc-group:", "a=ssrc-group:FID 4294967296 1", "a=ssrc-group: FID",
    "a=simulcast:send", "a=simulcast:send ;;;", "a=simulcast:recv ~a,~b;c", "a=simulcast: send a recv", "a=simulcast:", "a=simulcast:send a;b;c recv a;b;c send x", "a=simulcast:recv ,,,;;;~~~", "a=simulcast:send 0,1,2,3,4,5,6,7,8,9;~",
    "a=rid:", "a=rid:a send pt=", "a=rid:1 recv pt=999;max-width=x", "a=rid:a", "a=rid:a b c d", "a=rid:0123456789abcdefghij send", "a=rid:a send pt=96,97,,;",
    "a=group:BUNDLE", "a=group:BUNDLE 0 0 0", "a=group:BUNDLE 65535", "a=group:", "a=group:LS 0 1", "a=group:BUNDLE x y z 65536",
    "a=fingerprint:sha-256", "a=fingerprint:sha-256 ZZ", "a=fingerprint: ", "a=fingerprint:sha-256 00", "a=fingerprint:md5 00:11", "a=fingerprint:sha-256 00:11:22:33:44:55:66:77:88:99:AA:BB:CC:DD:EE:FF:00:11:22:33:44:55:66:77:88:99:AA:BB:CC:DD:EE:FF:00",
    "a=setup:", "a=setup:holdconn", "a=setup:active", "a=setup:passive", "a=setup:actpass x", "a=ice-ufrag:", "a=ice-pwd:", "a=ice-ufrag:a:b", "a=ice-options:trickle renomination x", "a=ice-lite",
    "a=candidate:1 1 udp 4294967296 1.2.3.4 70000 typ host", "a=candidate:", "a=candidate:1 1 udp 1 127.0.0.1 0 typ host", "a=candidate:1 65535 UDP 4294967295 127.0.0.1 65535 typ relay raddr x rport y", "a=candidate:1 1 tcp 1 ::1 9 typ host tcptype",
    "a=candidate:1 1 tcp 1 127.0.0.1 9 typ host tcptype x tcptype passive", "a=candidate:x 1 udp 1 [::1] 9 typ host", "a=end-of-candidates",
    "a=crypto:1 AES_CM_128_HMAC_SHA1_80 inline:", "a=crypto:0 X inline:AAAA|2^99|1:1", "a=crypto:99999999999 AES_CM_128_HMAC_SHA1_80 inline:AAAA", "a=crypto:1 AES_CM_128_HMAC_SHA1_80", "a=crypto:", "a=crypto:1 AEAD_AES_128_GCM inline:====",
    "a=crypto:1 AES_CM_128_HMAC_SHA1_80 inline:d0RmdmcmVCspeEc3QGZiNWpVLFJhQX1cfHAwJSoj|2^20|1:32 UNENCRYPTED_SRTP", "a=crypto:1 AES_CM_128_HMAC_SHA1_32 inline:QUJD",
    "a=sctp-port:99999", "a=sctp-port:", "a=sctp-port:0", "a=sctpmap:5000 webrtc-datachannel 99999999999", "a=sctpmap:", "a=max-message-size:99999999999999999999", "a=max-message-size:0", "a=max-message-size:-1",
    "a=rtcp:65536 IN IP4 1.2.3.4", "a=rtcp:", "a=rtcp:9", "a=rtcp:0 IN IP4", "a=rtcp:65535 IN IP6 ::1", "a=rtcp-mux", "a=rtcp-mux-only", "a=rtcp-rsize", "a=rtcp-fb:* nack", "a=rtcp-fb:999 nack pli", "a=rtcp-fb:", "a=rtcp-fb:96",
    "a=msid:", "a=msid:a", "a=msid:- -", "a=msid-semantic: WMS *", "a=T38FaxMaxDatagram:-1", "a=T38FaxVersion:999999999999", "a=T38FaxUdpEC:", "a=T38MaxBitRate:4294967296", "a=T38FaxRateManagement:",
    "c=IN IP4", "c=IN IP6 ::1", "c=IN IP4 999.1.1.1", "c=", "c=IN IP4 0.0.0.0", "c=IN IP4 224.2.1.1/127/3", "c=X Y Z", "c=IN IP4 127.0.0.1 extra",
    "o=", "o=- 99999999999999999999999 2 IN IP4 127.0.0.1", "o=- 1 2 IN", "o=- -1 -1 IN IP4 x", "t=", "t=0", "t=99999999999999999999 0", "v=1", "v=", "v=-0", "s=", "b=AS:99999999999999", "b=", "b=TIAS:-1",
    "a=ptime:-1", "a=ptime:0", "a=maxptime:99999999999", "a=framerate:1e99", "a=sendrecv", "a=inactive", "a=sendonly", "a=recvonly", "a=sendrecv:x", "a=bundle-only", "a=extmap-allow-mixed",
    "=", "a", "a=", "a=:", "a=\u{0}", "a=\u{feff}mid:0", "x=y", "a=mid:0\ta=mid:1", "a=mid:é", "A=MID:0", " a=mid:0", "a =mid:0", "i=", "k=", "z=", "r=", "e=", "p=", "u=",
];

#[derive(Clone, Debug, Serialize, Deserialize)]
pub enum Edit {
    /// replace line `at` (relative position) by a hostile line
    Replace { at: u16, with: u16 },
    Insert { at: u16, with: u16 },
    Delete { at: u16 },
    Dup { at: u16, times: u16 },
    /// drop every line starting with this prefix (missing c=, missing fingerprint, ...)
    DropAll { prefix: u8 },
    /// replace the port of every m= line
    Port { port: u32 },
    /// replace the value of every `a=mid:` / payload type token with a number
    MidAll { mid: u32 },
    PtAll { pt: u32 },
    /// a single very long line
    Long { at: u16, key: u8, len: u32 },
    /// `count` copies of one attribute line appended to the last section
    Many { with: u16, count: u16 },
    /// insert an arbitrary printable line
    Free { at: u16, text: String },
    /// change line endings to bare LF / CR / mixed
    Eol { kind: u8 },
}

#[derive(Clone, Debug, Serialize, Deserialize)]
pub enum SOp {
    SetRemote { ty: u8, edits: Vec<Edit> },
    CreateAnswer { apply: bool },
    CreateOffer { apply: bool },
    AddCand { text: String },
    Close,
}

#[derive(Clone, Debug, Serialize, Deserialize)]
pub struct SCase {
    pub local: Local,
    pub offer: Offer,
    pub urls: Vec<String>,
    pub ops: Vec<SOp>,
    pub calib: bool,
    /// known-finding steering: at most 12 m= lines per description
    pub cap_sections: bool,
}

const DROP_PREFIX: &[&str] = &["c=", "a=fingerprint", "a=ice-ufrag", "a=ice-pwd", "a=mid", "a=rtpmap", "a=setup", "a=group", "m=", "a=crypto", "a=candidate", "t=", "o=", "s=", "a=sctp", "a=rtcp-mux", "a=extmap", "a=ssrc"];
const LONG_KEY: &[&str] = &["a=mid:", "a=ice-ufrag:", "a=fingerprint:sha-256 ", "a=rtpmap:96 ", "a=fmtp:96 ", "a=msid:", "a=candidate:", "s=", "a=", "a=ssrc:1 cname:", "a=extmap:1 ", "m=audio 9 RTP/AVP ", "a=simulcast:send ", "a=crypto:1 AES_CM_128_HMAC_SHA1_80 inline:"];

fn edit() -> BoxedStrategy<Edit> {
    let h = HOSTILE.len() as u16;
    prop_oneof![
        6 => (any::<u16>(), 0..h).prop_map(|(at, with)| Edit::Replace { at, with }),
        6 => (any::<u16>(), 0..h).prop_map(|(at, with)| Edit::Insert { at, with }),
        2 => any::<u16>().prop_map(|at| Edit::Delete { at }),
        2 => (any::<u16>(), prop_oneof![3 => 1u16..4, 1 => 100u16..3000]).prop_map(|(at, times)| Edit::Dup { at, times }),
        2 => (0..DROP_PREFIX.len() as u8).prop_map(|prefix| Edit::DropAll { prefix }),
        2 => prop::sample::select(vec![0u32, 1, 9, 65535, 65536, 4294967295]).prop_map(|port| Edit::Port { port }),
        3 => prop::sample::select(vec![65535u32, 65534, 65536, 0, 255, 256, 4294967295]).prop_map(|mid| Edit::MidAll { mid }),
        2 => prop::sample::select(vec![0u32, 127, 128, 255, 256, 65535, 4294967295]).prop_map(|pt| Edit::PtAll { pt }),
        1 => (any::<u16>(), 0..LONG_KEY.len() as u8, prop::sample::select(vec![255u32, 256, 4096, 65535, 65536, 70000])).prop_map(|(at, key, len)| Edit::Long { at, key, len }),
        1 => (0..h, prop_oneof![2 => 100u16..1000, 1 => 1000u16..5000]).prop_map(|(with, count)| Edit::Many { with, count }),
        2 => (any::<u16>(), "[ -~]{0,60}").prop_map(|(at, text)| Edit::Free { at, text }),
        1 => (0u8..3).prop_map(|kind| Edit::Eol { kind }),
    ]
    .boxed()
}

const CANDS: &[&str] = &[
    "candidate:1 1 udp 2130706431 127.0.0.1 9 typ host",
    "candidate:1 1 UDP 4294967295 127.0.0.1 65535 typ host",
    "candidate:1 1 udp 0 127.0.0.1 0 typ host",
    "candidate:1 65535 udp 1 ::1 1 typ srflx raddr ::1 rport 1",
    "candidate:1 1 tcp 1 127.0.0.1 9 typ host tcptype passive",
    "candidate:1 1 tcp 1 127.0.0.1 9 typ host tcptype",
    "candidate:1 1 tcp 1 127.0.0.1 9 typ host x tcptype active",
    "candidate:1 1 udp 1 127.0.0.1 9 typ relay raddr 999.9.9.9 rport 99999",
    "candidate:1 1 udp 1 127.0.0.1 9 typ",
    "candidate:1 1 udp 1 127.0.0.1 9 typ host generation 0 ufrag x network-id 99999999999",
    "candidate:1 1 udp 4294967296 127.0.0.1 9 typ host",
    "candidate:1 65536 udp 1 127.0.0.1 9 typ host",
    "candidate:1 1 udp 1 127.0.0.1 65536 typ host",
    "candidate:1 1 udp 1 fe80::1%eth0 9 typ host",
    "candidate:1 1 udp 1 [::1] 9 typ host",
    "candidate:1 1 udp 1 0.0.0.0 9 typ host",
    "candidate:1 1 udp 1 255.255.255.255 9 typ prflx",
    "candidate:1 1 udp 1 a.local 9 typ host",
    "1 1 udp 1 127.0.0.1 9 typ host",
    "a=candidate:1 1 udp 1 127.0.0.1 9 typ host",
    "",
    "candidate:",
    "candidate:candidate:candidate: 1 udp 1 127.0.0.1 9 typ host",
];

fn cand() -> BoxedStrategy<String> {
    prop_oneof![
        4 => prop::sample::select(CANDS.to_vec()).prop_map(|s| s.to_string()),
        3 => (prop::sample::select(CANDS.to_vec()), any::<u16>(), "[ -~]{0,12}").prop_map(|(s, at, ins)| {
            let mut parts: Vec<String> = s.split(' ').map(|x| x.to_string()).collect();
            if !parts.is_empty() {
                let i = (at as usize * parts.len()) >> 16;
                parts[i] = ins;
            }
            parts.join(" ")
        }),
        1 => (1u16..3000).prop_map(|n| format!("candidate:1 1 udp 1 127.0.0.1 9 typ host{}", " raddr 1.1.1.1 rport 1".repeat(n as usize))),
        1 => "[ -~]{0,80}",
    ]
    .boxed()
}

fn url() -> BoxedStrategy<String> {
    let scheme = prop::sample::select(vec!["stun", "turn", "stuns", "turns", "STUN", "http", "", "stun:stun", "turn "]);
    let host = prop::sample::select(vec!["127.0.0.1", "[::1]", "::1", "", "256.256.256.256", "1.2.3", "0", "[", "]", "a b", "%", "127.0.0.1:1", "@", "user@127.0.0.1", "127.0.0.1/path"]);
    let port = prop::sample::select(vec!["", ":1", ":0", ":65535", ":65536", ":99999999999", ":-1", ":abc", ":", ":1:2"]);
    let query = prop::sample::select(vec!["", "?transport=udp", "?transport=tcp", "?transport=tls", "?transport=", "?transport", "?x=y&transport=TCP", "?", "??", "?transport=udp&transport=tcp"]);
    prop_oneof![
        5 => (scheme, host, port, query).prop_map(|(s, h, p, q)| format!("{s}:{h}{p}{q}")),
        1 => "[ -~]{0,40}",
        1 => Just(String::new()),
    ]
    .boxed()
}

fn sop() -> BoxedStrategy<SOp> {
    prop_oneof![
        8 => (prop_oneof![6 => Just(0u8), 2 => Just(1u8), 1 => Just(2u8), 1 => Just(3u8)], prop::collection::vec(edit(), 0..5)).prop_map(|(ty, edits)| SOp::SetRemote { ty, edits }),
        4 => any::<bool>().prop_map(|apply| SOp::CreateAnswer { apply }),
        1 => any::<bool>().prop_map(|apply| SOp::CreateOffer { apply }),
        5 => cand().prop_map(|text| SOp::AddCand { text }),
        1 => Just(SOp::Close),
    ]
    .boxed()
}

pub fn strategy(known: Known) -> BoxedStrategy<SCase> {
    (c08_offer::local_strategy(), c08_offer::offer_strategy(), prop::collection::vec(url(), 0..4), super::seq_of(sop()), prop::bool::weighted(0.05))
        .prop_map(move |(local, (mut offer, cross), urls, mut ops, calib)| {
            let mut second = None;
            c08_offer::normalise(&local, &mut offer, &mut second, Some(cross));
            if known.mid_overflow {
                // steer away from the known a=mid:65535 overflow so the search continues behind it
                let mut n = 0;
                for op in ops.iter_mut() {
                    if let SOp::SetRemote { edits, .. } = op {
                        for e in edits.iter_mut() {
                            match e {
                                Edit::MidAll { mid } if *mid == 65535 => {
                                    *mid = 65534;
                                    n += 1;
                                }
                                Edit::Replace { with, .. } | Edit::Insert { with, .. } | Edit::Many { with, .. } if HOSTILE[*with as usize] == "a=mid:65535" => {
                                    *with += 1;
                                    n += 1;
                                }
                                _ => {}
                            }
                        }
                    }
                }
                if n > 0 {
                    STEERED_MID.fetch_add(1, Ordering::Relaxed);
                }
            }
            SCase { local, offer, urls, ops, calib, cap_sections: known.sdp_msections }
        })
        .boxed()
}

fn apply_edits(base: &str, edits: &[Edit]) -> String {
    let mut lines: Vec<String> = base.lines().map(|l| l.to_string()).collect();
    let mut eol = "\r\n";
    for e in edits {
        let n = lines.len().max(1);
        let at = |p: u16| ((p as usize) * n) >> 16;
        match e {
            Edit::Replace { at: p, with } => {
                if !lines.is_empty() {
                    let i = at(*p);
                    lines[i] = HOSTILE[*with as usize].to_string();
                }
            }
            Edit::Insert { at: p, with } => {
                let i = (at(*p) + 1).min(lines.len());
                lines.insert(i, HOSTILE[*with as usize].to_string());
            }
            Edit::Delete { at: p } => {
                if !lines.is_empty() {
                    let i = at(*p);
                    lines.remove(i);
                }
            }
            Edit::Dup { at: p, times } => {
                if !lines.is_empty() {
                    let i = at(*p);
                    let l = lines[i].clone();
                    for _ in 0..*times {
                        lines.insert(i, l.clone());
                    }
                }
            }
            Edit::DropAll { prefix } => {
                let p = DROP_PREFIX[*prefix as usize % DROP_PREFIX.len()];
                lines.retain(|l| !l.starts_with(p));
            }
            Edit::Port { port } => {
                for l in lines.iter_mut() {
                    if l.starts_with("m=") {
                        let mut t: Vec<String> = l.split(' ').map(|x| x.to_string()).collect();
                        if t.len() > 1 {
                            t[1] = port.to_string();
                        }
                        *l = t.join(" ");
                    }
                }
            }
            Edit::MidAll { mid } => {
                let mut k = 0u32;
                for l in lines.iter_mut() {
                    if l.starts_with("a=mid:") {
                        *l = format!("a=mid:{}", mid.wrapping_sub(k));
                        k += 1;
                    } else if l.starts_with("a=group:BUNDLE") {
                        *l = format!("a=group:BUNDLE {} {}", mid, mid.wrapping_sub(1));
                    }
                }
            }
            Edit::PtAll { pt } => {
                for l in lines.iter_mut() {
                    if l.starts_with("m=") {
                        let mut t: Vec<String> = l.split(' ').map(|x| x.to_string()).collect();
                        if t.len() > 3 {
                            t[3] = pt.to_string();
                        }
                        *l = t.join(" ");
                    } else if l.starts_with("a=rtpmap:") || l.starts_with("a=fmtp:") || l.starts_with("a=rtcp-fb:") {
                        if let Some((k, rest)) = l.clone().split_once(':') {
                            let tail = rest.split_once(' ').map(|x| x.1).unwrap_or("");
                            *l = format!("{k}:{pt} {tail}");
                        }
                    }
                }
            }
            Edit::Long { at: p, key, len } => {
                let i = at(*p).min(lines.len());
                let k = LONG_KEY[*key as usize % LONG_KEY.len()];
                lines.insert(i, format!("{k}{}", "A".repeat(*len as usize)));
            }
            Edit::Many { with, count } => {
                for _ in 0..*count {
                    lines.push(HOSTILE[*with as usize].to_string());
                }
            }
            Edit::Free { at: p, text } => {
                let i = at(*p).min(lines.len());
                lines.insert(i, text.clone());
            }
            Edit::Eol { kind } => {
                eol = match kind {
                    0 => "\n",
                    1 => "\r",
                    _ => "\n\r\n",
                }
            }
        }
    }
    let mut s = lines.join(eol);
    s.push_str(eol);
    s
}

fn config(l: &Local, urls: &[String]) -> RtcConfiguration {
    let mut cfg = RtcConfiguration::default();
    cfg.transport_mode = match l.mode {
        Mode::WebRtc => TransportMode::WebRtc,
        Mode::Srtp => TransportMode::Srtp,
        Mode::Rtp => TransportMode::Rtp,
    };
    cfg.bind_ip = Some("127.0.0.1".to_string());
    cfg.disable_ipv6 = true;
    cfg.enable_upnp = false;
    cfg.enable_ice_lite = l.ice_lite;
    cfg.stun_timeout = Duration::from_millis(150);
    if !urls.is_empty() {
        cfg.ice_servers = vec![IceServer::new(urls.to_vec()).with_credential("u".to_string(), "p".to_string())];
    }
    cfg
}

fn sdp_type(t: u8) -> SdpType {
    match t {
        0 => SdpType::Offer,
        1 => SdpType::Answer,
        2 => SdpType::Pranswer,
        _ => SdpType::Rollback,
    }
}

pub async fn drive(case: SCase, prog: Arc<Progress>) -> Out {
    let mut out = Out::new();
    prog.step("setup", 15_000);
    let r = c08_offer::resolve(&case.local, &case.offer);
    let base = c08_offer::emit(&case.offer, &r);
    out.label(format!("sdp:mode={:?}", case.local.mode));
    if !case.urls.is_empty() {
        out.label("sdp:ice-urls");
    }
    prog.step("PeerConnection::new", STEP_MS);
    let pc = PeerConnection::new(config(&case.local, &case.urls));
    let mut keep: Vec<Box<dyn std::any::Any>> = Vec::new();
    if case.local.mode == Mode::WebRtc && case.offer.sections.len() % 2 == 0 {
        if let Ok(dc) = pc.create_data_channel("c07", None) {
            keep.push(Box::new(dc));
        }
    }
    let mut aw = AllocWatch::start("sdp");
    let mut closed = false;
    for (n, op) in case.ops.iter().enumerate() {
        let mut input_len = 0usize;
        let mut sections = 0usize;
        // the harness builds the text before the measured window opens
        let mut prepared = String::new();
        if let SOp::SetRemote { edits, .. } = op {
            let mut text = if case.calib { base.clone() } else { apply_edits(&base, edits) };
            let mut m_lines = text.lines().filter(|l| l.starts_with("m=")).count();
            if case.cap_sections && m_lines > MSECTIONS_CAP {
                let mut seen = 0;
                let kept: Vec<&str> = text
                    .split_inclusive(['\n', '\r'])
                    .filter(|l| {
                        if l.starts_with("m=") {
                            seen += 1;
                            seen <= MSECTIONS_CAP
                        } else {
                            true
                        }
                    })
                    .collect();
                text = kept.concat();
                m_lines = MSECTIONS_CAP;
                STEERED_MSEC.fetch_add(1, Ordering::Relaxed);
            }
            sections = m_lines;
            prepared = text;
        }
        aw.before();
        let what: String;
        match op {
            SOp::SetRemote { ty, edits } => {
                let text = std::mem::take(&mut prepared);
                if let Ok(dir) = std::env::var("C07_DUMP") {
                    let _ = std::fs::write(format!("{dir}/c07-sdp-{n}.txt"), &text);
                }
                input_len = text.len();
                what = format!("set_remote_description({:?}, {} bytes, edits {:?})", sdp_type(*ty), text.len(), edits);
                prog.step("SessionDescription::parse", STEP_MS);
                match SessionDescription::parse(sdp_type(if case.calib { 0 } else { *ty }), &text) {
                    Ok(d) => {
                        out.nontrivial = true;
                        out.label("sdp:parsed");
                        prog.step("set_remote_description", STEP_MS);
                        match tokio::time::timeout(Duration::from_millis(STEP_MS), pc.set_remote_description(d)).await {
                            Ok(Ok(())) => out.label("sdp:remote-accepted"),
                            Ok(Err(_)) => out.label("sdp:remote-rejected"),
                            Err(_) => {
                                out.fail(Fail::timing("hang:sdp:set_remote_description", format!("op {n}: {what} did not return within 2 s")));
                                return out;
                            }
                        }
                    }
                    Err(_) => out.label("sdp:parse-rejected"),
                }
            }
            SOp::CreateAnswer { apply } => {
                what = "create_answer".into();
                prog.step("create_answer", STEP_MS + 3_000);
                match tokio::time::timeout(Duration::from_millis(STEP_MS + 2_500), pc.create_answer()).await {
                    Ok(Ok(a)) => {
                        out.label("sdp:answer-created");
                        if *apply {
                            prog.step("set_local_description", STEP_MS);
                            let _ = pc.set_local_description(a);
                        }
                    }
                    Ok(Err(_)) => out.label("sdp:answer-refused"),
                    Err(_) => {
                        out.fail(Fail::timing("hang:sdp:create_answer", format!("op {n}: create_answer did not return within 4.5 s")));
                        return out;
                    }
                }
            }
            SOp::CreateOffer { apply } => {
                what = "create_offer".into();
                if case.local.mode == Mode::Srtp {
                    // C09 known finding (create_offer / setup_sdes lock-order inversion) is not C07's subject
                    continue;
                }
                prog.step("create_offer", STEP_MS + 3_000);
                match tokio::time::timeout(Duration::from_millis(STEP_MS + 2_500), pc.create_offer()).await {
                    Ok(Ok(o)) => {
                        if *apply {
                            prog.step("set_local_description", STEP_MS);
                            let _ = pc.set_local_description(o);
                        }
                    }
                    Ok(Err(_)) => {}
                    Err(_) => {
                        out.fail(Fail::timing("hang:sdp:create_offer", format!("op {n}: create_offer did not return within 4.5 s")));
                        return out;
                    }
                }
            }
            SOp::AddCand { text } => {
                input_len = text.len();
                what = format!("add_ice_candidate({text:?})");
                prog.step("IceCandidate::from_sdp", STEP_MS);
                match IceCandidate::from_sdp(text) {
                    Ok(c) => {
                        out.nontrivial = true;
                        out.label("sdp:candidate-parsed");
                        prog.step("add_ice_candidate", STEP_MS);
                        let _ = pc.add_ice_candidate(c.clone());
                        let _ = IceCandidate::from_sdp(&c.to_sdp());
                    }
                    Err(_) => out.label("sdp:candidate-rejected"),
                }
            }
            SOp::Close => {
                what = "close".into();
                prog.step("close", STEP_MS);
                pc.close();
                closed = true;
                out.label("sdp:closed-mid-sequence");
            }
        }
        super::settle(2).await;
        if let Err(mut f) = aw.after(input_len, &|| format!("op {n}: {what}")) {
            if sections > MSECTIONS_CAP {
                f.signature = SIG_MSECTIONS.to_string();
                f.msg = format!("{} [{} m= sections]", f.msg, sections);
            }
            out.fail(f);
            return out;
        }
        if let Some(p) = super::my_panics().first() {
            out.fail(super::panic_fail("sdp", &format!("op {n}: {}", what.chars().take(1500).collect::<String>()), p));
            return out;
        }
    }
    if case.calib {
        out.label("sdp:genuine-only");
    }
    // liveness: state queries and close() return promptly
    prog.step("probe:state", STEP_MS);
    let _ = pc.signaling_state();
    let _ = pc.local_description();
    let _ = pc.remote_description();
    let _ = pc.get_transceivers();
    if !closed {
        prog.step("probe:create_answer", STEP_MS + 3_000);
        if tokio::time::timeout(Duration::from_millis(STEP_MS + 2_500), pc.create_answer()).await.is_err() {
            out.fail(Fail::timing("hang:sdp:create_answer", "probe create_answer after the sequence did not return within 4.5 s".to_string()));
            return out;
        }
    }
    prog.step("probe:close", STEP_MS);
    pc.close();
    super::settle(3).await;
    if let Some(p) = super::my_panics().first() {
        out.fail(super::panic_fail("sdp", "probe/close", p));
        return out;
    }
    out.label("sdp:probe-ok");
    drop(keep);
    aw.finish(&mut out);
    out
}

/// Developer aid: `C07_SDP_FILE=<path> [C07_SDP_MODE=0|1|2]` measures parse / set_remote_description /
/// create_answer of one description text (peak live bytes of each step).
pub fn dev_file(path: &str) {
    let text = std::fs::read_to_string(path).expect("read sdp file");
    let mode = std::env::var("C07_SDP_MODE").ok().and_then(|v| v.parse::<u8>().ok()).unwrap_or(0);
    let h = std::thread::Builder::new()
        .name("c07-dev".into())
        .spawn(move || {
            let rt = tokio::runtime::Builder::new_current_thread().enable_all().build().unwrap();
            rt.block_on(async move {
                let mut cfg = RtcConfiguration::default();
                cfg.transport_mode = match mode {
                    0 => TransportMode::WebRtc,
                    1 => TransportMode::Srtp,
                    _ => TransportMode::Rtp,
                };
                cfg.bind_ip = Some("127.0.0.1".into());
                cfg.disable_ipv6 = true;
                let pc = PeerConnection::new(cfg);
                super::alloc::reset_peak();
                let l0 = super::alloc::live();
                let t0 = std::time::Instant::now();
                let d = SessionDescription::parse(SdpType::Offer, &text);
                println!("parse: ok={} peak=+{} live=+{} {:?}", d.is_ok(), super::alloc::peak() - l0, super::alloc::live() - l0, t0.elapsed());
                if let Ok(d) = d {
                    println!("sections={} attrs={:?}", d.media_sections.len(), d.media_sections.iter().map(|m| m.attributes.len()).collect::<Vec<_>>());
                    super::alloc::reset_peak();
                    let l1 = super::alloc::live();
                    let t1 = std::time::Instant::now();
                    let r = pc.set_remote_description(d).await;
                    println!("set_remote_description: {:?} peak=+{} live=+{} {:?}", r.map_err(|e| format!("{e:?}").chars().take(120).collect::<String>()), super::alloc::peak() - l1, super::alloc::live() - l1, t1.elapsed());
                    super::alloc::reset_peak();
                    let l2 = super::alloc::live();
                    let t2 = std::time::Instant::now();
                    let r = pc.create_answer().await;
                    println!("create_answer: ok={} peak=+{} live=+{} {:?}", r.is_ok(), super::alloc::peak() - l2, super::alloc::live() - l2, t2.elapsed());
                }
            });
        })
        .unwrap();
    let _ = h.join();
}
