//! C07 layer `rtp`: RTP / RTCP datagrams into `RtpTransport::receive` (with and without an SRTP
//! session) followed by the operations the stack applies to packets it parsed.

use super::{AllocWatch, Mut, Out, Progress, STEP_MS, apply_all, edge_u16, mut_strategy, small_bytes};
use crate::engine::Fail;
use crate::refimpl::srtp::{Profile, Srtp, rtp_header_len};
use bytes::Bytes;
use proptest::prelude::*;
use rustrtc::rtp::{RtcpPacket, RtpPacket};
use rustrtc::srtp::{SrtpKeyingMaterial, SrtpProfile, SrtpSession};
use rustrtc::transports::PacketReceiver;
use rustrtc::transports::ice::IceSocketWrapper;
use rustrtc::transports::ice::conn::IceConn;
use rustrtc::transports::rtp::{RtpRewriteBridgeOptions, RtpRewriteBridgeParams, RtpRewriteRule, RtpTransport};
use serde::{Deserialize, Serialize};
use std::net::SocketAddr;
use std::sync::Arc;
use std::time::Duration;
use tokio::sync::{mpsc, watch};

#[derive(Clone, Debug, Serialize, Deserialize)]
pub struct ExtGen {
    pub profile: u16,
    pub decl_words: Option<u16>,
    /// (id, length code, data): BEDE writes (id<<4 | code&15) then data; 0x1000 writes id, code, data
    pub elems: Vec<(u8, u8, Vec<u8>)>,
    pub zeros: u8,
}

#[derive(Clone, Debug, Serialize, Deserialize)]
pub enum RIn {
    Rtp {
        version: u8,
        p: bool,
        cc: u8,
        csrcs: u8,
        m: bool,
        pt: u8,
        seq: u16,
        ts: u32,
        ssrc: u8,
        ext: Option<ExtGen>,
        #[serde(with = "crate::engine::hexbytes")]
        payload: Vec<u8>,
        cut: Option<u16>,
        protect: bool,
    },
    Rtcp {
        /// (first byte low 6 bits: P + count, packet type, declared length words, body)
        pkts: Vec<(u8, u8, Option<u16>, Vec<u8>)>,
        cut: Option<u16>,
        protect: bool,
        encrypt: bool,
    },
    Mutate { base: u8, ops: Vec<Mut>, protect: bool },
    Random {
        first: u8,
        #[serde(with = "crate::engine::hexbytes")]
        rest: Vec<u8>,
    },
}

#[derive(Clone, Debug, Serialize, Deserialize)]
pub struct RCase {
    /// None = plain RTP; Some(i) = SRTP session with profile i
    pub srtp: Option<u8>,
    /// rewrite bridge installed on the receiving transport: (mid extension id, mid text, strip, legacy params)
    pub bridge: Option<(u8, String, bool, bool)>,
    pub rid_id: Option<u8>,
    pub mid_id: Option<u8>,
    pub abs_id: Option<u8>,
    pub inputs: Vec<RIn>,
    pub calib: bool,
}

const SSRCS: [u32; 4] = [0x1111_1111, 0x2222_2222, 0x0000_0000, 0xFFFF_FFFF];

fn ext_gen() -> BoxedStrategy<ExtGen> {
    (
        prop_oneof![5 => Just(0xBEDEu16), 2 => Just(0x1000u16), 1 => any::<u16>()],
        prop::option::weighted(0.3, prop_oneof![0u16..6, edge_u16()]),
        prop::collection::vec((0u8..=16, prop_oneof![3 => 0u8..4, 1 => any::<u8>()], small_bytes(20)), 0..5),
        0u8..5,
    )
        .prop_map(|(profile, decl_words, elems, zeros)| ExtGen { profile, decl_words, elems, zeros })
        .boxed()
}

fn rin() -> BoxedStrategy<RIn> {
    let rtp = (
        (prop_oneof![9 => Just(2u8), 1 => 0u8..4], any::<bool>(), 0u8..16, 0u8..16, any::<bool>(), prop_oneof![3 => prop::sample::select(vec![0u8, 8, 96, 101, 111, 126, 127]), 1 => 0u8..128]),
        (prop_oneof![3 => 0u16..64, 1 => edge_u16()], any::<u32>(), 0u8..4),
        prop::option::weighted(0.75, ext_gen()),
        small_bytes(200),
        prop::option::weighted(0.15, any::<u16>()),
        prop::bool::weighted(0.8),
    )
        .prop_map(|((version, p, cc, csrcs, m, pt), (seq, ts, ssrc), ext, payload, cut, protect)| RIn::Rtp {
            version,
            p,
            cc: if cc > 3 && csrcs != cc { cc } else { csrcs.min(15) },
            csrcs: csrcs.min(15),
            m,
            pt,
            seq,
            ts,
            ssrc,
            ext,
            payload,
            cut,
            protect,
        });
    let rtcp = (
        prop::collection::vec((any::<u8>(), prop_oneof![4 => 200u8..=207, 1 => 192u8..=208, 1 => any::<u8>()], prop::option::weighted(0.35, prop_oneof![0u16..8, edge_u16()]), small_bytes(64)), 1..4),
        prop::option::weighted(0.15, any::<u16>()),
        prop::bool::weighted(0.8),
        any::<bool>(),
    )
        .prop_map(|(pkts, cut, protect, encrypt)| RIn::Rtcp { pkts, cut, protect, encrypt });
    let mutate = (0u8..12, prop::collection::vec(mut_strategy(&[(0, 1), (2, 2), (12, 2), (14, 2), (16, 1), (17, 1)]), 1..4), prop::bool::weighted(0.8)).prop_map(|(base, ops, protect)| RIn::Mutate { base, ops, protect });
    let random = (128u8..192, prop::collection::vec(any::<u8>(), 0..120)).prop_map(|(first, rest)| RIn::Random { first, rest });
    prop_oneof![5 => rtp, 3 => rtcp, 4 => mutate, 1 => random].boxed()
}

pub fn strategy() -> BoxedStrategy<RCase> {
    (
        prop::option::weighted(0.5, 0u8..4),
        prop::option::weighted(0.5, (1u8..15, prop::sample::select(vec!["0", "1", "audio", "0123456789abcdef"]), prop::bool::weighted(0.2), any::<bool>())),
        prop::option::weighted(0.6, 1u8..15),
        prop::option::weighted(0.6, 1u8..15),
        prop::option::weighted(0.6, 1u8..15),
        super::seq_of(rin()),
        prop::bool::weighted(0.05),
    )
        .prop_map(|(srtp, bridge, rid_id, mid_id, abs_id, inputs, calib)| RCase { srtp, bridge: bridge.map(|(a, b, c, d)| (a, b.to_string(), c, d)), rid_id, mid_id, abs_id, inputs, calib })
        .boxed()
}

fn ext_bytes(e: &ExtGen) -> Vec<u8> {
    let mut d = Vec::new();
    for (id, code, data) in &e.elems {
        if e.profile == 0x1000 {
            d.push(*id);
            d.push(*code);
        } else {
            d.push((id << 4) | (code & 0x0f));
        }
        d.extend_from_slice(data);
    }
    d.extend(std::iter::repeat_n(0u8, e.zeros as usize));
    let words = e.decl_words.unwrap_or(((d.len() + 3) / 4) as u16);
    if e.decl_words.is_none() {
        while d.len() % 4 != 0 {
            d.push(0);
        }
    }
    let mut v = e.profile.to_be_bytes().to_vec();
    v.extend_from_slice(&words.to_be_bytes());
    v.extend_from_slice(&d);
    v
}

fn rtp_plain(version: u8, p: bool, x: Option<&ExtGen>, cc: u8, csrcs: u8, m: bool, pt: u8, seq: u16, ts: u32, ssrc: u32, payload: &[u8]) -> Vec<u8> {
    let mut v = vec![(version << 6) | ((p as u8) << 5) | ((x.is_some() as u8) << 4) | (cc & 15), ((m as u8) << 7) | (pt & 0x7f)];
    v.extend_from_slice(&seq.to_be_bytes());
    v.extend_from_slice(&ts.to_be_bytes());
    v.extend_from_slice(&ssrc.to_be_bytes());
    for i in 0..csrcs {
        v.extend_from_slice(&(0xC5C0_0000u32 + i as u32).to_be_bytes());
    }
    if let Some(e) = x {
        v.extend_from_slice(&ext_bytes(e));
    }
    v.extend_from_slice(payload);
    v
}

fn rtcp_one(b0low: u8, pt: u8, words: Option<u16>, body: &[u8]) -> Vec<u8> {
    let mut b = body.to_vec();
    if words.is_none() {
        while b.len() % 4 != 0 {
            b.push(0);
        }
    }
    let w = words.unwrap_or((b.len() / 4) as u16);
    let mut v = vec![0x80 | (b0low & 0x3f), pt];
    v.extend_from_slice(&w.to_be_bytes());
    v.extend_from_slice(&b);
    v
}

/// Genuine templates (what a well-behaved peer sends); index wraps.
fn template(i: u8, seq: u16) -> Vec<u8> {
    let s = 0x1111_1111u32.to_be_bytes();
    let m = 0x2222_2222u32.to_be_bytes();
    let cat = |parts: &[&[u8]]| parts.concat();
    match i % 12 {
        0 => rtp_plain(2, false, None, 0, 0, false, 111, seq, 1000, 0x1111_1111, &[1, 2, 3, 4, 5, 6, 7, 8]),
        1 => {
            // one-byte extensions: abs-send-time id 2 (3 bytes), mid id 3 ("0"), audio level id 1
            let e = ExtGen { profile: 0xBEDE, decl_words: None, elems: vec![(2, 2, vec![1, 2, 3]), (3, 0, vec![b'0']), (1, 0, vec![0x85])], zeros: 0 };
            rtp_plain(2, false, Some(&e), 0, 0, true, 111, seq, 2000, 0x1111_1111, &[9; 40])
        }
        2 => {
            let e = ExtGen { profile: 0x1000, decl_words: None, elems: vec![(3, 1, vec![b'1']), (10, 4, b"rid0".to_vec())], zeros: 1 };
            rtp_plain(2, false, Some(&e), 2, 2, false, 96, seq, 3000, 0x2222_2222, &[7; 100])
        }
        3 => {
            // padding
            let mut p = vec![5u8; 20];
            p.extend_from_slice(&[0, 0, 0, 4]);
            rtp_plain(2, true, None, 0, 0, false, 96, seq, 4000, 0x2222_2222, &p)
        }
        4 => {
            // SR with one report block + SDES CNAME
            let mut sr = cat(&[&s, &[0u8; 8], &[0, 0, 1, 0], &[0, 0, 0, 9], &[0, 0, 9, 0]]);
            sr.extend_from_slice(&cat(&[&m, &[0, 0, 0, 1], &[0, 0, 0, 50], &[0, 0, 0, 3], &[0u8; 8]]));
            let sdes = cat(&[&s, &[1, 5], b"cname", &[0]]);
            cat(&[&rtcp_one(1, 200, None, &sr), &rtcp_one(1, 202, None, &sdes)])
        }
        5 => rtcp_one(1, 201, None, &cat(&[&s, &m, &[0, 0, 0, 1], &[0, 0, 0, 50], &[0, 0, 0, 3], &[0u8; 8]])),
        6 => rtcp_one(1, 205, None, &cat(&[&s, &m, &[0, 10, 0x80, 1], &[0, 40, 0, 0]])),
        7 => rtcp_one(1, 206, None, &cat(&[&s, &m])),
        8 => rtcp_one(4, 206, None, &cat(&[&s, &[0u8; 4], &m, &[7, 0, 0, 0]])),
        9 => rtcp_one(15, 206, None, &cat(&[&s, &[0u8; 4], b"REMB", &[2, 0x0b, 0xff, 0xff], &m, &s])),
        10 => {
            // TWCC: base seq 10, 3 packets, ref time, fb count 1, one run-length chunk (small delta x3), 3 deltas + pad
            rtcp_one(15, 205, None, &cat(&[&s, &m, &[0, 10, 0, 3], &[0, 0, 1, 1], &[0x20, 3], &[4, 4, 4], &[0, 0, 0]]))
        }
        _ => cat(&[&rtcp_one(0, 201, None, &s), &rtcp_one(1, 203, None, &cat(&[&s, &[3], b"bye"]))]),
    }
}

fn is_rtcp(b: &[u8]) -> bool {
    b.len() >= 2 && (192..=208).contains(&b[1])
}

/// classifier: own reader says the fixed header (RTP: incl. CSRC/extension block; RTCP: first header) is valid
fn classifies(b: &[u8]) -> bool {
    if is_rtcp(b) {
        b.len() >= 4 && b[0] >> 6 == 2 && (u16::from_be_bytes([b[2], b[3]]) as usize + 1) * 4 <= b.len()
    } else {
        rtp_header_len(b).is_some()
    }
}

struct Keys {
    profile: Profile,
    key: Vec<u8>,
    salt: Vec<u8>,
    key2: Vec<u8>,
    salt2: Vec<u8>,
}

fn keys(i: u8) -> Keys {
    let profile = Profile::ALL[i as usize % 4];
    Keys {
        profile,
        key: (0..profile.key_len() as u8).map(|x| x.wrapping_mul(7).wrapping_add(3)).collect(),
        salt: (0..profile.salt_len() as u8).map(|x| x.wrapping_mul(11).wrapping_add(1)).collect(),
        key2: (0..profile.key_len() as u8).map(|x| x.wrapping_mul(5).wrapping_add(9)).collect(),
        salt2: (0..profile.salt_len() as u8).map(|x| x.wrapping_mul(13).wrapping_add(2)).collect(),
    }
}

fn rprofile(p: Profile) -> SrtpProfile {
    match p {
        Profile::AesCm128HmacSha1_80 => SrtpProfile::Aes128Sha1_80,
        Profile::AesCm128HmacSha1_32 => SrtpProfile::Aes128Sha1_32,
        Profile::AeadAes128Gcm => SrtpProfile::AeadAes128Gcm,
        Profile::NullHmacSha1_80 => SrtpProfile::NullCipherHmac,
    }
}

struct Sink;
impl rustrtc::peer_connection::RtpObserver for Sink {
    fn on_ingress(&self, packet: &RtpPacket, _src: SocketAddr) {
        let _ = packet.header.get_extension(1);
    }
    fn on_egress(&self, packet: &RtpPacket, _dst: SocketAddr) {
        let _ = packet.header.get_extension(1);
    }
}

pub async fn drive(case: RCase, prog: Arc<Progress>) -> Out {
    let mut out = Out::new();
    prog.step("setup", 10_000);
    let from: SocketAddr = "127.0.0.1:40404".parse().unwrap();
    let (_tx, rx) = watch::channel(None::<IceSocketWrapper>);
    let tr = RtpTransport::new(IceConn::new(rx, from, None), case.srtp.is_some());
    let k = case.srtp.map(keys);
    let model = k.as_ref().map(|k| Srtp::new(k.profile, &k.key, &k.salt).expect("model"));
    if let Some(k) = &k {
        // the transport receives what the model (the remote sender) protects with (key, salt)
        let s = SrtpSession::new(rprofile(k.profile), SrtpKeyingMaterial::new(k.key2.clone(), k.salt2.clone()), SrtpKeyingMaterial::new(k.key.clone(), k.salt.clone())).expect("session");
        tr.start_srtp(s);
        out.label(format!("rtp:srtp:{}", k.profile.name()));
    } else {
        out.label("rtp:plain");
    }
    let (rtp_tx, mut rtp_rx) = mpsc::channel::<(RtpPacket, SocketAddr)>(64);
    let (mid_tx, mut mid_rx) = mpsc::channel::<(RtpPacket, SocketAddr)>(64);
    let (rtcp_tx, mut rtcp_rx) = mpsc::channel::<Vec<RtcpPacket>>(64);
    tr.register_provisional_listener(rtp_tx);
    tr.register_mid_listener("0".into(), mid_tx.clone());
    tr.register_rid_listener("rid0".into(), mid_tx);
    tr.register_rtcp_listener(rtcp_tx);
    tr.set_rid_extension_id(case.rid_id);
    tr.set_sdes_mid_extension_id(case.mid_id);
    tr.add_observer(Arc::new(Sink));
    // destination leg for the bridge and for re-sending parsed packets
    let (_dtx, drx) = watch::channel(None::<IceSocketWrapper>);
    let dst = Arc::new(RtpTransport::new(IceConn::new(drx, "127.0.0.1:9".parse().unwrap(), None), false));
    dst.set_abs_send_time_extension_id(case.abs_id);
    dst.add_observer(Arc::new(Sink));
    if let Some((id, mid, strip, legacy)) = &case.bridge {
        if *legacy {
            tr.bridge_rewrite_to(dst.clone(), RtpRewriteBridgeParams { ssrc_offset: 7, fixed_out_ssrc: None, payload_type: Some(96), dtmf_payload_type: Some((101, 126)), initial_sequence_number: Some(65530), initial_timestamp_offset: None, strip_extensions: *strip });
            out.label("rtp:bridge-legacy");
        } else {
            let rule = RtpRewriteRule { match_payload_type: None, fixed_out_ssrc: Some(0xABCD_0001), ssrc_offset: 0, out_payload_type: None, sdes_mid_extension_id: Some(*id), sdes_mid: Some(mid.clone()) };
            tr.bridge_rewrite_rules_to(dst.clone(), RtpRewriteBridgeOptions { strip_extensions: *strip, initial_sequence_number: Some(65530), initial_timestamp_offset: Some(0xFFFF_FF00), initial_output_timestamp: None }, vec![rule]);
            out.label("rtp:bridge-mid-stamp");
        }
    }
    let mut buf = Vec::new();
    let mut rtcp_index = 1u32;
    let mut aw = AllocWatch::start("rtp");
    let mut genuine_only = true;
    for (n, i) in case.inputs.iter().enumerate() {
        let (plain, protect, encrypt) = if case.calib {
            (template(n as u8, 100 + n as u16), true, true)
        } else {
            match i {
            RIn::Rtp { version, p, cc, csrcs, m, pt, seq, ts, ssrc, ext, payload, cut, protect } => {
                let mut v = rtp_plain(*version, *p, ext.as_ref(), *cc, *csrcs, *m, *pt, *seq, *ts, SSRCS[*ssrc as usize % 4], payload);
                if let Some(c) = cut {
                    let l = ((*c as usize) * v.len()) >> 16;
                    v.truncate(l);
                }
                (v, *protect, false)
            }
            RIn::Rtcp { pkts, cut, protect, encrypt } => {
                let mut v = Vec::new();
                for (b0, pt, w, body) in pkts {
                    v.extend_from_slice(&rtcp_one(*b0, *pt, *w, body));
                }
                if let Some(c) = cut {
                    let l = ((*c as usize) * v.len()) >> 16;
                    v.truncate(l);
                }
                (v, *protect, *encrypt)
            }
            RIn::Mutate { base, ops, protect } => (apply_all(&template(*base, 100 + n as u16), ops), *protect, true),
            RIn::Random { first, rest } => {
                let mut v = vec![*first];
                v.extend_from_slice(rest);
                (v, false, false)
            }
            }
        };
        genuine_only &= case.calib;
        // with an SRTP session: protect with the independent model so the packet authenticates
        let wire = match (&model, protect) {
            (Some(m), true) => {
                if is_rtcp(&plain) && plain.len() >= 8 {
                    rtcp_index += 1;
                    m.protect_rtcp(&plain, rtcp_index, encrypt).unwrap_or(plain.clone())
                } else {
                    m.protect_rtp(&plain, 0).unwrap_or(plain.clone())
                }
            }
            _ => plain.clone(),
        };
        let kind = if is_rtcp(&plain) { "rtcp" } else { "rtp" };
        if classifies(&plain) && (model.is_none() || protect) {
            out.nontrivial = true;
            out.label(format!("rtp:{kind}:classified"));
        } else {
            out.label(format!("rtp:{kind}:rejected-early"));
        }
        prog.step("RtpTransport::receive", STEP_MS);
        aw.before();
        let before = tr.received_rtp_packets();
        tr.receive(Bytes::from(wire.clone()), from, &mut buf).await;
        if tr.received_rtp_packets() > before {
            out.label("rtp:accepted");
        }
        // operations the stack applies to packets it parsed
        prog.step("post-parse-ops", STEP_MS);
        let mut parsed: Vec<RtpPacket> = Vec::new();
        while let Ok((p, _)) = rtp_rx.try_recv() {
            parsed.push(p);
        }
        while let Ok((p, _)) = mid_rx.try_recv() {
            parsed.push(p);
        }
        while let Ok(v) = rtcp_rx.try_recv() {
            out.label("rtp:rtcp-delivered");
            // re-serialise what was parsed (what an SFU does when it forwards feedback)
            if let Ok(b) = rustrtc::rtp::marshal_rtcp_packets(&v) {
                let _ = rustrtc::rtp::parse_rtcp_packets(&b, None);
            }
        }
        for mut p in parsed {
            out.label("rtp:delivered");
            for id in 1..=15u8 {
                let _ = p.header.get_extension(id);
            }
            let _ = p.marshal();
            let mut q = p.clone();
            let _ = q.header.set_extension(case.mid_id.unwrap_or(3), b"0");
            let _ = q.header.set_extension(case.abs_id.unwrap_or(2), &[1, 2, 3]);
            if let Ok(b) = q.marshal() {
                let _ = RtpPacket::parse(&b);
            }
            // relay: abs-send-time stamping on the outgoing leg
            let _ = dst.send_rtp(p.clone()).await;
            p.header.extension = None;
            let _ = p.marshal();
        }
        if let Err(f) = aw.after(wire.len(), &|| format!("input {n} ({} bytes)", wire.len())) {
            out.fail(f);
            return out;
        }
        if let Some(p) = super::my_panics().first() {
            out.fail(super::panic_fail("rtp", &format!("input {n}: {}", crate::engine::hex(&wire[..wire.len().min(96)])), p));
            return out;
        }
    }
    if genuine_only {
        out.label("rtp:genuine-only");
    }
    // liveness: a genuine packet of a fresh SSRC is accepted
    prog.step("probe", STEP_MS + 500);
    let probe = rtp_plain(2, false, None, 0, 0, false, 111, 7, 7, 0xC0FF_EE01, &[1; 20]);
    let wire = match &model {
        Some(m) => m.protect_rtp(&probe, 0).expect("protect probe"),
        None => probe,
    };
    let before = tr.received_rtp_packets();
    let r = tokio::time::timeout(super::PROBE, tr.receive(Bytes::from(wire), from, &mut buf)).await;
    if r.is_err() {
        out.fail(Fail::timing("hang:rtp:probe", "receive of a genuine packet did not return within 2 s".to_string()));
    } else if tr.received_rtp_packets() != before + 1 {
        out.fail(Fail::new("dead:rtp", "a genuine RTP packet of a fresh SSRC was not accepted after the sequence".to_string()));
    } else {
        out.label("rtp:probe-accepted");
    }
    let _ = Duration::from_millis(0);
    aw.finish(&mut out);
    out
}
