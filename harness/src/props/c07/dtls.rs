//! C07 layer `dtls`: datagram sequences into a live DTLS endpoint (IceConn + DtlsTransport, no SCTP)
//! in every reachable state.

use super::{AllocWatch, Known, Mut, Out, Progress, STEP_MS, apply_all, edge_u16, edge_u24, mut_strategy, settle, small_bytes};
use crate::engine::{Fail, pick};
use crate::net::fault::Side;
use crate::net::rig::{Pair, PairSpec, state_name};
use crate::net::wire::{self, DClass};
use bytes::Bytes;
use parking_lot::Mutex;
use proptest::prelude::*;
use rustrtc::transports::PacketReceiver;
use rustrtc::transports::dtls::{DtlsState, DtlsTransport};
use serde::{Deserialize, Serialize};
use std::net::SocketAddr;
use std::sync::Arc;
use std::sync::atomic::{AtomicBool, AtomicU64, Ordering};
use std::time::Duration;

static STEERED: AtomicU64 = AtomicU64::new(0);
pub fn steered_hello() -> u64 {
    STEERED.load(Ordering::Relaxed)
}
pub fn steered_shd() -> u64 {
    STEERED_SHD.load(Ordering::Relaxed)
}

// ---------------------------------------------------------------- receive gate (capture + hold)

/// Sits between IceConn and DtlsTransport: records what the peer sent and withholds the classes
/// that would let the handshake advance past the state under test.
pub struct Gate {
    inner: Arc<DtlsTransport>,
    hold: Mutex<Vec<DClass>>,
    pub log: Mutex<Vec<Bytes>>,
    pub capture: AtomicBool,
    pub injecting: AtomicBool,
    pub seen: AtomicU64,
    pub held: AtomicU64,
    /// highest message_seq of an epoch-0 handshake record that was let through
    pub max_seq: Mutex<Option<u16>>,
}

#[async_trait::async_trait]
impl PacketReceiver for Gate {
    async fn receive(&self, packet: Bytes, addr: SocketAddr, buf: &mut Vec<u8>) {
        if self.injecting.load(Ordering::Relaxed) {
            self.inner.receive(packet, addr, buf).await;
            return;
        }
        self.seen.fetch_add(1, Ordering::Relaxed);
        let class = wire::dtls_class(&packet);
        if self.capture.load(Ordering::Relaxed) {
            let mut l = self.log.lock();
            if l.len() < 48 {
                l.push(packet.clone());
            }
        }
        if self.hold.lock().contains(&class) {
            self.held.fetch_add(1, Ordering::Relaxed);
            return;
        }
        for r in wire::dtls_records(&packet) {
            if r.content_type == 22 && r.epoch == 0 {
                if let Some(h) = wire::hs_header(&r.body) {
                    let mut m = self.max_seq.lock();
                    *m = Some(m.map(|x| x.max(h.message_seq)).unwrap_or(h.message_seq));
                }
            }
        }
        self.inner.receive(packet, addr, buf).await;
    }
}

pub fn gate(dtls: &Arc<DtlsTransport>, hold: Vec<DClass>) -> Arc<Gate> {
    Arc::new(Gate {
        inner: dtls.clone(),
        hold: Mutex::new(hold),
        log: Mutex::new(Vec::new()),
        capture: AtomicBool::new(true),
        injecting: AtomicBool::new(false),
        seen: AtomicU64::new(0),
        held: AtomicU64::new(0),
        max_seq: Mutex::new(None),
    })
}

impl Gate {
    pub fn release(&self) {
        self.hold.lock().clear();
    }
}

// ---------------------------------------------------------------- case

#[derive(Clone, Copy, Debug, PartialEq, Eq, Serialize, Deserialize)]
pub enum DState {
    /// nothing of the handshake has been delivered to the server; the client has sent its ClientHello
    Pre,
    /// server holds flight 2 (ServerHello..Done sent), client got nothing
    Mid1,
    /// client processed flight 2 and sent flight 3, server got nothing of it
    Mid2,
    /// server processed flight 3 (Connected), client still waits for flight 4
    Mid3,
    Established,
    /// close() called on the target (true) or on its peer (false) before the sequence
    Closing(bool),
}

#[derive(Clone, Debug, Serialize, Deserialize)]
pub enum LenSel {
    Actual,
    Delta(i8),
    Abs(u32),
}

impl LenSel {
    fn get(&self, actual: usize) -> u32 {
        match self {
            LenSel::Actual => actual as u32,
            LenSel::Delta(d) => (actual as i64 + *d as i64).max(0) as u32,
            LenSel::Abs(v) => *v,
        }
    }
}

#[derive(Clone, Debug, Serialize, Deserialize)]
pub enum SeqSel {
    Expected,
    Plus(i16),
    Abs(u16),
    /// continue where the previous chained run of this sequence ended (first one: Expected)
    Chain,
}

#[derive(Clone, Debug, Serialize, Deserialize)]
pub struct HelloGen {
    pub server: bool,
    pub sid_decl: Option<u8>,
    pub sid: u8,
    pub cookie_decl: Option<u8>,
    pub cookie: u8,
    pub suites_decl: Option<u16>,
    pub suites: u8,
    pub comp_decl: Option<u8>,
    pub comp: u8,
    pub ext_decl: Option<u16>,
    /// (type, declared length, data)
    pub exts: Vec<(u16, Option<u16>, Vec<u8>)>,
    pub cut: Option<u16>,
    /// cut right after the k-th field of the body, plus a delta of -1 / 0 / +1 bytes (takes precedence over `cut`)
    pub cut_field: Option<(u8, i8)>,
}

#[derive(Clone, Debug, Serialize, Deserialize)]
pub enum Body {
    Raw(#[serde(with = "crate::engine::hexbytes")] Vec<u8>),
    Hello(HelloGen),
    /// version, declared cookie length, cookie, cut
    Hvr(Option<u8>, u8, Option<u16>),
    /// declared list length, certificates (declared length, use the peer's genuine DER / filler length), cut
    Cert(LenSel, Vec<(LenSel, Option<u16>)>, Option<u16>),
    /// curve type, named curve, declared key length, key bytes, hash, sig alg, declared sig length, sig bytes, cut
    Ske(u8, u16, Option<u8>, u8, u8, u8, Option<u16>, u8, Option<u16>),
    /// declared key length, key bytes (65 = a well-formed looking point)
    Cke(Option<u8>, u8),
}

#[derive(Clone, Debug, Serialize, Deserialize)]
pub struct HsMsg {
    pub mt: u8,
    pub total: LenSel,
    pub seq: SeqSel,
    pub frag_off: u32,
    pub frag_len: LenSel,
    pub body: Body,
}

#[derive(Clone, Debug, Serialize, Deserialize)]
pub enum DIn {
    /// mutation of a genuine datagram captured in this state
    Mutate { src: u16, ops: Vec<Mut> },
    /// head of one genuine datagram + tail of another
    Splice { a: u16, b: u16, cut_a: u16, cut_b: u16 },
    Replay { src: u16 },
    /// one record carrying grammar-built handshake messages
    Hs { epoch: u16, rec_seq: u16, rec_len: LenSel, msgs: Vec<HsMsg> },
    /// a run of `count` zero-length messages with consecutive message_seq in one record
    HsRun { mt: u8, base: SeqSel, count: u16 },
    /// any record: content type, version, epoch, sequence, body, declared length, and an optional second copy
    Rec { ct: u8, ver: (u8, u8), epoch: u16, seq: u64, #[serde(with = "crate::engine::hexbytes")] body: Vec<u8>, rec_len: LenSel, twice: bool },
    Random { first: u8, #[serde(with = "crate::engine::hexbytes")] rest: Vec<u8> },
}

#[derive(Clone, Debug, Serialize, Deserialize)]
pub struct DCase {
    pub state: DState,
    /// target is the DTLS client (A) or the server (B)
    pub target_client: bool,
    pub inputs: Vec<DIn>,
    pub calib: bool,
}

pub const SIG_SHD: &str = "alloc-growth:dtls:server-answers-ServerHelloDone";
static STEERED_SHD: AtomicU64 = AtomicU64::new(0);

fn lensel() -> BoxedStrategy<LenSel> {
    prop_oneof![7 => Just(LenSel::Actual), 3 => (-3i8..=3).prop_map(LenSel::Delta), 3 => edge_u24().prop_map(LenSel::Abs)].boxed()
}

fn seqsel() -> BoxedStrategy<SeqSel> {
    prop_oneof![5 => Just(SeqSel::Expected), 2 => (-2i16..=3).prop_map(SeqSel::Plus), 2 => edge_u16().prop_map(SeqSel::Abs)].boxed()
}

fn cut() -> BoxedStrategy<Option<u16>> {
    prop::option::weighted(0.55, prop_oneof![4 => prop::sample::select(vec![0u16, 1, 2, 3, 4, 32, 33, 34, 35, 36, 37, 38, 39, 40, 66, 67, 68, 69, 70]), 2 => 0u16..140]).boxed()
}

fn hello() -> BoxedStrategy<HelloGen> {
    (
        (any::<bool>(), prop::option::weighted(0.3, any::<u8>()), prop::sample::select(vec![0u8, 0, 1, 32, 33])),
        (prop::option::weighted(0.3, any::<u8>()), prop::sample::select(vec![0u8, 0, 1, 20, 255])),
        (prop::option::weighted(0.3, edge_u16()), 0u8..4),
        (prop::option::weighted(0.3, any::<u8>()), 0u8..3),
        prop::option::weighted(0.3, edge_u16()),
        prop::collection::vec((prop::sample::select(vec![10u16, 11, 13, 14, 23, 0xff01, 0, 65535]), prop::option::weighted(0.3, edge_u16()), small_bytes(12)), 0..5),
        cut(),
        prop::option::weighted(0.35, (0u8..14, -1i8..=1)),
    )
        .prop_map(|((server, sid_decl, sid), (cookie_decl, cookie), (suites_decl, suites), (comp_decl, comp), ext_decl, exts, cut, cut_field)| HelloGen {
            server,
            sid_decl,
            sid,
            cookie_decl,
            cookie,
            suites_decl,
            suites,
            comp_decl,
            comp,
            ext_decl,
            exts,
            cut,
            cut_field,
        })
        .boxed()
}

fn body() -> BoxedStrategy<Body> {
    prop_oneof![
        3 => small_bytes(80).prop_map(Body::Raw),
        1 => Just(Body::Raw(Vec::new())),
        5 => hello().prop_map(Body::Hello),
        1 => (prop::option::weighted(0.4, any::<u8>()), prop::sample::select(vec![0u8, 1, 20, 32, 255]), cut()).prop_map(|(a, b, c)| Body::Hvr(a, b, c)),
        2 => (lensel(), prop::collection::vec((lensel(), prop::option::weighted(0.5, prop::sample::select(vec![0u16, 1, 3, 64, 300]))), 0..3), cut()).prop_map(|(a, b, c)| Body::Cert(a, b, c)),
        2 => ((prop::sample::select(vec![3u8, 0, 1, 255]), prop::sample::select(vec![23u16, 29, 0, 65535])), (prop::option::weighted(0.4, any::<u8>()), prop::sample::select(vec![65u8, 0, 1, 33, 255])), (prop::sample::select(vec![4u8, 0, 255]), prop::sample::select(vec![3u8, 1, 0])), (prop::option::weighted(0.4, edge_u16()), prop::sample::select(vec![70u8, 0, 1, 72, 255])), cut())
            .prop_map(|((ct, nc), (kd, k), (h, s), (sd, sg), c)| Body::Ske(ct, nc, kd, k, h, s, sd, sg, c)),
        2 => (prop::option::weighted(0.4, any::<u8>()), prop::sample::select(vec![65u8, 0, 1, 33, 64, 66, 255])).prop_map(|(a, b)| Body::Cke(a, b)),
    ]
    .boxed()
}

fn hsmsg() -> BoxedStrategy<HsMsg> {
    (
        prop_oneof![8 => prop::sample::select(vec![0u8, 1, 2, 3, 11, 12, 13, 14, 15, 16, 20]), 1 => any::<u8>()],
        lensel(),
        seqsel(),
        prop_oneof![3 => Just(0u32), 1 => edge_u24()],
        lensel(),
        body(),
    )
        .prop_map(|(mt, total, seq, frag_off, frag_len, body)| {
            // the natural pairing of message type and body most of the time
            let mt = match (&body, mt % 4) {
                (Body::Hello(h), 0..=2) => {
                    if h.server {
                        2
                    } else {
                        1
                    }
                }
                (Body::Hvr(..), 0..=2) => 3,
                (Body::Cert(..), 0..=2) => 11,
                (Body::Ske(..), 0..=2) => 12,
                (Body::Cke(..), 0..=2) => 16,
                _ => mt,
            };
            HsMsg { mt, total, seq, frag_off, frag_len, body }
        })
        .boxed()
}

const DTLS_FIELDS: &[(u16, u8)] = &[(0, 1), (1, 2), (3, 2), (5, 2), (9, 2), (11, 2), (13, 1), (14, 3), (17, 2), (19, 3), (22, 3), (25, 2), (59, 1), (60, 1)];

fn din() -> BoxedStrategy<DIn> {
    prop_oneof![
        6 => (any::<u16>(), prop::collection::vec(mut_strategy(DTLS_FIELDS), 1..4)).prop_map(|(src, ops)| DIn::Mutate { src, ops }),
        1 => (any::<u16>(), any::<u16>(), any::<u16>(), any::<u16>()).prop_map(|(a, b, cut_a, cut_b)| DIn::Splice { a, b, cut_a, cut_b }),
        1 => any::<u16>().prop_map(|src| DIn::Replay { src }),
        7 => (prop_oneof![6 => Just(0u16), 1 => Just(1u16), 1 => edge_u16()], edge_u16(), lensel(), prop::collection::vec(hsmsg(), 1..4)).prop_map(|(epoch, rec_seq, rec_len, msgs)| DIn::Hs { epoch, rec_seq, rec_len, msgs }),
        1 => (prop::sample::select(vec![0u8, 13, 15, 1, 2, 14]), seqsel(), prop_oneof![3 => 2u16..40, 1 => prop::sample::select(vec![100u16, 1000, 5400])]).prop_map(|(mt, base, count)| DIn::HsRun { mt, base, count }),
        3 => (
            prop_oneof![6 => 20u8..=24, 1 => 25u8..64],
            prop_oneof![5 => Just((254u8, 253u8)), 1 => Just((254u8, 255u8)), 1 => any::<(u8, u8)>()],
            prop_oneof![3 => Just(0u16), 3 => Just(1u16), 1 => edge_u16()],
            prop_oneof![3 => 0u64..8, 1 => Just(0xFFFF_FFFF_FFFFu64), 1 => Just(1u64 << 40)],
            prop_oneof![3 => small_bytes(40), 1 => Just(vec![1u8]), 1 => Just(vec![1u8, 0]), 1 => Just(vec![2u8, 40]), 1 => Just(vec![])],
            lensel(),
            prop::bool::weighted(0.2)
        )
            .prop_map(|(ct, ver, epoch, seq, body, rec_len, twice)| DIn::Rec { ct, ver, epoch, seq, body, rec_len, twice }),
        1 => (20u8..64, prop::collection::vec(any::<u8>(), 0..100)).prop_map(|(first, rest)| DIn::Random { first, rest }),
    ]
    .boxed()
}

fn is_hello34(m: &HsMsg) -> bool {
    if let Body::Hello(_) = &m.body {
        return body_bytes(&m.body, &[]).len() == 34;
    }
    false
}

pub fn strategy(known: Known) -> BoxedStrategy<DCase> {
    let state = prop_oneof![
        2 => Just(DState::Pre),
        2 => Just(DState::Mid1),
        2 => Just(DState::Mid2),
        1 => Just(DState::Mid3),
        3 => Just(DState::Established),
        1 => any::<bool>().prop_map(DState::Closing),
    ];
    // 4% of the cases are floods: 13..18 datagrams, each a full record of zero-length messages whose
    // message_seq continues the previous datagram (65 536 accepted messages need 13 datagrams)
    let flood = prop::option::weighted(0.04, (prop::sample::select(vec![0u8, 13, 15, 14, 1, 2, 16]), 13usize..19));
    (state, any::<bool>(), super::seq_of(din()), prop::bool::weighted(0.05), flood)
        .prop_map(move |(state, tc, mut inputs, calib, flood)| {
            if let Some((mt, n)) = flood {
                inputs = (0..n).map(|_| DIn::HsRun { mt, base: SeqSel::Chain, count: 5400 }).collect();
            }
            // the states that are specific to one role
            let target_client = match state {
                DState::Mid1 => false,
                DState::Mid2 => true,
                _ => tc,
            };
            if known.hello34 {
                // steer away from the known 34-byte Hello body so the search continues behind it
                let mut n = 0;
                for i in inputs.iter_mut() {
                    if let DIn::Hs { msgs, .. } = i {
                        for m in msgs.iter_mut() {
                            if is_hello34(m) {
                                if let Body::Hello(h) = &mut m.body {
                                    h.cut_field = None;
                                    h.cut = Some(35);
                                    n += 1;
                                }
                            }
                        }
                    }
                }
                if n > 0 {
                    STEERED.fetch_add(1, Ordering::Relaxed);
                }
            }
            if known.dtls_shd && !target_client {
                // steer away from the known ServerHelloDone answer of a server so the search continues
                let mut n = 0;
                for i in inputs.iter_mut() {
                    if let DIn::HsRun { mt, count, .. } = i {
                        if *mt == 14 && *count >= 50 {
                            *mt = 13;
                            n += 1;
                        }
                    }
                }
                if n > 0 {
                    STEERED_SHD.fetch_add(1, Ordering::Relaxed);
                }
            }
            DCase { state, target_client, inputs, calib }
        })
        .boxed()
}

// ---------------------------------------------------------------- byte builders

fn cut_to(mut v: Vec<u8>, cut: &Option<u16>) -> Vec<u8> {
    if let Some(c) = cut {
        v.truncate(*c as usize);
    }
    v
}

fn body_bytes(b: &Body, genuine_cert: &[u8]) -> Vec<u8> {
    match b {
        Body::Raw(v) => v.clone(),
        Body::Hello(h) => {
            let mut ends: Vec<usize> = Vec::new();
            let mut v = vec![254u8, 253];
            ends.push(v.len());
            v.extend_from_slice(&[0x5a; 32]);
            ends.push(v.len());
            v.push(h.sid_decl.unwrap_or(h.sid));
            ends.push(v.len());
            v.extend(std::iter::repeat_n(0x11u8, h.sid as usize));
            ends.push(v.len());
            if !h.server {
                v.push(h.cookie_decl.unwrap_or(h.cookie));
                ends.push(v.len());
                v.extend(std::iter::repeat_n(0x22u8, h.cookie as usize));
                ends.push(v.len());
                v.extend_from_slice(&h.suites_decl.unwrap_or(h.suites as u16 * 2).to_be_bytes());
                ends.push(v.len());
                for _ in 0..h.suites {
                    v.extend_from_slice(&[0xC0, 0x2B]);
                }
                ends.push(v.len());
                v.push(h.comp_decl.unwrap_or(h.comp));
                ends.push(v.len());
                v.extend(std::iter::repeat_n(0u8, h.comp as usize));
                ends.push(v.len());
            } else {
                v.extend_from_slice(&[0xC0, 0x2B]);
                ends.push(v.len());
                v.push(0);
                ends.push(v.len());
            }
            let mut e = Vec::new();
            for (t, l, d) in &h.exts {
                e.extend_from_slice(&t.to_be_bytes());
                e.extend_from_slice(&l.unwrap_or(d.len() as u16).to_be_bytes());
                e.extend_from_slice(d);
            }
            if !e.is_empty() || h.ext_decl.is_some() {
                v.extend_from_slice(&h.ext_decl.unwrap_or(e.len() as u16).to_be_bytes());
                ends.push(v.len());
                v.extend_from_slice(&e);
                ends.push(v.len());
            }
            if let Some((k, d)) = h.cut_field {
                let at = ends[k as usize % ends.len()] as i64 + d as i64;
                v.truncate(at.max(0) as usize);
                v
            } else {
                cut_to(v, &h.cut)
            }
        }
        Body::Hvr(decl, n, c) => {
            let mut v = vec![254u8, 255, decl.unwrap_or(*n)];
            v.extend(std::iter::repeat_n(0x33u8, *n as usize));
            cut_to(v, c)
        }
        Body::Cert(total, certs, c) => {
            let mut list = Vec::new();
            for (l, filler) in certs {
                let der: Vec<u8> = match filler {
                    None => genuine_cert.to_vec(),
                    Some(n) => vec![0x30; *n as usize],
                };
                list.extend_from_slice(&l.get(der.len()).to_be_bytes()[1..4]);
                list.extend_from_slice(&der);
            }
            let mut v = total.get(list.len()).to_be_bytes()[1..4].to_vec();
            v.extend_from_slice(&list);
            cut_to(v, c)
        }
        Body::Ske(ct, nc, kd, k, h, s, sd, sg, c) => {
            let mut v = vec![*ct];
            v.extend_from_slice(&nc.to_be_bytes());
            v.push(kd.unwrap_or(*k));
            if *k > 0 {
                v.push(4);
                v.extend(std::iter::repeat_n(0x44u8, *k as usize - 1));
            }
            v.push(*h);
            v.push(*s);
            v.extend_from_slice(&sd.unwrap_or(*sg as u16).to_be_bytes());
            v.extend(std::iter::repeat_n(0x30u8, *sg as usize));
            cut_to(v, c)
        }
        Body::Cke(decl, k) => {
            let mut v = vec![decl.unwrap_or(*k)];
            if *k > 0 {
                v.push(4);
                v.extend(std::iter::repeat_n(0x55u8, *k as usize - 1));
            }
            v
        }
    }
}

fn seq_of(s: &SeqSel, expected: u16) -> u16 {
    match s {
        SeqSel::Expected | SeqSel::Chain => expected,
        SeqSel::Plus(d) => (expected as i32 + *d as i32).clamp(0, 65535) as u16,
        SeqSel::Abs(v) => *v,
    }
}

fn u24(v: u32) -> [u8; 3] {
    let b = v.to_be_bytes();
    [b[1], b[2], b[3]]
}

fn hs_bytes(m: &HsMsg, expected: u16, genuine_cert: &[u8]) -> Vec<u8> {
    let body = body_bytes(&m.body, genuine_cert);
    let mut v = vec![m.mt];
    v.extend_from_slice(&u24(m.total.get(body.len())));
    v.extend_from_slice(&seq_of(&m.seq, expected).to_be_bytes());
    v.extend_from_slice(&u24(m.frag_off));
    v.extend_from_slice(&u24(m.frag_len.get(body.len())));
    v.extend_from_slice(&body);
    v
}

fn record(ct: u8, ver: (u8, u8), epoch: u16, seq: u64, body: &[u8], rec_len: &LenSel) -> Vec<u8> {
    let mut v = vec![ct, ver.0, ver.1];
    v.extend_from_slice(&epoch.to_be_bytes());
    v.extend_from_slice(&seq.to_be_bytes()[2..8]);
    v.extend_from_slice(&(rec_len.get(body.len()) as u16).to_be_bytes());
    v.extend_from_slice(body);
    v.truncate(65_507);
    v
}

fn input_bytes(i: &DIn, genuine: &[Bytes], expected: u16, cert: &[u8], calib: bool, chain: &mut u16) -> (Vec<u8>, &'static str) {
    let g = |idx: u16| -> Vec<u8> {
        if genuine.is_empty() {
            // no capture (cannot happen after a successful setup): an empty ClientHello-shaped record
            return record(22, (254, 253), 0, 0, &[1, 0, 0, 0, 0, 0, 0, 0, 0, 0, 0, 0], &LenSel::Actual);
        }
        genuine[pick(idx, genuine.len())].to_vec()
    };
    if calib {
        let idx = match i {
            DIn::Mutate { src, .. } | DIn::Replay { src } => *src,
            _ => 0,
        };
        return (g(idx), "genuine");
    }
    match i {
        DIn::Mutate { src, ops } => (apply_all(&g(*src), ops), "mutate"),
        DIn::Replay { src } => (g(*src), "replay"),
        DIn::Splice { a, b, cut_a, cut_b } => {
            let (x, y) = (g(*a), g(*b));
            let i = ((*cut_a as usize) * (x.len() + 1)) >> 16;
            let j = ((*cut_b as usize) * (y.len() + 1)) >> 16;
            let mut v = x[..i.min(x.len())].to_vec();
            v.extend_from_slice(&y[j.min(y.len())..]);
            (v, "splice")
        }
        DIn::Hs { epoch, rec_seq, rec_len, msgs } => {
            let mut body = Vec::new();
            let mut e = expected;
            for m in msgs {
                body.extend_from_slice(&hs_bytes(m, e, cert));
                e = e.wrapping_add(1);
            }
            (record(22, (254, 253), *epoch, *rec_seq as u64, &body, rec_len), "hs")
        }
        DIn::HsRun { mt, base, count } => {
            let mut body = Vec::new();
            let chained = matches!(base, SeqSel::Chain);
            let mut s = if chained { *chain } else { seq_of(base, expected) };
            for _ in 0..*count {
                body.push(*mt);
                body.extend_from_slice(&[0, 0, 0]);
                body.extend_from_slice(&s.to_be_bytes());
                body.extend_from_slice(&[0; 6]);
                s = s.wrapping_add(1);
            }
            if chained {
                *chain = s;
            }
            (record(22, (254, 253), 0, 9, &body, &LenSel::Actual), "hs-run")
        }
        DIn::Rec { ct, ver, epoch, seq, body, rec_len, twice } => {
            let mut v = record(*ct, *ver, *epoch, *seq, body, rec_len);
            if *twice {
                let again = v.clone();
                v.extend_from_slice(&again);
            }
            (v, "record")
        }
        DIn::Random { first, rest } => {
            let mut v = vec![*first];
            v.extend_from_slice(rest);
            (v, "random")
        }
    }
}

fn classifies(b: &[u8]) -> bool {
    wire::dtls_records(b).first().map(|r| (20..=24).contains(&r.content_type)).unwrap_or(false)
}

// ---------------------------------------------------------------- driver

async fn wait_until(limit: Duration, mut cond: impl FnMut() -> bool) -> bool {
    let deadline = tokio::time::Instant::now() + limit;
    loop {
        if cond() {
            return true;
        }
        if tokio::time::Instant::now() >= deadline {
            return false;
        }
        tokio::time::sleep(Duration::from_millis(2)).await;
    }
}

fn connected(s: &DtlsState) -> bool {
    matches!(s, DtlsState::Connected(..))
}

pub async fn drive(case: DCase, prog: Arc<Progress>) -> Out {
    let mut out = Out::new();
    prog.step("setup", 20_000);
    let mut spec = PairSpec::plain();
    spec.keep_trace = false;
    spec.dtls_timers = Some((Duration::from_millis(80), Duration::from_secs(8)));
    let cert_b_der = spec.cert_b.certificate.first().cloned().unwrap_or_default();
    let cert_a_der = spec.cert_a.certificate.first().cloned().unwrap_or_default();
    let mut pair = match Pair::build(spec).await {
        Ok(p) => p,
        Err(e) => {
            out.fail(Fail::new("harness-rig", format!("{e}")));
            return out;
        }
    };
    use DClass::*;
    let f2 = vec![HelloVerifyRequest, ServerHello, Certificate, ServerKeyExchange, ServerHelloDone, OtherHandshake];
    let f3 = vec![Certificate, ClientKeyExchange, ChangeCipherSpec, Finished, OtherHandshake];
    let (hold_a, hold_b): (Vec<DClass>, Vec<DClass>) = match case.state {
        DState::Pre => (vec![], vec![ClientHello]),
        DState::Mid1 => (f2.clone(), vec![]),
        DState::Mid2 => (vec![], f3.clone()),
        DState::Mid3 => (vec![ChangeCipherSpec, Finished], vec![]),
        _ => (vec![], vec![]),
    };
    let ga = gate(&pair.a.dtls, hold_a);
    let gb = gate(&pair.b.dtls, hold_b);
    pair.a.conn.set_dtls_receiver(ga.clone());
    pair.b.conn.set_dtls_receiver(gb.clone());
    let (side, tg, pg) = if case.target_client { (Side::A, ga.clone(), gb.clone()) } else { (Side::B, gb.clone(), ga.clone()) };
    out.label(format!("dtls:state={:?}", case.state).replace("(true)", ":target").replace("(false)", ":peer"));
    out.label(if case.target_client { "dtls:target=client" } else { "dtls:target=server" });

    // reach the state
    let reached = match case.state {
        DState::Pre | DState::Mid1 | DState::Mid2 | DState::Mid3 => {
            let g = if matches!(case.state, DState::Pre | DState::Mid2) { gb.clone() } else { ga.clone() };
            wait_until(Duration::from_secs(6), || g.held.load(Ordering::Relaxed) >= 1).await
        }
        _ => {
            let (sa, sb) = pair.wait_dtls(Duration::from_secs(6)).await;
            connected(&sa) && connected(&sb)
        }
    };
    if !reached {
        out.label("dtls:setup-not-reached");
        out.inconclusive = true;
        return out;
    }
    tokio::time::sleep(Duration::from_millis(5)).await;
    let mut app_t = pair.end_mut(side).app_rx.take().expect("app rx");
    let mut app_p = pair.end_mut(side.other()).app_rx.take().expect("app rx");
    if matches!(case.state, DState::Established | DState::Closing(_)) {
        // a little genuine application traffic so that application records are part of the capture
        for k in 0..3u8 {
            let _ = pair.a.dtls.send(Bytes::from(vec![k; 20 + k as usize])).await;
            let _ = pair.b.dtls.send(Bytes::from(vec![k; 30 + k as usize])).await;
        }
        settle(6).await;
        while app_t.try_recv().is_ok() {}
        while app_p.try_recv().is_ok() {}
    }
    if let DState::Closing(by_target) = case.state {
        if by_target { pair.end(side).dtls.close() } else { pair.end(side.other()).dtls.close() }
        let t = pair.end(side).dtls.clone();
        let _ = wait_until(Duration::from_secs(2), || !connected(&t.get_state())).await;
        settle(4).await;
    }
    // the genuine datagrams of this state: what the target was sent (held ones included) and what it sent
    ga.capture.store(false, Ordering::Relaxed);
    gb.capture.store(false, Ordering::Relaxed);
    let mut genuine: Vec<Bytes> = tg.log.lock().clone();
    genuine.extend(pg.log.lock().iter().cloned());
    out.label(format!("dtls:genuine={}", genuine.len().min(9)));
    let expected = tg.max_seq.lock().map(|m| m.wrapping_add(1)).unwrap_or(0);
    let cert = if case.target_client { &cert_b_der } else { &cert_a_der };
    let src = pair.end(side).proxy_addr;
    let target = pair.end(side).dtls.clone();

    let mut aw = AllocWatch::start("dtls");
    let mut chain = expected;
    let shd_to_server = !case.target_client && case.inputs.iter().any(|i| matches!(i, DIn::HsRun { mt: 14, count, .. } if *count >= 50));
    for (n, i) in case.inputs.iter().enumerate() {
        let (b, kind) = input_bytes(i, &genuine, expected, cert, case.calib, &mut chain);
        if b.is_empty() {
            out.label("dtls:empty-input");
            continue;
        }
        if classifies(&b) {
            out.nontrivial = true;
            out.label(format!("dtls:{kind}:classified"));
        } else {
            out.label(format!("dtls:{kind}:unparseable"));
        }
        let len = b.len();
        let bytes = Bytes::from(b);
        prog.step("inject", STEP_MS);
        aw.before();
        tg.injecting.store(true, Ordering::Relaxed);
        pair.inject(side, bytes.clone(), src).await;
        tg.injecting.store(false, Ordering::Relaxed);
        settle(3).await;
        if let Err(f) = aw.after(len, &|| format!("input {n} ({kind}, {len} bytes)")) {
            out.fail(f);
            return out;
        }
        if let Some(p) = super::my_panics().first() {
            out.fail(super::panic_fail("dtls", &format!("input {n} ({kind}) in state {:?}: {}", case.state, crate::engine::hex(&bytes[..len.min(120)])), p));
            return out;
        }
    }
    if case.calib {
        out.label("dtls:genuine-only");
    }
    tokio::time::sleep(Duration::from_millis(3)).await;
    if let Some(p) = super::my_panics().first() {
        out.fail(super::panic_fail("dtls", "the sequence settled", p));
        return out;
    }

    // ---- liveness
    prog.step("probe", STEP_MS + 1_500);
    let st = target.get_state();
    out.label(format!("dtls:after={}", state_name(&st)));
    if case.state == DState::Established && matches!(st, DtlsState::Failed | DtlsState::Closed) {
        // outside C07's statement (no crash / hang / bloat), recorded as an observation: none of the injected
        // datagrams was authenticated, yet the established session ended
        out.label("dtls:observation:established-session-ended-by-unauthenticated-datagrams");
    }
    match st {
        DtlsState::Connected(..) if connected(&pair.end(side.other()).dtls.get_state()) => {
            // application data both ways
            let ping = Bytes::from_static(b"c07-probe-to-target");
            let pong = Bytes::from_static(b"c07-probe-from-target");
            let _ = pair.end(side.other()).dtls.send(ping.clone()).await;
            let got = tokio::time::timeout(super::PROBE, async {
                while let Some(m) = app_t.recv().await {
                    if m == ping {
                        return true;
                    }
                }
                false
            })
            .await;
            if got != Ok(true) {
                out.fail(Fail::timing("dead:dtls:app-data-in", format!("target ({:?}, state {:?}) is Connected but genuine application data sent by its peer was not delivered within 2 s", side, case.state)));
                return out;
            }
            let _ = target.send(pong.clone()).await;
            let got = tokio::time::timeout(super::PROBE, async {
                while let Some(m) = app_p.recv().await {
                    if m == pong {
                        return true;
                    }
                }
                false
            })
            .await;
            if got != Ok(true) {
                out.fail(Fail::timing("dead:dtls:app-data-out", format!("target ({:?}, state {:?}) is Connected but its application data did not reach the peer within 2 s", side, case.state)));
                return out;
            }
            out.label("dtls:probe=app-data");
        }
        DtlsState::Connected(..) => {
            // the peer is still handshaking (Mid3 with the server as target): let it finish or fail
            ga.release();
            gb.release();
            let p = pair.end(side.other()).dtls.clone();
            let ok = wait_until(super::PROBE, || !matches!(p.get_state(), DtlsState::Handshaking | DtlsState::New)).await;
            if !ok && pg.seen.load(Ordering::Relaxed) == 0 {
                out.fail(Fail::timing("dead:dtls:silent", "Connected target sent nothing while its peer was still handshaking".to_string()));
                return out;
            }
            out.label("dtls:probe=peer-settled");
        }
        DtlsState::Handshaking | DtlsState::New => {
            // release the hold: the endpoint must either emit a datagram (retransmission / answer to the
            // peer's retransmission) or reach a terminal state
            let before = pg.seen.load(Ordering::Relaxed);
            ga.release();
            gb.release();
            let t = target.clone();
            let pg2 = pg.clone();
            let ok = wait_until(super::PROBE, || pg2.seen.load(Ordering::Relaxed) > before || !matches!(t.get_state(), DtlsState::Handshaking | DtlsState::New)).await;
            if !ok {
                out.fail(Fail::timing("dead:dtls:handshaking", format!("target ({:?}, state {:?}) still reports Handshaking but neither sent a datagram nor changed state within 2 s", side, case.state)));
                return out;
            }
            out.label("dtls:probe=handshake-activity");
        }
        DtlsState::Failed | DtlsState::Closed => {
            let r = tokio::time::timeout(super::PROBE, target.send(Bytes::from_static(b"x"))).await;
            match r {
                Ok(_) => out.label("dtls:probe=closed-send-returns"),
                Err(_) => {
                    out.fail(Fail::timing("hang:dtls:send-after-close", "send() on a closed transport did not return within 2 s".to_string()));
                    return out;
                }
            }
        }
    }
    settle(3).await;
    if let Some(p) = super::my_panics().first() {
        out.fail(super::panic_fail("dtls", "the liveness probe ran", p));
        return out;
    }
    aw.finish(&mut out);
    if shd_to_server {
        if let Err(f) = &mut out.res {
            if f.signature == "alloc-growth:dtls" {
                f.signature = SIG_SHD.to_string();
                f.msg = format!("{} [a server answers every ServerHelloDone it receives with a ClientKeyExchange datagram and appends both to its handshake transcript]", f.msg);
            }
        }
    }
    drop(pair);
    out
}
