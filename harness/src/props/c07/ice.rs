//! C07 layers `ice-udp`, `ice-tcp`, `ice-mux`: bytes sent over real sockets to a live `IceTransport`
//! (host UDP socket, passive ICE-TCP listener with RFC 4571 framing, shared single-port UDP mux).

use super::{AllocWatch, Mut, Out, Progress, STEP_MS, apply_all, edge_u16, mut_strategy, settle, small_bytes};
use crate::engine::Fail;
use crate::refimpl::stunwire;
use bytes::Bytes;
use proptest::prelude::*;
use rustrtc::transports::PacketReceiver;
use rustrtc::transports::ice::{IceCandidate, IceParameters, IceRole, IceTransportBuilder};
use rustrtc::{IceServer, IceTcpPolicy, RtcConfiguration, TransportMode};
use serde::{Deserialize, Serialize};
use std::net::SocketAddr;
use std::sync::Arc;
use std::sync::atomic::{AtomicU64, Ordering};
use std::time::Duration;
use tokio::io::{AsyncReadExt, AsyncWriteExt};
use tokio::net::{TcpStream, UdpSocket};

#[derive(Clone, Copy, Debug, PartialEq, Eq, Serialize, Deserialize)]
pub enum Kind {
    Udp,
    Tcp,
    Mux,
}

#[derive(Clone, Debug, Serialize, Deserialize)]
pub enum User {
    /// "<local ufrag>:peer"
    Proper,
    /// the local ufrag repeated / extended to this many bytes
    Giant(u16),
    Text(String),
    Raw(#[serde(with = "crate::engine::hexbytes")] Vec<u8>),
}

#[derive(Clone, Debug, Serialize, Deserialize)]
pub struct StunGen {
    pub mtype: u16,
    pub len_decl: Option<u16>,
    pub magic: bool,
    pub user: Option<User>,
    /// (type, declared length, value)
    pub attrs: Vec<(u16, Option<u16>, Vec<u8>)>,
    /// `count` copies of a small attribute
    pub many: Option<(u16, u16)>,
    pub integrity: bool,
    pub fingerprint: bool,
    pub cut: Option<u16>,
}

#[derive(Clone, Debug, Serialize, Deserialize)]
pub enum IIn {
    Stun(StunGen),
    /// a genuine message (binding request with credentials / response / indication), mutated
    Mutate { base: u8, ops: Vec<Mut> },
    Raw(#[serde(with = "crate::engine::hexbytes")] Vec<u8>),
}

#[derive(Clone, Debug, Serialize, Deserialize)]
pub struct Framed {
    pub input: IIn,
    /// ice-tcp: declared RFC 4571 frame length (None = actual), open a fresh connection first, split the write
    pub frame_decl: Option<u16>,
    pub new_conn: bool,
    pub split: Option<u16>,
    /// ice-udp / ice-mux: send from the second source socket
    pub alt_src: bool,
}

#[derive(Clone, Debug, Serialize, Deserialize)]
pub struct ICase {
    pub kind: Kind,
    pub controlling: bool,
    pub lite: bool,
    pub mode: u8,
    pub with_receiver: bool,
    /// start() with remote parameters and the harness socket as remote candidate before the sequence
    pub started: bool,
    /// ice-tcp: one shared listener (start == end) instead of a private one
    pub shared_listener: bool,
    pub urls: Vec<String>,
    pub inputs: Vec<Framed>,
    pub calib: bool,
}

const ATTRS: &[u16] = &[0x0001, 0x0006, 0x0008, 0x0009, 0x000A, 0x000C, 0x000D, 0x0012, 0x0013, 0x0014, 0x0015, 0x0016, 0x0019, 0x0020, 0x0024, 0x0025, 0x8022, 0x8028, 0x8029, 0x802A, 0xC057];

pub fn stun_gen() -> BoxedStrategy<StunGen> {
    (
        (prop_oneof![6 => prop::sample::select(vec![0x0001u16, 0x0101, 0x0111, 0x0011, 0x0003, 0x0103, 0x0113, 0x0004, 0x0104, 0x0008, 0x0108, 0x0009, 0x0109, 0x0016, 0x0017, 0x0118]), 1 => any::<u16>()], prop::option::weighted(0.25, edge_u16()), prop::bool::weighted(0.9)),
        prop::option::weighted(0.7, prop_oneof![5 => Just(User::Proper), 2 => prop::sample::select(vec![513u16, 600, 1400, 1480, 3000, 65000]).prop_map(User::Giant), 1 => "[ -~]{0,20}".prop_map(User::Text), 1 => small_bytes(12).prop_map(User::Raw)]),
        prop::collection::vec((prop_oneof![4 => prop::sample::select(ATTRS.to_vec()), 1 => any::<u16>()], prop::option::weighted(0.35, edge_u16()), prop_oneof![3 => small_bytes(24), 1 => Just(vec![0, 1, 0x21, 0x12, 0xA4, 0x42, 0, 0]), 1 => Just(vec![0, 2, 0, 0])]), 0..6),
        prop::option::weighted(0.12, (prop::sample::select(vec![0x0025u16, 0x0006, 0x0020, 0x8022, 0xFFFF]), prop::sample::select(vec![100u16, 360, 1000, 3000, 16000]))),
        (prop::bool::weighted(0.5), prop::bool::weighted(0.5)),
        prop::option::weighted(0.15, any::<u16>()),
    )
        .prop_map(|((mtype, len_decl, magic), user, attrs, many, (integrity, fingerprint), cut)| StunGen { mtype, len_decl, magic, user, attrs, many, integrity, fingerprint, cut })
        .boxed()
}

pub fn iin() -> BoxedStrategy<IIn> {
    prop_oneof![
        6 => stun_gen().prop_map(IIn::Stun),
        4 => (0u8..6, prop::collection::vec(mut_strategy(&[(0, 2), (2, 2), (4, 2), (20, 2), (22, 2), (24, 1), (25, 1)]), 1..4)).prop_map(|(base, ops)| IIn::Mutate { base, ops }),
        1 => prop::collection::vec(any::<u8>(), 0..3).prop_map(IIn::Raw),
        2 => (prop_oneof![2 => 0u8..4, 1 => 20u8..64, 1 => 128u8..192, 1 => any::<u8>()], prop::collection::vec(any::<u8>(), 0..120)).prop_map(|(f, mut r)| {
            r.insert(0, f);
            IIn::Raw(r)
        }),
    ]
    .boxed()
}

pub fn url() -> BoxedStrategy<String> {
    let scheme = prop::sample::select(vec!["stun", "turn", "stuns", "turns", "STUN", "http", "", "stun:stun"]);
    let host = prop::sample::select(vec!["127.0.0.1", "[::1]", "::1", "", "256.256.256.256", "1.2.3", "0", "[", "a b", "%", "127.0.0.1:1", "user@127.0.0.1"]);
    let port = prop::sample::select(vec!["", ":9", ":0", ":65535", ":65536", ":99999999999", ":-1", ":abc", ":"]);
    let query = prop::sample::select(vec!["", "?transport=udp", "?transport=tcp", "?transport=tls", "?transport=", "?transport", "?x=y&transport=TCP", "?"]);
    prop_oneof![5 => (scheme, host, port, query).prop_map(|(s, h, p, q)| format!("{s}:{h}{p}{q}")), 1 => "[ -~]{0,30}"].boxed()
}

pub fn strategy(kind: Kind) -> BoxedStrategy<ICase> {
    let framed = (iin(), prop::option::weighted(0.3, edge_u16()), prop::bool::weighted(0.25), prop::option::weighted(0.2, any::<u16>()), prop::bool::weighted(0.2))
        .prop_map(|(input, frame_decl, new_conn, split, alt_src)| Framed { input, frame_decl, new_conn, split, alt_src })
        .boxed();
    (
        (any::<bool>(), prop::bool::weighted(0.2), 0u8..3, any::<bool>(), any::<bool>(), any::<bool>()),
        prop::collection::vec(url(), 0..3),
        super::seq_of(framed),
        prop::bool::weighted(0.05),
    )
        .prop_map(move |((controlling, lite, mode, with_receiver, started, shared_listener), urls, inputs, calib)| ICase {
            kind,
            controlling,
            lite,
            mode,
            with_receiver,
            started,
            shared_listener,
            urls: if kind == Kind::Udp { urls } else { vec![] },
            inputs,
            calib,
        })
        .boxed()
}

// ---------------------------------------------------------------- STUN bytes

pub struct Cred {
    pub ufrag: String,
    pub pwd: String,
}

pub fn attr(v: &mut Vec<u8>, t: u16, decl: Option<u16>, val: &[u8]) {
    v.extend_from_slice(&t.to_be_bytes());
    v.extend_from_slice(&decl.unwrap_or(val.len() as u16).to_be_bytes());
    v.extend_from_slice(val);
    while v.len() % 4 != 0 {
        v.push(0);
    }
}

fn set_len(v: &mut [u8], n: usize) {
    v[2..4].copy_from_slice(&(n as u16).to_be_bytes());
}

pub fn finish(mut v: Vec<u8>, key: Option<&[u8]>, fingerprint: bool) -> Vec<u8> {
    if let Some(k) = key {
        let l = v.len() - 20 + 24;
        set_len(&mut v, l);
        let mac = stunwire::hmac_sha1(k, &v);
        attr(&mut v, 0x0008, None, &mac);
    }
    if fingerprint {
        let l = v.len() - 20 + 8;
        set_len(&mut v, l);
        let crc = stunwire::crc32(&v) ^ 0x5354_554E;
        attr(&mut v, 0x8028, None, &crc.to_be_bytes());
    }
    let l = v.len() - 20;
    set_len(&mut v, l);
    v
}

pub fn header(mtype: u16, txid: &[u8; 12], magic: bool) -> Vec<u8> {
    let mut v = mtype.to_be_bytes().to_vec();
    v.extend_from_slice(&[0, 0]);
    v.extend_from_slice(&if magic { stunwire::MAGIC } else { 0x1234_5678 }.to_be_bytes());
    v.extend_from_slice(txid);
    v
}

/// A genuine ICE binding request for the transport under test.
pub fn binding_request(c: &Cred, txid: &[u8; 12], use_candidate: bool) -> Vec<u8> {
    let mut v = header(0x0001, txid, true);
    attr(&mut v, 0x0006, None, format!("{}:peerufrag", c.ufrag).as_bytes());
    attr(&mut v, 0x0024, None, &0x6E00_1EFFu32.to_be_bytes());
    attr(&mut v, 0x802A, None, &0x0102_0304_0506_0708u64.to_be_bytes());
    if use_candidate {
        attr(&mut v, 0x0025, None, &[]);
    }
    finish(v, Some(c.pwd.as_bytes()), true)
}

fn template(i: u8, c: &Cred, n: usize) -> Vec<u8> {
    let mut tx = [0x70u8; 12];
    tx[11] = n as u8;
    match i % 6 {
        0 => binding_request(c, &tx, false),
        1 => binding_request(c, &tx, true),
        2 => {
            // success response with XOR-MAPPED-ADDRESS
            let mut v = header(0x0101, &tx, true);
            attr(&mut v, 0x0020, None, &stunwire::xor_addr_value(&"127.0.0.1:5000".parse().unwrap(), &tx));
            finish(v, Some(c.pwd.as_bytes()), true)
        }
        3 => {
            // error response 487 role conflict
            let mut v = header(0x0111, &tx, true);
            attr(&mut v, 0x0009, None, &[0, 0, 4, 87, b'r', b'c']);
            finish(v, Some(c.pwd.as_bytes()), true)
        }
        4 => {
            // binding indication (keepalive)
            finish(header(0x0011, &tx, true), None, true)
        }
        _ => {
            let mut v = header(0x0001, &tx, true);
            attr(&mut v, 0x0006, None, format!("{}:x", c.ufrag).as_bytes());
            attr(&mut v, 0x8029, None, &[9; 8]);
            attr(&mut v, 0x8022, None, b"c07 harness");
            attr(&mut v, 0x0020, None, &stunwire::xor_addr_value(&"[::1]:9".parse().unwrap(), &tx));
            finish(v, None, false)
        }
    }
}

pub fn stun_bytes(g: &StunGen, c: &Cred, n: usize) -> Vec<u8> {
    let mut tx = [0x51u8; 12];
    tx[11] = n as u8;
    let mut v = header(g.mtype, &tx, g.magic);
    if let Some(u) = &g.user {
        let val: Vec<u8> = match u {
            User::Proper => format!("{}:peer", c.ufrag).into_bytes(),
            User::Giant(k) => {
                let mut s = format!("{}:", c.ufrag).into_bytes();
                s.resize(*k as usize, b'u');
                s
            }
            User::Text(t) => t.clone().into_bytes(),
            User::Raw(r) => r.clone(),
        };
        attr(&mut v, 0x0006, None, &val);
    }
    for (t, d, val) in &g.attrs {
        attr(&mut v, *t, *d, val);
    }
    if let Some((t, count)) = g.many {
        for _ in 0..count {
            attr(&mut v, t, None, if t == 0x0025 { &[] } else { &[1, 2, 3, 4] });
            if v.len() > 65_000 {
                break;
            }
        }
    }
    let mut v = finish(v, if g.integrity { Some(c.pwd.as_bytes()) } else { None }, g.fingerprint);
    if let Some(d) = g.len_decl {
        v[2..4].copy_from_slice(&d.to_be_bytes());
    }
    if let Some(cut) = g.cut {
        let l = ((cut as usize) * v.len()) >> 16;
        v.truncate(l);
    }
    v.truncate(65_507);
    v
}

pub fn input_bytes(i: &IIn, c: &Cred, n: usize, calib: bool) -> (Vec<u8>, &'static str) {
    if calib {
        return (template(n as u8 % 2, c, n), "genuine");
    }
    match i {
        IIn::Stun(g) => (stun_bytes(g, c, n), "stun"),
        IIn::Mutate { base, ops } => (apply_all(&template(*base, c, n), ops), "mutate"),
        IIn::Raw(b) => (b.clone(), "raw"),
    }
}

/// own classifier: a consistent STUN header (first two bits 0, length + 20 == size, multiple of 4)
pub fn classifies(b: &[u8]) -> bool {
    b.len() >= 20 && b[0] < 2 && (u16::from_be_bytes([b[2], b[3]]) as usize + 20 == b.len())
}

struct Sink(AtomicU64);
#[async_trait::async_trait]
impl PacketReceiver for Sink {
    async fn receive(&self, _packet: Bytes, _addr: SocketAddr, _buf: &mut Vec<u8>) {
        self.0.fetch_add(1, Ordering::Relaxed);
    }
}

async fn free_port(tcp: bool) -> u16 {
    if tcp {
        let l = tokio::net::TcpListener::bind("127.0.0.1:0").await.expect("bind");
        l.local_addr().unwrap().port()
    } else {
        let s = UdpSocket::bind("127.0.0.1:0").await.expect("bind");
        s.local_addr().unwrap().port()
    }
}

/// Send a genuine binding request over UDP and wait for its success response.
async fn udp_probe(sock: &UdpSocket, dst: SocketAddr, c: &Cred, tag: u8) -> bool {
    let tx = [0xA0, tag, 3, 4, 5, 6, 7, 8, 9, 10, 11, 12];
    let req = binding_request(c, &tx, false);
    let deadline = tokio::time::Instant::now() + super::PROBE;
    let mut buf = vec![0u8; 2048];
    let mut next_send = tokio::time::Instant::now();
    loop {
        let now = tokio::time::Instant::now();
        if now >= deadline {
            return false;
        }
        if now >= next_send {
            let _ = sock.send_to(&req, dst).await;
            next_send = now + Duration::from_millis(400);
        }
        let wait = next_send.min(deadline) - now;
        if let Ok(Ok((n, _))) = tokio::time::timeout(wait, sock.recv_from(&mut buf)).await {
            if n >= 20 && buf[0] == 0x01 && buf[1] == 0x01 && buf[8..20] == tx {
                return true;
            }
        }
    }
}

async fn tcp_probe(dst: SocketAddr, c: &Cred, tag: u8) -> Result<(), String> {
    let tx = [0xB0, tag, 3, 4, 5, 6, 7, 8, 9, 10, 11, 12];
    let req = binding_request(c, &tx, false);
    let fut = async {
        let mut s = TcpStream::connect(dst).await.map_err(|e| format!("connect: {e}"))?;
        let _ = s.set_nodelay(true);
        let mut f = (req.len() as u16).to_be_bytes().to_vec();
        f.extend_from_slice(&req);
        s.write_all(&f).await.map_err(|e| format!("write: {e}"))?;
        loop {
            let mut l = [0u8; 2];
            s.read_exact(&mut l).await.map_err(|e| format!("read length: {e}"))?;
            let n = u16::from_be_bytes(l) as usize;
            let mut b = vec![0u8; n];
            s.read_exact(&mut b).await.map_err(|e| format!("read body: {e}"))?;
            if n >= 20 && b[0] == 0x01 && b[1] == 0x01 && b[8..20] == tx {
                return Ok(());
            }
        }
    };
    match tokio::time::timeout(super::PROBE, fut).await {
        Ok(r) => r,
        Err(_) => Err("no framed binding success response within 2 s".into()),
    }
}

pub async fn drive(case: ICase, prog: Arc<Progress>) -> Out {
    let layer: &'static str = match case.kind {
        Kind::Udp => "ice-udp",
        Kind::Tcp => "ice-tcp",
        Kind::Mux => "ice-mux",
    };
    let mut out = Out::new();
    prog.step("setup", 25_000);
    let mut config = RtcConfiguration::default();
    config.bind_ip = Some("127.0.0.1".into());
    config.disable_ipv6 = true;
    config.enable_upnp = false;
    config.enable_ice_lite = case.lite;
    config.stun_timeout = Duration::from_millis(200);
    config.transport_mode = match case.mode {
        0 => TransportMode::WebRtc,
        1 => TransportMode::Srtp,
        _ => TransportMode::Rtp,
    };
    if !case.urls.is_empty() {
        config.ice_servers = vec![IceServer::new(case.urls.clone()).with_credential("u", "p")];
        out.label(format!("{layer}:ice-urls"));
    }
    match case.kind {
        Kind::Udp => {}
        Kind::Tcp => {
            config.ice_tcp_policy = if case.controlling { IceTcpPolicy::Enabled } else { IceTcpPolicy::PassiveOnly };
            let p = free_port(true).await;
            config.tcp_port_range_start = Some(p);
            config.tcp_port_range_end = Some(if case.shared_listener { p } else { p.saturating_add(8) });
            out.label(if case.shared_listener { "ice-tcp:shared-listener" } else { "ice-tcp:own-listener" });
        }
        Kind::Mux => {
            config.ice_udp_mux = true;
            config.ice_udp_mux_port = Some(free_port(false).await);
        }
    }
    let role = if case.controlling { IceRole::Controlling } else { IceRole::Controlled };
    let (transport, runner) = IceTransportBuilder::new(config).role(role).build();
    let runner_task = tokio::spawn(runner);
    let _ = transport.start_gathering();
    let mut gs = transport.subscribe_gathering_state();
    let _ = tokio::time::timeout(Duration::from_secs(8), async {
        loop {
            if *gs.borrow_and_update() == rustrtc::transports::ice::IceGathererState::Complete {
                break;
            }
            if gs.changed().await.is_err() {
                break;
            }
        }
    })
    .await;
    let want_tcp = case.kind == Kind::Tcp;
    let cand = transport.local_candidates().into_iter().find(|c| (c.transport == "tcp") == want_tcp && c.address.ip().is_loopback() && c.address.port() != 9);
    let Some(cand) = cand else {
        out.label(format!("{layer}:setup-no-candidate"));
        out.inconclusive = true;
        return out;
    };
    let dst = cand.address;
    let lp = transport.local_parameters();
    let cred = Cred { ufrag: lp.username_fragment.clone(), pwd: lp.password.clone() };
    let sink = Arc::new(Sink(AtomicU64::new(0)));
    if case.with_receiver {
        transport.set_data_receiver(sink.clone()).await;
        out.label(format!("{layer}:data-receiver"));
    }
    let sock = UdpSocket::bind("127.0.0.1:0").await.expect("bind");
    let sock2 = UdpSocket::bind("127.0.0.1:0").await.expect("bind");
    if case.started {
        transport.add_remote_candidate(IceCandidate::host(sock.local_addr().unwrap(), 1));
        let _ = transport.start(IceParameters::new("peerufrag", "peerpassword0123456789ab"));
        out.label(format!("{layer}:started"));
        tokio::time::sleep(Duration::from_millis(5)).await;
    }
    // sanity: the endpoint answers before the sequence (otherwise the liveness probe proves nothing)
    let alive_before = match case.kind {
        Kind::Tcp => tcp_probe(dst, &cred, 0).await.is_ok(),
        _ => udp_probe(&sock, dst, &cred, 0).await,
    };
    if !alive_before {
        out.label(format!("{layer}:setup-not-answering"));
        out.inconclusive = true;
        return out;
    }

    let mut conn: Option<TcpStream> = None;
    let mut conns: Vec<TcpStream> = Vec::new();
    let mut aw = AllocWatch::start(layer);
    for (n, f) in case.inputs.iter().enumerate() {
        let (b, kind) = input_bytes(&f.input, &cred, n, case.calib);
        if classifies(&b) {
            out.nontrivial = true;
            out.label(format!("{layer}:{kind}:stun-header-ok"));
        } else {
            out.label(format!("{layer}:{kind}:not-stun"));
        }
        prog.step("send", STEP_MS + 1_000);
        aw.before();
        match case.kind {
            Kind::Tcp => {
                if f.new_conn && !case.calib {
                    if let Some(c) = conn.take() {
                        if conns.len() < 6 { conns.push(c) }
                    }
                }
                if conn.is_none() {
                    if let Ok(Ok(s)) = tokio::time::timeout(Duration::from_secs(1), TcpStream::connect(dst)).await {
                        let _ = s.set_nodelay(true);
                        conn = Some(s);
                        out.label("ice-tcp:connect");
                    }
                }
                if let Some(s) = conn.as_mut() {
                    let decl = if case.calib { None } else { f.frame_decl };
                    let mut fr = decl.unwrap_or(b.len() as u16).to_be_bytes().to_vec();
                    fr.extend_from_slice(&b);
                    if decl.is_some() {
                        out.label("ice-tcp:hostile-frame-length");
                    }
                    let cutp = f.split.map(|c| ((c as usize) * fr.len()) >> 16).unwrap_or(fr.len());
                    let r1 = tokio::time::timeout(Duration::from_millis(500), s.write_all(&fr[..cutp])).await;
                    if cutp < fr.len() {
                        settle(2).await;
                        let _ = tokio::time::timeout(Duration::from_millis(500), s.write_all(&fr[cutp..])).await;
                    }
                    if !matches!(r1, Ok(Ok(()))) {
                        conn = None;
                    }
                }
            }
            _ => {
                let s = if f.alt_src { &sock2 } else { &sock };
                let _ = s.send_to(&b, dst).await;
            }
        }
        tokio::time::sleep(Duration::from_millis(1)).await;
        settle(3).await;
        if let Err(fl) = aw.after(b.len(), &|| format!("input {n} ({kind}, {} bytes)", b.len())) {
            out.fail(fl);
            return out;
        }
        if let Some(p) = super::my_panics().first() {
            out.fail(super::panic_fail(layer, &format!("input {n} ({kind}): {}", crate::engine::hex(&b[..b.len().min(120)])), p));
            return out;
        }
        // drain whatever the transport answered
        let mut tmp = [0u8; 2048];
        while sock.try_recv_from(&mut tmp).is_ok() {}
        while sock2.try_recv_from(&mut tmp).is_ok() {}
    }
    if case.calib {
        out.label(format!("{layer}:genuine-only"));
    }
    // ---- liveness: a genuine STUN check is answered
    prog.step("probe", STEP_MS + 2_000);
    let alive = match case.kind {
        Kind::Tcp => tcp_probe(dst, &cred, 1).await,
        _ => {
            if udp_probe(&sock, dst, &cred, 1).await { Ok(()) } else { Err("no binding success response within 2 s (request re-sent every 400 ms)".into()) }
        }
    };
    let _ = transport.state();
    let _ = transport.gather_state();
    if let Some(p) = super::my_panics().first() {
        out.fail(super::panic_fail(layer, "the liveness probe ran", p));
        return out;
    }
    if let Err(e) = alive {
        out.fail(Fail::timing(format!("dead:{layer}"), format!("[{layer}] genuine STUN binding request to {dst} not answered after the sequence: {e} (runner finished: {})", runner_task.is_finished())));
        return out;
    }
    out.label(format!("{layer}:probe=stun-answered"));
    // connections are a resource of the remote party: release them before measuring growth
    drop(conn);
    drop(conns);
    tokio::time::sleep(Duration::from_millis(10)).await;
    settle(4).await;
    aw.finish(&mut out);
    transport.stop();
    settle(2).await;
    runner_task.abort();
    out
}
