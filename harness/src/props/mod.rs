use crate::engine::Ctx;

pub mod c01;
pub mod c02;
pub mod c02_inject;
pub mod c02_takeover;
pub mod c03;
pub mod c04;
pub mod c05;
pub mod c06;
pub mod c07;
pub mod c08;
pub mod c08_offer;
pub mod c09;
pub mod c10;
pub mod c11;
pub mod c11_interop;
pub mod c12;
pub mod c12_pc;
pub mod c13;
pub mod c14;
pub mod c14_pc;
pub mod c15;
pub mod c15_rtcp;
pub mod c16;
pub mod c17;
pub mod c18;
pub mod c19;
pub mod c20;
pub mod sctp_common;

pub const TABLE: &[(&str, fn(&mut Ctx))] = &[
    ("C01", c01::run),
    ("C02", c02::run),
    ("C03", c03::run),
    ("C04", c04::run),
    ("C05", c05::run),
    ("C06", c06::run),
    ("C07", c07::run),
    ("C08", c08::run),
    ("C09", c09::run),
    ("C10", c10::run),
    ("C11", c11::run),
    ("C12", c12::run),
    ("C13", c13::run),
    ("C14", c14::run),
    ("C15", c15::run),
    ("C16", c16::run),
    ("C17", c17::run),
    ("C18", c18::run),
    ("C19", c19::run),
    ("C20", c20::run),
];
