use crate::engine::Ctx;

pub mod c18;

pub const TABLE: &[(&str, fn(&mut Ctx))] = &[("C18", c18::run)];
