//! C07 (live-endpoint half): no bytes from the network or the signaling peer can crash, hang or
//! bloat the stack.
//!
//! Generated SEQUENCES of 1..40 inputs are fed to real endpoints in each reachable state; after
//! every sequence the oracle demands
//!   * no panic in any task of the case (process-wide hook, attributed per case thread),
//!   * every step returned within its time bound (watchdog on the case thread -> `hang:<layer>:<entry>`),
//!   * the endpoint is still LIVE: a genuine probe is answered within 2 s,
//!   * bounded allocation (thread-local counting allocator, see `alloc.rs`).
//!
//! Every case runs on its own OS thread with its own current-thread tokio runtime: the stack's
//! tasks of one case all live on that thread, so panics and allocations are attributed to the
//! case that caused them although 16 cases run concurrently.
//!
//! Layers (one sub-check each): `dtls`, `sctp`, `rtp`, `ice-udp`, `ice-tcp`, `ice-mux`,
//! `turn`, `sdp`, `udptl`, plus `decoder-smoke` (cheap proptest smoke of the pure decoders; the
//! real decoder fuzzing is the cargo-fuzz half of C07).

pub mod alloc;
mod dtls;
mod ice;
mod rtp;
mod sctp;
mod sdp;
mod smoke;
mod turn;
mod udptl;

use crate::engine::{AsyncCheck, CaseRec, Check, Ctx, Fail};
use parking_lot::Mutex;
use proptest::prelude::*;
use serde::{Deserialize, Serialize};
use std::collections::BTreeMap;
use std::future::Future;
use std::sync::Arc;
use std::sync::atomic::{AtomicU64, Ordering};
use std::thread::ThreadId;
use std::time::{Duration, Instant};

// ---------------------------------------------------------------- bounds (stated in ctx.assumptions)

/// per-input time bound of the statement ("terminates promptly"): 2 s
pub const STEP_MS: u64 = 2_000;
/// a genuine probe must be answered within 2 s
pub const PROBE: Duration = Duration::from_millis(2_000);
/// peak live bytes while one input is processed: <= PEAK_BASE + PEAK_PER_BYTE x input length
pub const PEAK_BASE: isize = 1 << 20;
pub const PEAK_PER_BYTE: isize = 64;
/// live-byte growth over a whole sequence: <= GROWTH_BASE + GROWTH_PER_INPUT x inputs + GROWTH_PER_BYTE x input bytes
pub const GROWTH_BASE: isize = 96 * 1024;
pub const GROWTH_PER_INPUT: isize = 8 * 1024;
pub const GROWTH_PER_BYTE: isize = 4;

// ---------------------------------------------------------------- per-thread panic attribution

static PANICS: Mutex<Vec<(ThreadId, String, String)>> = Mutex::new(Vec::new());

/// First frame of the stack under test in a captured backtrace: (function, file:line if known).
fn first_rustrtc_frame(bt: &str) -> Option<(String, Option<String>)> {
    let lines: Vec<&str> = bt.lines().collect();
    for (i, l) in lines.iter().enumerate() {
        let t = l.trim_start();
        let Some((num, rest)) = t.split_once(": ") else { continue };
        if !num.chars().all(|c| c.is_ascii_digit()) {
            continue;
        }
        if rest.starts_with("rustrtc::") || rest.starts_with("<rustrtc::") {
            let at = lines.get(i + 1).map(|n| n.trim_start()).filter(|n| n.starts_with("at ")).map(|n| {
                let p = n.trim_start_matches("at ");
                // path:line:col -> src-relative path:line
                let mut it = p.rsplitn(3, ':');
                let _col = it.next();
                let line = it.next().unwrap_or("?");
                let file = it.next().unwrap_or(p);
                let file = file.rsplit_once("/src/").map(|(_, b)| b).unwrap_or(file);
                format!("{file}:{line}")
            });
            let mut f = rest.to_string();
            // drop the hash suffix ::h0123456789abcdef
            if let Some(k) = f.rfind("::h") {
                if f.len() - k == 19 {
                    f.truncate(k);
                }
            }
            return Some((f, at));
        }
    }
    None
}

/// Installed on top of the engine's hook. Panics on C07 case threads (named `c07-*`) are recorded
/// here with the thread id and are NOT passed on: the case driver attributes them itself. A panic
/// raised inside a dependency (e.g. `bytes` over-read at lib.rs:207) is keyed by the first frame of
/// rustrtc on the stack, so different over-reads keep different signatures.
fn install_thread_panic_log() {
    static ONCE: std::sync::Once = std::sync::Once::new();
    ONCE.call_once(|| {
        let prev = std::panic::take_hook();
        std::panic::set_hook(Box::new(move |info| {
            let cur = std::thread::current();
            let mine = cur.name().map(|n| n.starts_with("c07-")).unwrap_or(false);
            if !mine {
                prev(info);
                return;
            }
            let (raw_file, line) = info.location().map(|l| (l.file().to_string(), l.line())).unwrap_or(("?".into(), 0));
            let in_stack = !raw_file.contains("/.cargo/") && !raw_file.contains("/rustc/") && !raw_file.contains("/library/");
            let file = raw_file.rsplit_once("/src/").map(|(_, b)| b.to_string()).unwrap_or(raw_file.clone());
            let mut loc = format!("{file}:{line}");
            if !in_stack {
                // crate name without its version: bytes-1.12.1 -> bytes
                let krate = raw_file.split("/registry/src/").nth(1).and_then(|r| r.split('/').nth(1)).unwrap_or("dep");
                let krate = krate.rsplit_once('-').filter(|(_, v)| v.chars().next().is_some_and(|c| c.is_ascii_digit())).map(|(n, _)| n).unwrap_or(krate).to_string();
                let bt = std::backtrace::Backtrace::force_capture().to_string();
                loc = match first_rustrtc_frame(&bt) {
                    Some((_f, Some(at))) => format!("{at}[{krate}]"),
                    Some((f, None)) => format!("{f}[{krate}]"),
                    None => format!("{krate}:{file}:{line}"),
                };
            }
            let msg = if let Some(s) = info.payload().downcast_ref::<&str>() {
                s.to_string()
            } else if let Some(s) = info.payload().downcast_ref::<String>() {
                s.clone()
            } else {
                "non-string panic".into()
            };
            if std::env::var("VERIF_VERBOSE").is_ok() {
                eprintln!("[c07 panic] {loc}: {msg}");
            }
            PANICS.lock().push((cur.id(), loc, msg));
        }));
    });
}

/// Panics recorded on the calling thread so far.
pub fn my_panics() -> Vec<(String, String)> {
    let me = std::thread::current().id();
    PANICS.lock().iter().filter(|p| p.0 == me).map(|p| (p.1.clone(), p.2.clone())).collect()
}

fn panics_of(t: ThreadId) -> Vec<(String, String)> {
    PANICS.lock().iter().filter(|p| p.0 == t).map(|p| (p.1.clone(), p.2.clone())).collect()
}

pub fn panic_fail(layer: &str, at: &str, p: &(String, String)) -> Fail {
    Fail::new(format!("panic@{}", p.0), format!("[{layer}] panic in a task of the case at {} while {}: {}", p.0, at, p.1))
}

// ---------------------------------------------------------------- progress / watchdog

pub struct Progress {
    t0: Instant,
    beat_ms: AtomicU64,
    budget_ms: AtomicU64,
    entry: Mutex<String>,
}

impl Progress {
    fn new() -> Self {
        Self { t0: Instant::now(), beat_ms: AtomicU64::new(0), budget_ms: AtomicU64::new(30_000), entry: Mutex::new("start".into()) }
    }
    /// Announce the next step; the watchdog reports `hang:<layer>:<entry>` when the step takes longer
    /// than `budget_ms` of wall time.
    pub fn step(&self, entry: &str, budget_ms: u64) {
        {
            let mut e = self.entry.lock();
            if *e != entry {
                e.clear();
                e.push_str(entry);
            }
        }
        self.budget_ms.store(budget_ms, Ordering::SeqCst);
        self.beat_ms.store(self.t0.elapsed().as_millis() as u64, Ordering::SeqCst);
    }
    fn overdue(&self) -> Option<(String, u64)> {
        let now = self.t0.elapsed().as_millis() as u64;
        let beat = self.beat_ms.load(Ordering::SeqCst);
        let budget = self.budget_ms.load(Ordering::SeqCst);
        if now.saturating_sub(beat) > budget { Some((self.entry.lock().clone(), now - beat)) } else { None }
    }
}

/// What a case driver hands back.
pub struct Out {
    pub labels: Vec<String>,
    pub nontrivial: bool,
    pub inconclusive: bool,
    pub res: Check,
    /// (max per-input peak, sequence growth, inputs, input bytes) for the evidence
    pub alloc: Option<(isize, isize, usize, usize)>,
}

impl Out {
    pub fn new() -> Self {
        Self { labels: Vec::new(), nontrivial: false, inconclusive: false, res: Ok(()), alloc: None }
    }
    pub fn label(&mut self, s: impl Into<String>) {
        self.labels.push(s.into());
    }
    pub fn fail(&mut self, f: Fail) {
        if self.res.is_ok() {
            self.res = Err(f);
        }
    }
}

#[derive(Default)]
pub struct LayerStats {
    pub cases: u64,
    pub max_peak: isize,
    pub max_growth: isize,
    pub max_peak_genuine: isize,
    pub max_growth_genuine: isize,
}

pub static STATS: Mutex<BTreeMap<&'static str, LayerStats>> = Mutex::new(BTreeMap::new());

/// Run `f` on a fresh OS thread with its own current-thread runtime; watch it from the calling task.
pub async fn isolate<F, Fut>(layer: &'static str, f: F) -> (CaseRec, Check)
where
    F: FnOnce(Arc<Progress>) -> Fut + Send + 'static,
    Fut: Future<Output = Out> + 'static,
{
    let prog = Arc::new(Progress::new());
    let (tx, mut rx) = tokio::sync::oneshot::channel::<(Option<Out>, ThreadId)>();
    let p2 = prog.clone();
    let spawned = std::thread::Builder::new().name(format!("c07-{layer}")).stack_size(8 << 20).spawn(move || {
        let tid = std::thread::current().id();
        let r = std::panic::catch_unwind(std::panic::AssertUnwindSafe(|| {
            let rt = tokio::runtime::Builder::new_current_thread().enable_all().build().expect("runtime");
            let local = tokio::task::LocalSet::new();
            let out = rt.block_on(local.run_until(f(p2)));
            drop(local);
            rt.shutdown_timeout(Duration::from_millis(10));
            out
        }));
        let _ = tx.send((r.ok(), tid));
    });
    let rec = CaseRec::default();
    if let Err(e) = spawned {
        return (rec, Err(Fail::new("harness-thread-spawn", format!("{e}"))));
    }
    let mut tick = tokio::time::interval(Duration::from_millis(50));
    tick.set_missed_tick_behavior(tokio::time::MissedTickBehavior::Delay);
    loop {
        tokio::select! {
            r = &mut rx => {
                return match r {
                    Ok((Some(out), tid)) => {
                        for l in &out.labels { rec.label(l.clone()); }
                        rec.set_nontrivial(out.nontrivial);
                        if out.inconclusive { rec.inconclusive_timing(); }
                        if let Some((pk, gr, _n, _b)) = out.alloc {
                            let genuine = out.labels.iter().any(|l| l.ends_with(":genuine-only"));
                            let mut st = STATS.lock();
                            let s = st.entry(layer).or_default();
                            s.cases += 1;
                            if genuine {
                                s.max_peak_genuine = s.max_peak_genuine.max(pk);
                                s.max_growth_genuine = s.max_growth_genuine.max(gr);
                            } else {
                                s.max_peak = s.max_peak.max(pk);
                                s.max_growth = s.max_growth.max(gr);
                            }
                        }
                        let mut res = out.res;
                        // a panic on the case thread that the driver did not notice itself
                        if res.is_ok() {
                            if let Some(p) = panics_of(tid).first() {
                                res = Err(panic_fail(layer, "the sequence ran", p));
                            }
                        }
                        (rec, res)
                    }
                    Ok((None, tid)) => {
                        let entry = prog.entry.lock().clone();
                        let p = panics_of(tid).into_iter().next_back().unwrap_or(("?".into(), "panic".into()));
                        (rec, Err(panic_fail(layer, &entry, &p)))
                    }
                    Err(_) => (rec, Err(Fail::new("harness-case-thread-lost", format!("[{layer}] case thread ended without a result")))),
                };
            }
            _ = tick.tick() => {
                if let Some((entry, ms)) = prog.overdue() {
                    // the case thread is leaked on purpose: it is stuck inside the stack under test
                    return (rec, Err(Fail::timing(format!("hang:{layer}:{entry}"), format!("[{layer}] step '{entry}' did not return within its bound ({ms} ms elapsed)"))));
                }
            }
        }
    }
}

/// Let every other ready task of this (current-thread) runtime run.
pub async fn settle(rounds: usize) {
    for _ in 0..rounds {
        tokio::task::yield_now().await;
    }
}

// ---------------------------------------------------------------- allocation accounting for one sequence

pub struct AllocWatch {
    layer: &'static str,
    on: bool,
    live0: isize,
    step_l0: isize,
    pub inputs: usize,
    pub bytes: usize,
    pub max_peak: isize,
    /// longest input so far: work started by an earlier input may still run while a later one is processed
    max_len: usize,
}

impl AllocWatch {
    pub fn start(layer: &'static str) -> Self {
        Self { layer, on: alloc::installed(), live0: alloc::live(), step_l0: 0, inputs: 0, bytes: 0, max_peak: 0, max_len: 0 }
    }
    pub fn before(&mut self) {
        alloc::reset_peak();
        self.step_l0 = alloc::live();
    }
    pub fn after(&mut self, input_len: usize, what: &dyn Fn() -> String) -> Check {
        self.inputs += 1;
        self.bytes += input_len;
        // a panic is reported by the caller; symbolising its backtrace allocates tens of MiB in the hook
        if !self.on || !my_panics().is_empty() {
            return Ok(());
        }
        let pk = alloc::peak() - self.step_l0;
        if std::env::var("C07_ALLOC_TRACE").is_ok() {
            eprintln!("[alloc] {} input {} ({} bytes): peak +{} live {:+}: {}", self.layer, self.inputs - 1, input_len, pk, alloc::live() - self.step_l0, what().chars().take(160).collect::<String>());
        }
        self.max_peak = self.max_peak.max(pk);
        self.max_len = self.max_len.max(input_len);
        let bound = PEAK_BASE + PEAK_PER_BYTE * self.max_len as isize;
        if pk > bound {
            return Err(Fail::new(
                format!("alloc-peak:{}", self.layer),
                format!("[{}] peak live bytes while processing one input of {} bytes rose by {} (> {} = 1 MiB + 64 x longest input so far, {} bytes): {}", self.layer, input_len, pk, bound, self.max_len, what()),
            ));
        }
        Ok(())
    }
    pub fn finish(&self, out: &mut Out) {
        if !self.on || !my_panics().is_empty() {
            return;
        }
        let growth = alloc::live() - self.live0;
        out.alloc = Some((self.max_peak, growth, self.inputs, self.bytes));
        // a PeerConnection keeps a parsed copy of every description it accepted (pending + current, a few
        // heap objects per SDP line) and builds transceivers / transports on demand: wider constants
        let (base, per_input, per_byte) = if self.layer == "sdp" { (1 << 20, 32 * 1024, 32) } else { (GROWTH_BASE, GROWTH_PER_INPUT, GROWTH_PER_BYTE) };
        let bound = base + per_input * self.inputs as isize + per_byte * self.bytes as isize;
        if growth > bound {
            out.fail(Fail::new(
                format!("alloc-growth:{}", self.layer),
                format!("[{}] live bytes grew by {} over a sequence of {} inputs / {} bytes (> {})", self.layer, growth, self.inputs, self.bytes, bound),
            ));
        }
    }
}

// ---------------------------------------------------------------- byte-level mutation operators

#[derive(Clone, Debug, Serialize, Deserialize)]
pub enum Mut {
    Flip { pos: u16, bit: u8 },
    Trunc { pos: u16 },
    Set { pos: u16, val: u8 },
    /// big-endian u16 at a relative position
    SetU16 { pos: u16, val: u16 },
    /// absolute offsets: length-field edits
    AbsU8 { off: u16, val: u8 },
    AbsU16 { off: u16, val: u16 },
    AbsU24 { off: u16, val: u32 },
    /// swap two `len`-byte fields
    Swap { a: u16, b: u16, len: u8 },
    Insert { pos: u16, #[serde(with = "crate::engine::hexbytes")] bytes: Vec<u8> },
    Append { #[serde(with = "crate::engine::hexbytes")] bytes: Vec<u8> },
    Repeat { pos: u16, len: u8, times: u8 },
}

impl Mut {
    pub fn apply(&self, v: &mut Vec<u8>) {
        let n = v.len();
        let at = |pos: u16| if n == 0 { 0 } else { ((pos as usize) * n) >> 16 };
        match self {
            Mut::Flip { pos, bit } => {
                if n > 0 {
                    let i = at(*pos);
                    v[i] ^= 1 << (bit & 7);
                }
            }
            Mut::Trunc { pos } => {
                let i = at(*pos);
                v.truncate(i);
            }
            Mut::Set { pos, val } => {
                if n > 0 {
                    let i = at(*pos);
                    v[i] = *val;
                }
            }
            Mut::SetU16 { pos, val } => {
                if n >= 2 {
                    let i = at(*pos).min(n - 2);
                    v[i..i + 2].copy_from_slice(&val.to_be_bytes());
                }
            }
            Mut::AbsU8 { off, val } => {
                if (*off as usize) < n {
                    v[*off as usize] = *val;
                }
            }
            Mut::AbsU16 { off, val } => {
                let o = *off as usize;
                if o + 2 <= n {
                    v[o..o + 2].copy_from_slice(&val.to_be_bytes());
                }
            }
            Mut::AbsU24 { off, val } => {
                let o = *off as usize;
                if o + 3 <= n {
                    v[o..o + 3].copy_from_slice(&val.to_be_bytes()[1..4]);
                }
            }
            Mut::Swap { a, b, len } => {
                let l = (*len as usize).max(1);
                if n >= 2 * l {
                    let i = at(*a).min(n - l);
                    let j = at(*b).min(n - l);
                    for k in 0..l {
                        v.swap(i + k, j + k);
                    }
                }
            }
            Mut::Insert { pos, bytes } => {
                let i = at(*pos).min(n);
                let tail = v.split_off(i);
                v.extend_from_slice(bytes);
                v.extend_from_slice(&tail);
            }
            Mut::Append { bytes } => v.extend_from_slice(bytes),
            Mut::Repeat { pos, len, times } => {
                if n > 0 {
                    let i = at(*pos);
                    let l = (*len as usize).max(1).min(n - i);
                    let seg = v[i..i + l].to_vec();
                    let tail = v.split_off(i + l);
                    for _ in 0..(*times % 16) {
                        v.extend_from_slice(&seg);
                    }
                    v.extend_from_slice(&tail);
                }
            }
        }
        if v.len() > 65_507 {
            v.truncate(65_507);
        }
    }
}

pub fn apply_all(base: &[u8], ops: &[Mut]) -> Vec<u8> {
    let mut v = base.to_vec();
    for m in ops {
        m.apply(&mut v);
    }
    v
}

pub fn edge_u16() -> impl Strategy<Value = u16> {
    prop_oneof![
        4 => prop::sample::select(vec![0u16, 1, 2, 3, 4, 7, 8, 11, 12, 13, 19, 20, 21, 0x7f, 0x80, 0xff, 0x100, 0x101, 1199, 1200, 1201, 1499, 1500, 1501, 0x3fff, 0x4000, 0x7fff, 0x8000, 0xfffb, 0xfffc, 0xfffd, 0xfffe, 0xffff]),
        1 => any::<u16>(),
    ]
}

pub fn edge_u24() -> impl Strategy<Value = u32> {
    prop_oneof![
        4 => prop::sample::select(vec![0u32, 1, 2, 11, 12, 13, 33, 34, 35, 0xff, 0x100, 0xffff, 0x1_0000, 0x1_0001, 0x7f_ffff, 0x80_0000, 0xff_fffe, 0xff_ffff]),
        1 => 0u32..0x100_0000,
    ]
}

pub fn edge_u32() -> impl Strategy<Value = u32> {
    prop_oneof![
        4 => prop::sample::select(vec![0u32, 1, 2, 0xff, 0xffff, 0x1_0000, 0x7fff_fffe, 0x7fff_ffff, 0x8000_0000, 0x8000_0001, 0xffff_fffe, 0xffff_ffff]),
        1 => any::<u32>(),
    ]
}

pub fn small_bytes(max: usize) -> impl Strategy<Value = Vec<u8>> {
    prop_oneof![
        3 => prop::collection::vec(any::<u8>(), 0..=max.min(24)),
        1 => prop::collection::vec(any::<u8>(), 0..=max),
        1 => (any::<u8>(), 0..=max).prop_map(|(b, n)| vec![b; n]),
    ]
}

/// Mutation operators; `abs` lists the absolute offsets of length / count fields of the format.
pub fn mut_strategy(abs: &'static [(u16, u8)]) -> BoxedStrategy<Mut> {
    let field = if abs.is_empty() {
        (any::<u16>(), edge_u16()).prop_map(|(pos, val)| Mut::SetU16 { pos, val }).boxed()
    } else {
        (prop::sample::select(abs.to_vec()), edge_u24())
            .prop_map(|((off, width), val)| match width {
                1 => Mut::AbsU8 { off, val: val as u8 },
                2 => Mut::AbsU16 { off, val: val as u16 },
                _ => Mut::AbsU24 { off, val },
            })
            .boxed()
    };
    prop_oneof![
        3 => (any::<u16>(), 0u8..8).prop_map(|(pos, bit)| Mut::Flip { pos, bit }),
        2 => any::<u16>().prop_map(|pos| Mut::Trunc { pos }),
        2 => (any::<u16>(), prop::sample::select(vec![0u8, 1, 0x7f, 0x80, 0xfe, 0xff])).prop_map(|(pos, val)| Mut::Set { pos, val }),
        2 => (any::<u16>(), edge_u16()).prop_map(|(pos, val)| Mut::SetU16 { pos, val }),
        5 => field,
        1 => (any::<u16>(), any::<u16>(), 1u8..5).prop_map(|(a, b, len)| Mut::Swap { a, b, len }),
        1 => (any::<u16>(), small_bytes(40)).prop_map(|(pos, bytes)| Mut::Insert { pos, bytes }),
        1 => small_bytes(64).prop_map(|bytes| Mut::Append { bytes }),
        1 => (any::<u16>(), 1u8..32, 1u8..16).prop_map(|(pos, len, times)| Mut::Repeat { pos, len, times }),
    ]
    .boxed()
}

/// Sequence length 1..=40, biased to short sequences (cost) with a tail of long ones.
pub fn seq_len() -> impl Strategy<Value = usize> {
    prop_oneof![4 => 1usize..=6, 3 => 7usize..=16, 1 => 17usize..=40]
}

pub fn seq_of<T: std::fmt::Debug + Clone + 'static>(item: BoxedStrategy<T>) -> BoxedStrategy<Vec<T>> {
    seq_len().prop_flat_map(move |n| prop::collection::vec(item.clone(), n..=n)).boxed()
}

/// Steering flags derived from known findings (see `run`).
#[derive(Clone, Copy, Default, Debug)]
pub struct Known {
    pub hello34: bool,
    pub turn_empty_data: bool,
    pub mid_overflow: bool,
    pub sdp_msections: bool,
    pub dtls_shd: bool,
}

/// Panic signatures carry the line number, which moves whenever the file is edited above it: look for a
/// known signature within +-`window` lines of where the finding was recorded.
fn known_near(ctx: &Ctx, prefix: &str, line: u32, window: u32, suffix: &str) -> Option<String> {
    (line.saturating_sub(window)..=line + window).map(|l| format!("{prefix}{l}{suffix}")).find(|s| ctx.is_known(s))
}

pub fn check_of<T, F, Fut>(layer: &'static str, f: F) -> AsyncCheck<T>
where
    T: Send + 'static,
    F: Fn(T, Arc<Progress>) -> Fut + Send + Sync + Clone + 'static,
    Fut: Future<Output = Out> + 'static,
{
    Arc::new(move |case: T| {
        let f = f.clone();
        Box::pin(async move { isolate(layer, move |p| f(case, p)).await })
    })
}

// ---------------------------------------------------------------- entry


pub fn run(ctx: &mut Ctx) {
    install_thread_panic_log();
    if let Ok(f) = std::env::var("C07_SDP_FILE") {
        sdp::dev_file(&f);
        return;
    }
    ctx.level = "exploration";
    ctx.rule = "Each case is a generated SEQUENCE of 1-40 inputs (length biased short, tail to 40) fed to a real endpoint in a generated state. dtls: Pair (IceConn+DtlsTransport both ends) in {pre-handshake, mid-handshake after flight 1/2/3 (held with a receive gate), established, closing}, client or server as target; inputs = mutations of genuine datagrams captured in that state (bit flips, truncation, length/seq/fragment field edits, field swaps, insertions, splices of two records, replays), grammar-built records and handshake messages (every msg_type, total_length/fragment_offset/fragment_length/message_seq from boundary sets up to 2^24-1, zero-length bodies, runs of consecutive message_seq, structured Client/ServerHello/HelloVerifyRequest/Certificate/ServerKeyExchange/ClientKeyExchange bodies with declared lengths beyond the body and cuts at every field boundary), CCS/alert/application records in any epoch, random bytes with first byte 20..63. sctp: Pair+SCTP in {before INIT / COOKIE-WAIT, COOKIE-ECHOED, established with data flowing, after close}; SCTP packets with a VALID CRC32c sealed as DTLS application records with the session keys: every chunk type with honest or hostile declared lengths, INIT/INIT-ACK with parameter lists (truncated, oversized, zero-length), SACK with gap blocks / dup counts beyond the chunk, DATA with any flags/stream/SSN/PPID incl. DCEP bodies (label/protocol lengths beyond the body, non-UTF-8), FORWARD-TSN far ahead, RECONFIG with truncated parameters, ABORT/SHUTDOWN/ERROR/COOKIE-*; rarely a bad CRC. rtp: RtpTransport.receive with and without an SRTP session (genuinely protected with an independent SRTP model so the parser behind authentication is reached), listeners + RID/MID ids + rewrite bridge with MID stamping, then set_extension / abs-send-time stamping / marshal on every packet the stack parsed. ice-udp / ice-tcp / ice-mux: live IceTransport host socket, passive ICE-TCP listener (own and shared single-port) with hostile RFC 4571 frame lengths, shared single-port UDP mux; malformed STUN (attribute lengths past the end, thousands of attributes, giant USERNAME, zero-length), non-STUN bytes. turn: IceTransport (relay only) against a scripted fake TURN server (UDP and TCP) that answers Allocate with generated bytes and then sends generated Data indications / ChannelData / responses. sdp: PeerConnection set_remote_description / create_answer / add_ice_candidate with grammar-mutated genuine offers and candidate strings in WebRTC / SRTP / RTP mode and ice_servers URL strings from a grammar plus garbage. udptl: UdtlTransport.recv over a real socket. Non-trivial = the sequence contained >= 1 input that passed the classifier of the layer it targets (DTLS record header parses; SCTP packet with valid CRC opened by the target's keys; RTP/RTCP fixed header valid; STUN header consistent; TURN allocation completed; SDP parsed; UDPTL primary length fits); distinct by case digest.".into();
    ctx.assumptions = vec![
        "time bound: 2 s wall per input / direct call and 2 s for the liveness probe (a watchdog outside the case thread turns an overrun into hang:<layer>:<entry>; overruns are re-run alone three times before they count)".into(),
        "allocation bound (thread-local counting allocator, one case per thread): peak live bytes while one input is processed <= 1 MiB + 64 x length of the longest input of the sequence so far (background work started by an earlier input may still be running); live-byte growth over a sequence <= 96 KiB + 8 KiB x inputs + 4 x input bytes (sdp layer: 1 MiB + 32 KiB x calls + 32 x input bytes, a PeerConnection keeps parsed copies of accepted descriptions). Calibrated on genuine-only sequences (evidence: alloc_calibration)".into(),
        "liveness: dtls = application data both ways when still Connected, a datagram or a terminal state when handshaking, prompt state query and send() error when closed; sctp = HEARTBEAT answered by HEARTBEAT-ACK unless the association reports a close reason; rtp = a genuine packet is delivered; ice = a STUN binding request is answered (new TCP connection for ice-tcp); turn = a relayed STUN binding request is answered through the fake server, else a state query; sdp = state queries and close() return; udptl = the next in-order datagram is delivered".into(),
        "an authenticated peer may legitimately break its own association (SACK/FORWARD-TSN/ABORT semantics), and unauthenticated handshake records may legitimately make a handshake fail: only crash, hang, death of the endpoint task and allocation are judged".into(),
        "live endpoints draw random keys / tags, so a replay re-generates the genuine datagrams; the mutation operators and grammar inputs are replayed exactly".into(),
        "all sockets on 127.0.0.1; debug-assertions and overflow-checks are on in the harness profile, so arithmetic overflow in the stack panics".into(),
    ];

    let sig_hello_c = known_near(ctx, "panic@transports/dtls/handshake.rs:", 203, 60, "[bytes]");
    let sig_hello_s = known_near(ctx, "panic@transports/dtls/handshake.rs:", 309, 60, "[bytes]");
    let sig_turn = known_near(ctx, "panic@transports/ice/mod.rs:", 2249, 300, "");
    let sig_mid = known_near(ctx, "panic@peer_connection.rs:", 1499, 300, "");
    let known = Known {
        hello34: sig_hello_c.is_some() || sig_hello_s.is_some(),
        turn_empty_data: sig_turn.is_some(),
        mid_overflow: sig_mid.is_some(),
        sdp_msections: ctx.is_known(sdp::SIG_MSECTIONS),
        dtls_shd: ctx.is_known(dtls::SIG_SHD),
    };
    ctx.set_extra("alloc_installed", serde_json::json!(alloc::installed()));

    let only = std::env::var("C07_ONLY").ok();
    let want = |name: &str| only.as_deref().map(|o| o.split(',').any(|x| x == name)).unwrap_or(true);

    let dev_n: Option<usize> = std::env::var("C07_N").ok().and_then(|v| v.parse().ok());
    let thorough = ctx.thorough();
    let cnt = move |q: usize, t: usize| dev_n.unwrap_or(if thorough { t } else { q });
    let rt = tokio::runtime::Builder::new_multi_thread().worker_threads(4).enable_all().build().expect("runtime");
    let conc: usize = std::env::var("C07_CONC").ok().and_then(|v| v.parse().ok()).unwrap_or(16);

    if want("decoder-smoke") {
        smoke::run(ctx);
    }
    if want("udptl") {
        ctx.sub_async(&rt, "udptl", cnt(2000, 30000), conc, udptl::strategy(), check_of("udptl", udptl::drive));
    }
    if want("rtp") {
        ctx.sub_async(&rt, "rtp", cnt(4000, 60000), conc, rtp::strategy(), check_of("rtp", rtp::drive));
    }
    if want("sdp") {
        ctx.sub_async(&rt, "sdp", cnt(1000, 15000), conc, sdp::strategy(known), check_of("sdp", sdp::drive));
    }
    if want("dtls") {
        ctx.sub_async(&rt, "dtls", cnt(500, 7500), conc, dtls::strategy(known), check_of("dtls", dtls::drive));
    }
    if want("sctp") {
        ctx.sub_async(&rt, "sctp", cnt(1500, 22500), conc, sctp::strategy(), check_of("sctp", sctp::drive));
    }
    if want("ice-udp") {
        ctx.sub_async(&rt, "ice-udp", cnt(300, 4500), conc, ice::strategy(ice::Kind::Udp), check_of("ice-udp", ice::drive));
    }
    if want("ice-tcp") {
        ctx.sub_async(&rt, "ice-tcp", cnt(300, 4500), conc, ice::strategy(ice::Kind::Tcp), check_of("ice-tcp", ice::drive));
    }
    if want("ice-mux") {
        ctx.sub_async(&rt, "ice-mux", cnt(300, 4500), conc, ice::strategy(ice::Kind::Mux), check_of("ice-mux", ice::drive));
    }
    if want("turn") {
        ctx.sub_async(&rt, "turn", cnt(300, 4500), conc, turn::strategy(known), check_of("turn", turn::drive));
    }

    // steering bookkeeping
    let steered: Vec<(Option<String>, u64)> = vec![
        (sig_hello_c.or(sig_hello_s), dtls::steered_hello()),
        (Some(dtls::SIG_SHD.to_string()), dtls::steered_shd()),
        (sig_turn, turn::steered()),
        (sig_mid, sdp::steered_mid()),
        (Some(sdp::SIG_MSECTIONS.to_string()), sdp::steered_msections()),
    ];
    for (sig, n) in steered {
        if let (Some(sig), true) = (sig, n > 0) {
            ctx.note_excluded(&sig, n);
        }
    }
    let st = STATS.lock();
    let cal: serde_json::Map<String, serde_json::Value> = st
        .iter()
        .map(|(k, s)| {
            (
                k.to_string(),
                serde_json::json!({"cases": s.cases, "max_peak_per_input": s.max_peak, "max_growth_per_sequence": s.max_growth, "genuine_only_max_peak": s.max_peak_genuine, "genuine_only_max_growth": s.max_growth_genuine}),
            )
        })
        .collect();
    ctx.set_extra("alloc_calibration", serde_json::Value::Object(cal));
    drop(st);
    rt.shutdown_timeout(Duration::from_millis(200));
}
