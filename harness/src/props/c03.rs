//! C03 — only authenticated DTLS records are acted on; nothing leaves in clear.
//!
//! Receive side: crafted / mutated records are injected into a real endpoint (established and
//! mid-handshake); an independent AES-128-GCM reader (`net::wire`) decides which records of an
//! injected datagram authenticate under the negotiated keys; the upper-layer receiver may yield only
//! those plaintexts and the state watch may move only on an authentic record.
//! Send side: concurrent `send()` callers (+ `close()`); every datagram captured after Connected must
//! open under the negotiated keys, reassemble to the payloads, respect the record limit and never
//! repeat an (epoch, sequence) / explicit nonce under one key.

mod common;
mod types;
mod rx;
mod tx;

pub use types::*;

use crate::engine::{AsyncCheck, Ctx};
use parking_lot::Mutex;
use serde_json::json;
use std::collections::{BTreeMap, HashSet};
use std::sync::Arc;
use std::sync::atomic::{AtomicU64, Ordering};

pub const SIG_PLAIN_APP_EST: &str = "plaintext-appdata-delivered(established)";
pub const SIG_PLAIN_APP_HS: &str = "plaintext-appdata-delivered(handshaking)";
pub const SIG_PLAIN_CLOSE_EST: &str = "plaintext-close-notify-closes(established)";
pub const SIG_PLAIN_CLOSE_HS: &str = "plaintext-close-notify-closes(handshaking)";
pub const SIG_PLAIN_HS_FAILS_EST: &str = "plaintext-handshake-msg-fails(established)";
pub const SIG_CLOSE_NONCE: &str = "close-alert-reuses-appdata-nonce";

const ALL_SIGS: [&str; 6] = [
    SIG_PLAIN_APP_EST,
    SIG_PLAIN_APP_HS,
    SIG_PLAIN_CLOSE_EST,
    SIG_PLAIN_CLOSE_HS,
    SIG_PLAIN_HS_FAILS_EST,
    SIG_CLOSE_NONCE,
];

/// State shared by all cases of a run: which findings are known (tolerated in-case so the search
/// continues behind them) and counters for the evidence file.
#[derive(Clone, Default)]
pub struct Shared {
    pub known: Arc<HashSet<String>>,
    pub hits: Arc<Mutex<BTreeMap<String, u64>>>,
    pub injections: Arc<AtomicU64>,
    pub injections_novel: Arc<AtomicU64>,
    pub records_sent_checked: Arc<AtomicU64>,
}

impl Shared {
    pub fn is_known(&self, sig: &str) -> bool {
        self.known.contains(sig)
    }
    pub fn hit(&self, sig: &str, n: u64) {
        *self.hits.lock().entry(sig.to_string()).or_default() += n;
    }
    fn flush(&self, ctx: &Ctx) {
        let h = std::mem::take(&mut *self.hits.lock());
        for (sig, n) in h {
            ctx.note_excluded(&sig, n);
        }
    }
}

fn rx_checker(sh: Shared) -> AsyncCheck<RxCase> {
    Arc::new(move |c: RxCase| {
        let sh = sh.clone();
        Box::pin(async move { rx::run_rx(c, sh).await })
    })
}

fn mid_checker(sh: Shared) -> AsyncCheck<MidCase> {
    Arc::new(move |c: MidCase| {
        let sh = sh.clone();
        Box::pin(async move { rx::run_mid(c, sh).await })
    })
}

fn close_mid_checker(sh: Shared) -> AsyncCheck<CloseMidCase> {
    Arc::new(move |c: CloseMidCase| {
        let sh = sh.clone();
        Box::pin(async move { tx::run_close_mid(c, sh).await })
    })
}

fn tx_checker(sh: Shared) -> AsyncCheck<TxCase> {
    Arc::new(move |c: TxCase| {
        let sh = sh.clone();
        Box::pin(async move { tx::run_tx(c, sh).await })
    })
}

pub fn run(ctx: &mut Ctx) {
    ctx.level = "fault_enumeration";
    ctx.rule = "Real IceConn+DtlsTransport pairs (rig::Pair, no SCTP) with a datagram tap. recv-grid: the full product content type {20,21,22,23,24,invalid} x epoch {0,1,2,0xFFFF} x payload {SCTP-looking, close_notify, fatal alert, random, forged handshake message, CCS} x protection {plain, random key, receiver's own key, peer key with AAD != header} x source {peer, 2 third parties} against client and server roles. recv-established: proptest sessions of 40-160 injections (crafted as above incl. authentic peer-key records with nonce != header, multi-record datagrams; bit flips, truncations, extensions, re-keying, header epoch/sequence rewrites, reflections and replays of captured genuine records). recv-bitflip-exhaustive: every single-bit flip and every truncation length of genuine Finished / ApplicationData (<=128 byte) / close_notify records, sampled flips on full-size records. recv-midhandshake: handshake frozen at the server's or the client's final flight (keys negotiated, peer's ChangeCipherSpec not yet seen, not Connected); a fixed set of 36 unprotected records whose header claims epoch 1 / 2 / 0xFFFF (content types 23, 21, 22, 20, several sequence numbers, peer and foreign source) followed by 10-40 crafted injections; then released. The same fixed set opens every recv-established session. send-concurrent: histories over every API that seals a record under the session key - 1-16 tasks x 1-4 send() calls with sizes {0,1,1199,1200,1201,2400,<=6000} from either/both sides, close() per side either after the senders or released together with them (racing on 16 worker threads), then 0-3 further send() calls by the side that closed (after its close_notify is on the wire, or racing with it). send-close-midhandshake: close() while the handshake is frozen with keys negotiated (alert numbered by the handshake context). Every injection is followed by an authentic marker record (barrier), so each injection is judged alone. Non-trivial: receive case = at least one injected datagram differs from every genuine datagram; send case = >=2 concurrent senders or close after data. Distinct by case digest (sessions); injections are counted separately in `injections`.".into();
    ctx.assumptions = vec![
        "negotiated suite is TLS_ECDHE_ECDSA_WITH_AES_128_GCM_SHA256 (the only one rustrtc offers); 'authenticates' is decided by the harness's own AES-GCM reader with nonce = write IV || explicit nonce and AAD = epoch||seq||type||FEFD||len".into(),
        "verbatim replays of genuine records and records sealed by the harness with the negotiated peer key (AAD consistent with the header, any explicit nonce, any epoch >= 1) count as authenticated: the statement demands authentication, not anti-replay or epoch tracking".into(),
        "a byte-identical retransmission of an already emitted record is not counted as nonce reuse".into(),
        "mid-handshake: forged epoch-0 handshake messages carrying the next expected message_seq are outside the oracle (DTLS 1.2 authenticates epoch-0 handshake messages only retroactively through Finished)".into(),
        "well-formed STUN messages (magic cookie, consistent length) arriving on a proxy socket are stray connectivity checks of other processes on the host, not output of the DTLS transport under test; they are dropped from the tap and counted".into(),
        "the loopback datagram path is loss-free; missed captures/deliveries are timing failures subject to the 3x solo re-run rule".into(),
        "close() leaves the caller's state Connected, so send() after (or racing with) close() is a legal history; a send() may be refused only after the PEER's close_notify".into(),
    ];
    let rt = tokio::runtime::Builder::new_multi_thread()
        .worker_threads(16)
        .enable_all()
        .build()
        .unwrap();
    let known: HashSet<String> = ALL_SIGS.iter().filter(|s| ctx.is_known(s)).map(|s| s.to_string()).collect();
    let sh = Shared { known: Arc::new(known), ..Default::default() };

    // fixed grid (enumerated): 2 roles x 2 targets
    let grid_cases: Vec<RxCase> = [(true, true), (true, false), (false, true), (false, false)]
        .iter()
        .map(|&(a_is_client, to_a)| RxCase {
            a_is_client,
            to_a,
            genuine: vec![1, 64],
            injs: vec![Inj::Grid],
            alert_flips: false,
        })
        .collect();
    if !ctx.is_replay() {
        let chk = rx_checker(sh.clone());
        let mut all = ctx.regression_cases::<RxCase>("recv-grid");
        all.extend(grid_cases);
        let results = rt.block_on(async {
            let mut hs = Vec::new();
            for c in all {
                let chk = chk.clone();
                hs.push(tokio::spawn(async move {
                    let r = chk(c.clone()).await;
                    (c, r)
                }));
            }
            let mut out = Vec::new();
            for h in hs {
                out.push(h.await.unwrap());
            }
            out
        });
        for (c, (rec, mut res)) in results {
            let v = serde_json::to_value(&c).unwrap();
            if matches!(&res, Err(f) if f.timing) {
                for _ in 0..3 {
                    res = rt.block_on(chk(c.clone())).1;
                    if res.is_ok() {
                        rec.inconclusive_timing();
                        break;
                    }
                }
            }
            if let Err(f) = ctx.record("recv-grid", &v, &rec, &res) {
                ctx.violation("recv-grid", &v, &f);
            }
        }
    } else if let Some(c) = ctx.replay_case::<RxCase>("recv-grid") {
        let chk = rx_checker(sh.clone());
        let (rec, res) = rt.block_on(chk(c.clone()));
        let v = serde_json::to_value(&c).unwrap();
        match ctx.record("recv-grid", &v, &rec, &res) {
            Ok(()) => println!("replay: property=C03 sub=recv-grid PASS"),
            Err(f) => ctx.violation("recv-grid", &v, &f),
        }
    }
    sh.flush(ctx);

    let n = ctx.scale(480usize, 6000usize);
    ctx.sub_async(&rt, "recv-established", n, 32, types::rx_strategy(), rx_checker(sh.clone()));
    sh.flush(ctx);

    let n = ctx.scale(192usize, 2400usize);
    let samples = ctx.scale(300usize, 2000usize);
    ctx.sub_async(&rt, "recv-bitflip-exhaustive", n, 32, types::flip_strategy(samples), rx_checker(sh.clone()));
    sh.flush(ctx);

    let n = ctx.scale(320usize, 4000usize);
    ctx.sub_async(&rt, "recv-midhandshake", n, 32, types::mid_strategy(), mid_checker(sh.clone()));
    sh.flush(ctx);

    let n = ctx.scale(480usize, 6000usize);
    ctx.sub_async(&rt, "send-concurrent", n, 24, types::tx_strategy(), tx_checker(sh.clone()));
    sh.flush(ctx);

    let n = ctx.scale(32usize, 320usize);
    ctx.sub_async(&rt, "send-close-midhandshake", n, 16, types::close_mid_strategy(), close_mid_checker(sh.clone()));
    sh.flush(ctx);

    ctx.set_extra("injections", json!(sh.injections.load(Ordering::Relaxed)));
    ctx.set_extra("injections_differing_from_every_genuine_datagram", json!(sh.injections_novel.load(Ordering::Relaxed)));
    ctx.set_extra("sent_records_opened_and_checked", json!(sh.records_sent_checked.load(Ordering::Relaxed)));
    ctx.set_exhaustive(false);
    rt.shutdown_timeout(std::time::Duration::from_secs(2));
}
