//! C15, RTCP half: logical compound round trip, differential against webrtc-rs `rtcp`,
//! NACK set packing, receiver-gap -> NACK -> wire -> sender retransmission selection,
//! and the out-of-range ("oversize") well-formed-output check.

use crate::engine::{CaseRec, Check, Ctx, Fail};
use crate::ensure;
use crate::props::c15::{blob, run_guarded, u16b, u32b};
use crate::refimpl::rtpwire::{self, TwccChunk, TwccChunking, TwccSym};
use bytes::Bytes;
use proptest::prelude::*;
use rtcp::packet::Packet as RefPacket;
use rustrtc::rtp::{
    FirRequest, FullIntraRequest, GenericNack, Goodbye, PictureLossIndication, ReceiverReport,
    RemoteBitrateEstimate, ReportBlock, RtcpPacket, SdesChunk, SdesItem, SenderReport,
    SourceDescription, TransportWideCc, is_rtcp, marshal_rtcp_packets, parse_rtcp_packets,
};
use serde::{Deserialize, Serialize};

type RefBox = Box<dyn RefPacket + Send + Sync>;

// ---------------------------------------------------------------- logical model

#[derive(Clone, Debug, Serialize, Deserialize, PartialEq, Eq)]
pub struct RbL {
    pub ssrc: u32,
    pub fraction_lost: u8,
    pub packets_lost: i32,
    pub highest_sequence: u32,
    pub jitter: u32,
    pub lsr: u32,
    pub dlsr: u32,
}

#[derive(Clone, Copy, Debug, Serialize, Deserialize, PartialEq, Eq)]
pub enum SymL {
    NotReceived,
    Small(u8),
    Large(i16),
}

#[derive(Clone, Copy, Debug, Serialize, Deserialize, PartialEq, Eq)]
pub enum ChunkingL {
    RunLength,
    TwoBit,
    OneBit,
}

#[derive(Clone, Debug, Serialize, Deserialize, PartialEq, Eq)]
pub enum TwccBodyL {
    /// structured: status symbols (first one is always a received packet)
    Symbols { syms: Vec<SymL>, chunking: ChunkingL },
    /// opaque tail bytes (self round trip only; the reference cannot read them)
    Opaque {
        status_count: u16,
        #[serde(with = "crate::engine::hexbytes")]
        tail: Vec<u8>,
    },
}

#[derive(Clone, Debug, Serialize, Deserialize, PartialEq, Eq)]
pub struct SdesItemL {
    pub ty: u8,
    pub text: String,
}

#[derive(Clone, Debug, Serialize, Deserialize, PartialEq, Eq)]
pub struct SdesChunkL {
    pub ssrc: u32,
    pub items: Vec<SdesItemL>,
}

#[derive(Clone, Debug, Serialize, Deserialize, PartialEq, Eq)]
pub enum RtcpL {
    Sr { ssrc: u32, ntp_most: u32, ntp_least: u32, rtp_ts: u32, pc: u32, oc: u32, blocks: Vec<RbL> },
    Rr { ssrc: u32, blocks: Vec<RbL> },
    Sdes { chunks: Vec<SdesChunkL> },
    Bye { sources: Vec<u32>, reason: Option<String> },
    Pli { sender: u32, media: u32 },
    Fir { sender: u32, reqs: Vec<(u32, u8)> },
    Nack { sender: u32, media: u32, lost: Vec<u16> },
    Remb { sender: u32, bitrate: u64, ssrcs: Vec<u32> },
    Twcc { sender: u32, media: u32, base_seq: u16, ref_time: u32, fb_count: u8, body: TwccBodyL },
}

fn syms(s: &[SymL]) -> Vec<TwccSym> {
    s.iter()
        .map(|x| match *x {
            SymL::NotReceived => TwccSym::NotReceived,
            SymL::Small(d) => TwccSym::Small(d),
            SymL::Large(d) => TwccSym::Large(d),
        })
        .collect()
}

fn chunking(c: ChunkingL) -> TwccChunking {
    match c {
        ChunkingL::RunLength => TwccChunking::RunLength,
        ChunkingL::TwoBit => TwccChunking::TwoBitVector,
        ChunkingL::OneBit => TwccChunking::OneBitVector,
    }
}

fn sorted_set(v: &[u16]) -> Vec<u16> {
    let mut s = v.to_vec();
    s.sort_unstable();
    s.dedup();
    s
}

/// REMB carries 18 significant bits: the value a conformant encoder can put on the wire.
pub fn remb_representable(b: u64) -> u64 {
    let bits = 64 - b.leading_zeros();
    let e = bits.saturating_sub(18);
    (b >> e) << e
}

fn rb(b: &RbL) -> ReportBlock {
    ReportBlock {
        ssrc: b.ssrc,
        fraction_lost: b.fraction_lost,
        packets_lost: b.packets_lost,
        highest_sequence: b.highest_sequence,
        jitter: b.jitter,
        last_sender_report: b.lsr,
        delay_since_last_sender_report: b.dlsr,
    }
}

fn rb_ref(b: &RbL) -> rtcp::reception_report::ReceptionReport {
    rtcp::reception_report::ReceptionReport {
        ssrc: b.ssrc,
        fraction_lost: b.fraction_lost,
        // RFC 3550: 24-bit two's complement; the reference keeps the raw 24 bits
        total_lost: (b.packets_lost as u32) & 0x00FF_FFFF,
        last_sequence_number: b.highest_sequence,
        jitter: b.jitter,
        last_sender_report: b.lsr,
        delay: b.dlsr,
    }
}

impl RtcpL {
    pub fn kind(&self) -> &'static str {
        match self {
            RtcpL::Sr { .. } => "sr",
            RtcpL::Rr { .. } => "rr",
            RtcpL::Sdes { .. } => "sdes",
            RtcpL::Bye { .. } => "bye",
            RtcpL::Pli { .. } => "pli",
            RtcpL::Fir { .. } => "fir",
            RtcpL::Nack { .. } => "nack",
            RtcpL::Remb { .. } => "remb",
            RtcpL::Twcc { .. } => "twcc",
        }
    }

    pub fn twcc_tail(&self) -> Vec<u8> {
        match self {
            RtcpL::Twcc { body: TwccBodyL::Symbols { syms: s, chunking: c }, .. } => rtpwire::twcc_tail(&syms(s), chunking(*c)),
            RtcpL::Twcc { body: TwccBodyL::Opaque { tail, .. }, .. } => tail.clone(),
            _ => Vec::new(),
        }
    }

    /// The rustrtc value handed to marshal.
    pub fn to_rtc(&self) -> RtcpPacket {
        match self {
            RtcpL::Sr { ssrc, ntp_most, ntp_least, rtp_ts, pc, oc, blocks } => RtcpPacket::SenderReport(SenderReport {
                sender_ssrc: *ssrc,
                ntp_most: *ntp_most,
                ntp_least: *ntp_least,
                rtp_timestamp: *rtp_ts,
                packet_count: *pc,
                octet_count: *oc,
                report_blocks: blocks.iter().map(rb).collect(),
            }),
            RtcpL::Rr { ssrc, blocks } => RtcpPacket::ReceiverReport(ReceiverReport {
                sender_ssrc: *ssrc,
                report_blocks: blocks.iter().map(rb).collect(),
            }),
            RtcpL::Sdes { chunks } => RtcpPacket::SourceDescription(SourceDescription {
                chunks: chunks
                    .iter()
                    .map(|c| SdesChunk {
                        ssrc: c.ssrc,
                        items: c.items.iter().map(|i| SdesItem { ty: i.ty, text: i.text.clone() }).collect(),
                    })
                    .collect(),
            }),
            RtcpL::Bye { sources, reason } => RtcpPacket::Goodbye(Goodbye { sources: sources.clone(), reason: reason.clone() }),
            RtcpL::Pli { sender, media } => {
                RtcpPacket::PictureLossIndication(PictureLossIndication { sender_ssrc: *sender, media_ssrc: *media })
            }
            RtcpL::Fir { sender, reqs } => RtcpPacket::FullIntraRequest(FullIntraRequest {
                sender_ssrc: *sender,
                requests: reqs.iter().map(|(s, n)| FirRequest { ssrc: *s, sequence_number: *n }).collect(),
            }),
            RtcpL::Nack { sender, media, lost } => {
                RtcpPacket::GenericNack(GenericNack { sender_ssrc: *sender, media_ssrc: *media, lost_packets: lost.clone() })
            }
            RtcpL::Remb { sender, bitrate, ssrcs } => RtcpPacket::RemoteBitrateEstimate(RemoteBitrateEstimate {
                sender_ssrc: *sender,
                bitrate_bps: *bitrate,
                ssrcs: ssrcs.clone(),
            }),
            RtcpL::Twcc { sender, media, base_seq, ref_time, fb_count, body } => RtcpPacket::TransportWideCc(TransportWideCc {
                sender_ssrc: *sender,
                media_ssrc: *media,
                base_sequence: *base_seq,
                packet_status_count: match body {
                    TwccBodyL::Symbols { syms, .. } => syms.len() as u16,
                    TwccBodyL::Opaque { status_count, .. } => *status_count,
                },
                reference_time_64ms: *ref_time,
                feedback_packet_count: *fb_count,
                payload: self.twcc_tail(),
            }),
        }
    }

    /// What a parser must hand back (normal form). `zero_padded`: the TWCC tail went through
    /// rustrtc's marshaller (zero padding to 32 bits, indistinguishable on the wire);
    /// `reason_always`: the packet went through the reference marshaller, which always writes a reason length octet.
    pub fn expected(&self, zero_padded: bool, reason_always: bool) -> RtcpPacket {
        let mut p = self.to_rtc();
        match &mut p {
            RtcpPacket::GenericNack(n) => n.lost_packets = sorted_set(&n.lost_packets),
            RtcpPacket::RemoteBitrateEstimate(r) => r.bitrate_bps = remb_representable(r.bitrate_bps),
            RtcpPacket::TransportWideCc(t) => {
                if zero_padded {
                    while t.payload.len() % 4 != 0 {
                        t.payload.push(0);
                    }
                }
            }
            RtcpPacket::Goodbye(g) => {
                if reason_always && g.reason.is_none() {
                    g.reason = Some(String::new());
                }
            }
            _ => {}
        }
        p
    }

    /// The same value as a webrtc-rs struct; None when the reference cannot represent it.
    pub fn to_ref(&self) -> Option<RefBox> {
        Some(match self {
            RtcpL::Sr { ssrc, ntp_most, ntp_least, rtp_ts, pc, oc, blocks } => Box::new(rtcp::sender_report::SenderReport {
                ssrc: *ssrc,
                ntp_time: ((*ntp_most as u64) << 32) | *ntp_least as u64,
                rtp_time: *rtp_ts,
                packet_count: *pc,
                octet_count: *oc,
                reports: blocks.iter().map(rb_ref).collect(),
                profile_extensions: Bytes::new(),
            }),
            RtcpL::Rr { ssrc, blocks } => Box::new(rtcp::receiver_report::ReceiverReport {
                ssrc: *ssrc,
                reports: blocks.iter().map(rb_ref).collect(),
                profile_extensions: Bytes::new(),
            }),
            RtcpL::Sdes { chunks } => {
                if chunks.iter().any(|c| c.items.iter().any(|i| i.ty > 8)) {
                    return None;
                }
                Box::new(rtcp::source_description::SourceDescription {
                    chunks: chunks
                        .iter()
                        .map(|c| rtcp::source_description::SourceDescriptionChunk {
                            source: c.ssrc,
                            items: c
                                .items
                                .iter()
                                .map(|i| rtcp::source_description::SourceDescriptionItem {
                                    sdes_type: rtcp::source_description::SdesType::from(i.ty),
                                    text: Bytes::from(i.text.clone().into_bytes()),
                                })
                                .collect(),
                        })
                        .collect(),
                })
            }
            RtcpL::Bye { sources, reason } => Box::new(rtcp::goodbye::Goodbye {
                sources: sources.clone(),
                reason: Bytes::from(reason.clone().unwrap_or_default().into_bytes()),
            }),
            RtcpL::Pli { sender, media } => Box::new(rtcp::payload_feedbacks::picture_loss_indication::PictureLossIndication {
                sender_ssrc: *sender,
                media_ssrc: *media,
            }),
            RtcpL::Fir { sender, reqs } => Box::new(rtcp::payload_feedbacks::full_intra_request::FullIntraRequest {
                sender_ssrc: *sender,
                media_ssrc: 0,
                fir: reqs
                    .iter()
                    .map(|(s, n)| rtcp::payload_feedbacks::full_intra_request::FirEntry { ssrc: *s, sequence_number: *n })
                    .collect(),
            }),
            RtcpL::Nack { sender, media, lost } => Box::new(rtcp::transport_feedbacks::transport_layer_nack::TransportLayerNack {
                sender_ssrc: *sender,
                media_ssrc: *media,
                nacks: rtpwire::nack_pairs_circular(lost)
                    .into_iter()
                    .map(|(p, b)| rtcp::transport_feedbacks::transport_layer_nack::NackPair { packet_id: p, lost_packets: b })
                    .collect(),
            }),
            RtcpL::Remb { sender, bitrate, ssrcs } => Box::new(
                rtcp::payload_feedbacks::receiver_estimated_maximum_bitrate::ReceiverEstimatedMaximumBitrate {
                    sender_ssrc: *sender,
                    // exactly representable: 18 significant bits fit an f32 mantissa
                    bitrate: remb_representable(*bitrate) as f32,
                    ssrcs: ssrcs.clone(),
                },
            ),
            RtcpL::Twcc { sender, media, base_seq, ref_time, fb_count, body } => {
                use rtcp::transport_feedbacks::transport_layer_cc as tcc;
                let TwccBodyL::Symbols { syms: s, chunking: c } = body else { return None };
                let sy = syms(s);
                let code = |c: u16| tcc::SymbolTypeTcc::from(c);
                let packet_chunks = rtpwire::twcc_chunks(&sy, chunking(*c))
                    .into_iter()
                    .map(|ch| match ch {
                        TwccChunk::Run { code: c, len } => tcc::PacketStatusChunk::RunLengthChunk(tcc::RunLengthChunk {
                            type_tcc: tcc::StatusChunkTypeTcc::RunLengthChunk,
                            packet_status_symbol: code(c),
                            run_length: len,
                        }),
                        TwccChunk::Vector { two_bit, codes } => tcc::PacketStatusChunk::StatusVectorChunk(tcc::StatusVectorChunk {
                            type_tcc: tcc::StatusChunkTypeTcc::StatusVectorChunk,
                            symbol_size: if two_bit { tcc::SymbolSizeTypeTcc::TwoBit } else { tcc::SymbolSizeTypeTcc::OneBit },
                            symbol_list: codes.into_iter().map(code).collect(),
                        }),
                    })
                    .collect();
                let recv_deltas = sy
                    .iter()
                    .filter_map(|s| match *s {
                        TwccSym::NotReceived => None,
                        TwccSym::Small(d) => Some(tcc::RecvDelta {
                            type_tcc_packet: tcc::SymbolTypeTcc::PacketReceivedSmallDelta,
                            delta: d as i64 * tcc::TYPE_TCC_DELTA_SCALE_FACTOR,
                        }),
                        TwccSym::Large(d) => Some(tcc::RecvDelta {
                            type_tcc_packet: tcc::SymbolTypeTcc::PacketReceivedLargeDelta,
                            delta: d as i64 * tcc::TYPE_TCC_DELTA_SCALE_FACTOR,
                        }),
                    })
                    .collect();
                Box::new(tcc::TransportLayerCc {
                    sender_ssrc: *sender,
                    media_ssrc: *media,
                    base_sequence_number: *base_seq,
                    packet_status_count: s.len() as u16,
                    reference_time: *ref_time,
                    fb_pkt_count: *fb_count,
                    packet_chunks,
                    recv_deltas,
                })
            }
        })
    }

    pub fn boundaries(&self, rec: &CaseRec) -> bool {
        let mut b = false;
        let mut l = |c: bool, s: &str| {
            if c {
                rec.label(s);
                b = true;
            }
        };
        let blocks = |bl: &Vec<RbL>, l: &mut dyn FnMut(bool, &str)| {
            l(bl.len() == 31, "rtcp:blocks=31");
            l(bl.is_empty(), "rtcp:blocks=0");
            l(bl.iter().any(|x| x.packets_lost == -(1 << 23)), "rtcp:lost=-2^23");
            l(bl.iter().any(|x| x.packets_lost == (1 << 23) - 1), "rtcp:lost=2^23-1");
            l(bl.iter().any(|x| x.packets_lost < 0), "rtcp:lost-negative");
        };
        match self {
            RtcpL::Sr { blocks: bl, .. } | RtcpL::Rr { blocks: bl, .. } => blocks(bl, &mut l),
            RtcpL::Sdes { chunks } => {
                l(chunks.len() == 31, "rtcp:sdes-chunks=31");
                l(chunks.is_empty(), "rtcp:sdes-chunks=0");
                let items = chunks.iter().flat_map(|c| c.items.iter());
                l(items.clone().any(|i| i.text.len() == 255), "rtcp:sdes-text=255");
                l(items.clone().any(|i| i.text.len() == 254), "rtcp:sdes-text=254");
                l(items.clone().any(|i| i.text.is_empty()), "rtcp:sdes-text=0");
                l(items.clone().any(|i| !i.text.is_ascii()), "rtcp:sdes-text-multibyte");
                l(items.clone().any(|i| i.ty > 8), "rtcp:sdes-type>8");
                l(chunks.iter().any(|c| c.items.is_empty()), "rtcp:sdes-chunk-no-items");
            }
            RtcpL::Bye { sources, reason } => {
                l(sources.len() == 31, "rtcp:bye-sources=31");
                l(sources.is_empty(), "rtcp:bye-sources=0");
                l(reason.as_ref().is_some_and(|r| r.len() == 255), "rtcp:bye-reason=255");
                l(reason.as_ref().is_some_and(|r| r.is_empty()), "rtcp:bye-reason=0");
                l(reason.is_none(), "rtcp:bye-no-reason");
            }
            RtcpL::Pli { .. } => {}
            RtcpL::Fir { reqs, .. } => {
                l(reqs.is_empty(), "rtcp:fir-entries=0");
                l(reqs.iter().any(|r| r.1 == 255), "rtcp:fir-seq=255");
            }
            RtcpL::Nack { lost, .. } => {
                let s = sorted_set(lost);
                l(s.len() != lost.len(), "rtcp:nack-duplicates");
                l(s.first().is_some_and(|x| *x <= 16) && s.last().is_some_and(|x| *x >= 65519), "rtcp:nack-wraparound");
                l(s.windows(18).any(|w| w[17].wrapping_sub(w[0]) == 17), "rtcp:nack-dense-17-run");
            }
            RtcpL::Remb { bitrate, ssrcs, .. } => {
                l(ssrcs.len() == 255, "rtcp:remb-ssrcs=255");
                l(ssrcs.is_empty(), "rtcp:remb-ssrcs=0");
                let bits = 64 - bitrate.leading_zeros();
                l(bits > 18 && (*bitrate >> (bits - 18)) == 0x3FFFF, "rtcp:remb-mantissa-max");
                l(bits == 64, "rtcp:remb-exponent=46");
                l(remb_representable(*bitrate) != *bitrate, "rtcp:remb-inexact");
                l(*bitrate == 0x3FFFF || *bitrate == 0x40000, "rtcp:remb-exponent-edge");
            }
            RtcpL::Twcc { ref_time, body, .. } => {
                l(*ref_time == 0xFF_FFFF, "rtcp:twcc-reftime-max");
                match body {
                    TwccBodyL::Symbols { syms, chunking } => {
                        l(syms.iter().any(|s| matches!(s, SymL::Large(d) if *d < 0)), "rtcp:twcc-negative-delta");
                        l(syms.iter().any(|s| matches!(s, SymL::Small(255) | SymL::Large(i16::MIN) | SymL::Large(i16::MAX))), "rtcp:twcc-delta-boundary");
                        l(*chunking != ChunkingL::RunLength, "rtcp:twcc-status-vector");
                    }
                    TwccBodyL::Opaque { .. } => l(true, "rtcp:twcc-opaque-tail"),
                }
                l(self.twcc_tail().len() % 4 != 0, "rtcp:twcc-tail-unaligned");
            }
        }
        b
    }
}

// ---------------------------------------------------------------- strategies

fn rb_strategy() -> impl Strategy<Value = RbL> {
    (
        u32b(),
        prop_oneof![Just(0u8), Just(255u8), any::<u8>()],
        prop_oneof![
            1 => Just(-(1i32 << 23)), 1 => Just(-1i32), 1 => Just(0i32), 1 => Just((1i32 << 23) - 1),
            1 => Just(1i32), 3 => -(1i32 << 23)..(1i32 << 23)
        ],
        u32b(),
        u32b(),
        u32b(),
        u32b(),
    )
        .prop_map(|(ssrc, fraction_lost, packets_lost, highest_sequence, jitter, lsr, dlsr)| RbL {
            ssrc, fraction_lost, packets_lost, highest_sequence, jitter, lsr, dlsr,
        })
}

fn blocks_strategy() -> impl Strategy<Value = Vec<RbL>> {
    prop_oneof![2 => Just(0usize), 3 => Just(1usize), 1 => Just(31usize), 1 => Just(2usize), 2 => 0usize..=31]
        .prop_flat_map(|n| prop::collection::vec(rb_strategy(), n))
}

/// Valid UTF-8 text with an exact byte length (RFC 3550 §6.5: UTF-8, length octet counts bytes).
pub fn text_strategy(max: usize) -> impl Strategy<Value = String> {
    (
        prop_oneof![2 => Just(0usize), 1 => Just(1usize), 2 => Just(max - 1), 3 => Just(max), 4 => 0usize..=max, 3 => 0usize..=20],
        0u8..6,
        any::<u8>(),
    )
        .prop_map(|(len, flavor, seed)| {
            let prefix = match flavor {
                0 => "\u{e9}",        // 2 bytes
                1 => "\u{20ac}",      // 3 bytes
                2 => "\u{1f600}",     // 4 bytes
                3 => "\0",            // NUL is legal inside a counted string
                _ => "",
            };
            let mut s = String::new();
            if prefix.len() <= len {
                s.push_str(prefix);
            }
            let mut i = 0u8;
            while s.len() < len {
                // a trailing multi-byte char when it fits exactly
                if flavor == 5 && len - s.len() == 2 {
                    s.push('\u{fc}');
                    break;
                }
                s.push((b'a' + (seed.wrapping_add(i) % 26)) as char);
                i = i.wrapping_add(1);
            }
            s
        })
}

fn sdes_strategy(ref_types_only: bool) -> impl Strategy<Value = RtcpL> {
    let ty = if ref_types_only {
        prop_oneof![3 => Just(1u8), 2 => 1u8..=8].boxed()
    } else {
        prop_oneof![6 => Just(1u8), 6 => 1u8..=8, 1 => 9u8..=255, 1 => Just(255u8)].boxed()
    };
    let item = (ty, text_strategy(255)).prop_map(|(ty, text)| SdesItemL { ty, text });
    let chunk = (u32b(), prop::collection::vec(item, 0..=3)).prop_map(|(ssrc, items)| SdesChunkL { ssrc, items }).boxed();
    prop_oneof![1 => Just(0usize), 5 => Just(1usize), 1 => Just(31usize), 3 => 0usize..=4]
        .prop_flat_map(move |n| prop::collection::vec(chunk.clone(), n))
        .prop_map(|chunks| RtcpL::Sdes { chunks })
}

pub fn nack_set_strategy() -> impl Strategy<Value = Vec<u16>> {
    prop_oneof![
        // run across the wrap
        3 => (prop_oneof![65500u16..=65535, Just(65534u16), Just(65535u16)], 1usize..=60)
            .prop_map(|(s, n)| (0..n).map(|i| s.wrapping_add(i as u16)).collect::<Vec<u16>>()),
        // exactly {65534, 65535, 0, 1}
        1 => Just(vec![65534u16, 65535, 0, 1]),
        // dense run of 17/18/34 (one pair holds exactly 17)
        2 => (u16b(), prop_oneof![Just(16usize), Just(17usize), Just(18usize), Just(34usize), Just(35usize)])
            .prop_map(|(s, n)| (0..n).map(|i| s.wrapping_add(i as u16)).collect::<Vec<u16>>()),
        // bit pattern holes around a base (possibly wrapping)
        3 => (u16b(), any::<u64>()).prop_map(|(s, m)| {
            let mut v = vec![s];
            for i in 0..64u16 { if m >> i & 1 == 1 { v.push(s.wrapping_add(i + 1)); } }
            v
        }),
        // duplicates and arbitrary order
        2 => prop::collection::vec(prop_oneof![u16b(), 0u16..40, 65500u16..=65535], 1..40),
        // sparse
        2 => prop::collection::vec(any::<u16>(), 1..60),
        // single
        1 => u16b().prop_map(|s| vec![s]),
    ]
    .prop_shuffle()
}

fn remb_bitrate() -> impl Strategy<Value = u64> {
    prop_oneof![
        4 => (prop_oneof![Just(0u64), Just(1u64), Just(0x3FFFFu64), Just(0x20000u64), 0u64..=0x3FFFF], 0u32..=46).prop_map(|(m, e)| m << e),
        2 => any::<u64>(),
        1 => Just(u64::MAX),
        1 => Just(0x40000u64),
        1 => Just(0x3FFFFu64),
        1 => Just(0x7FFFFu64),
        2 => 0u64..10_000_000,
    ]
}

fn sym_strategy() -> impl Strategy<Value = SymL> {
    prop_oneof![
        3 => Just(SymL::NotReceived),
        4 => prop_oneof![Just(0u8), Just(255u8), any::<u8>()].prop_map(SymL::Small),
        2 => prop_oneof![Just(i16::MIN), Just(i16::MAX), Just(-1i16), Just(256i16), any::<i16>()].prop_map(SymL::Large),
    ]
}

fn twcc_strategy(structured_only: bool) -> impl Strategy<Value = RtcpL> {
    let recv = prop_oneof![
        3 => any::<u8>().prop_map(SymL::Small),
        1 => any::<i16>().prop_map(SymL::Large),
    ];
    let structured = (
        recv,
        prop::collection::vec(sym_strategy(), 0..40),
        prop_oneof![Just(ChunkingL::RunLength), Just(ChunkingL::TwoBit), Just(ChunkingL::OneBit)],
    )
        .prop_map(|(first, mut rest, chunking)| {
            rest.insert(0, first);
            TwccBodyL::Symbols { syms: rest, chunking }
        });
    let body = if structured_only {
        structured.boxed()
    } else {
        prop_oneof![
            4 => structured,
            1 => (u16b(), blob(23)).prop_map(|(status_count, tail)| TwccBodyL::Opaque { status_count, tail }),
        ]
        .boxed()
    };
    (
        u32b(),
        u32b(),
        u16b(),
        prop_oneof![Just(0u32), Just(0xFF_FFFFu32), 0u32..=0xFF_FFFF],
        prop_oneof![Just(0u8), Just(255u8), any::<u8>()],
        body,
    )
        .prop_map(|(sender, media, base_seq, ref_time, fb_count, body)| RtcpL::Twcc { sender, media, base_seq, ref_time, fb_count, body })
}

/// One logical RTCP packet. `for_ref`: only values the reference can represent.
pub fn rtcp_strategy(for_ref: bool) -> BoxedStrategy<RtcpL> {
    prop_oneof![
        2 => (u32b(), u32b(), u32b(), u32b(), u32b(), u32b(), blocks_strategy())
            .prop_map(|(ssrc, ntp_most, ntp_least, rtp_ts, pc, oc, blocks)| RtcpL::Sr { ssrc, ntp_most, ntp_least, rtp_ts, pc, oc, blocks }),
        2 => (u32b(), blocks_strategy()).prop_map(|(ssrc, blocks)| RtcpL::Rr { ssrc, blocks }),
        2 => sdes_strategy(for_ref),
        2 => (
            prop_oneof![2 => Just(0usize), 3 => Just(1usize), 1 => Just(31usize), 2 => 0usize..=31]
                .prop_flat_map(|n| prop::collection::vec(u32b(), n)),
            prop_oneof![2 => Just(None), 3 => text_strategy(255).prop_map(Some)],
        )
            .prop_map(|(sources, reason)| RtcpL::Bye { sources, reason }),
        1 => (u32b(), u32b()).prop_map(|(sender, media)| RtcpL::Pli { sender, media }),
        1 => (u32b(), prop::collection::vec((u32b(), prop_oneof![Just(0u8), Just(255u8), any::<u8>()]), 0..6))
            .prop_map(|(sender, reqs)| RtcpL::Fir { sender, reqs }),
        3 => (u32b(), u32b(), nack_set_strategy()).prop_map(|(sender, media, lost)| RtcpL::Nack { sender, media, lost }),
        2 => (
            u32b(),
            remb_bitrate(),
            prop_oneof![2 => Just(0usize), 3 => Just(1usize), 1 => Just(255usize), 3 => 0usize..=8]
                .prop_flat_map(|n| prop::collection::vec(u32b(), n)),
        )
            .prop_map(|(sender, bitrate, ssrcs)| RtcpL::Remb { sender, bitrate, ssrcs }),
        2 => twcc_strategy(for_ref),
    ]
    .boxed()
}

pub fn compound_strategy(for_ref: bool) -> impl Strategy<Value = Vec<RtcpL>> {
    prop_oneof![3 => Just(1usize), 2 => Just(2usize), 1 => Just(6usize), 2 => 1usize..=6]
        .prop_flat_map(move |n| prop::collection::vec(rtcp_strategy(for_ref), n))
}

// ---------------------------------------------------------------- reference helpers

fn ref_parse_one(w: &[u8]) -> Result<RefBox, String> {
    let mut b = Bytes::copy_from_slice(w);
    match run_guarded(|| rtcp::packet::unmarshal(&mut b)) {
        Some(Ok(mut v)) => {
            if v.len() == 1 {
                let p = v.remove(0);
                // webrtc-rs decodes a REMB mantissa of 0 as 1.0 * 2^(exp+23) (it skips normalisation and
                // keeps the implicit leading one); the wire value is 0 * 2^exp = 0.
                use rtcp::payload_feedbacks::receiver_estimated_maximum_bitrate::ReceiverEstimatedMaximumBitrate as Remb;
                if let Some(r) = p.as_any().downcast_ref::<Remb>() {
                    if w.len() >= 20 && w[17] & 3 == 0 && w[18] == 0 && w[19] == 0 {
                        return Ok(Box::new(Remb { sender_ssrc: r.sender_ssrc, bitrate: 0.0, ssrcs: r.ssrcs.clone() }));
                    }
                }
                Ok(p)
            } else {
                Err(format!("reference split one packet into {}", v.len()))
            }
        }
        Some(Err(e)) => Err(format!("reference error: {e}")),
        None => Err("reference panicked".into()),
    }
}

fn ref_nack_set(p: &RefBox) -> Option<(u32, u32, Vec<u16>)> {
    let n = p.as_any().downcast_ref::<rtcp::transport_feedbacks::transport_layer_nack::TransportLayerNack>()?;
    let mut v: Vec<u16> = n.nacks.iter().flat_map(|x| x.packet_list()).collect();
    v.sort_unstable();
    v.dedup();
    Some((n.sender_ssrc, n.media_ssrc, v))
}

/// Reference-level field equality; NACK compared by the denoted set (pair packing is free).
fn ref_same(a: &RefBox, b: &RefBox) -> Result<(), String> {
    if let (Some(x), Some(y)) = (ref_nack_set(a), ref_nack_set(b)) {
        return if x == y { Ok(()) } else { Err(format!("NACK sets differ: {:?} vs {:?}", x, y)) };
    }
    if a.equal(&**b) { Ok(()) } else { Err(format!("{:?} vs {:?}", a, b)) }
}

fn normalise(mut p: RtcpPacket) -> RtcpPacket {
    if let RtcpPacket::GenericNack(n) = &mut p {
        n.lost_packets = sorted_set(&n.lost_packets);
    }
    p
}

fn compound_labels(c: &[RtcpL], rec: &CaseRec) {
    let mut nt = c.len() >= 2;
    if c.len() >= 2 {
        rec.label("rtcp:compound>=2");
    }
    if c.len() == 6 {
        rec.label("rtcp:compound=6");
    }
    for p in c {
        rec.label(format!("rtcp:type-{}", p.kind()));
        nt |= p.boundaries(rec);
    }
    rec.set_nontrivial(nt);
}

// ---------------------------------------------------------------- rtcp-roundtrip

pub fn check_rtcp_roundtrip(c: &Vec<RtcpL>, rec: &CaseRec) -> Check {
    compound_labels(c, rec);
    let pkts: Vec<RtcpPacket> = c.iter().map(|p| p.to_rtc()).collect();
    let w = marshal_rtcp_packets(&pkts)
        .map_err(|e| Fail::new("rtcp-marshal-rejected-wellformed", format!("marshal error {e} for {:?}", c)))?;
    ensure!(is_rtcp(&w), "rtcp-is-rtcp-false", "is_rtcp() is false for marshalled RTCP");
    // framing: one 32-bit aligned packet per logical packet, compound = concatenation
    let parts = rtpwire::rtcp_split(&w).ok_or_else(|| Fail::new("rtcp-compound-framing", "length fields do not tile the datagram"))?;
    ensure!(parts.len() == c.len(), "rtcp-compound-framing", "{} logical packets became {} wire packets", c.len(), parts.len());
    let mut cat = Vec::new();
    for p in &pkts {
        cat.extend(marshal_rtcp_packets(std::slice::from_ref(p)).map_err(|e| Fail::new("rtcp-marshal-rejected-wellformed", format!("{e}")))?);
    }
    ensure!(cat == w, "rtcp-compound-not-concatenation", "marshal(compound) differs from the concatenation of the single-packet marshals");
    // inverse law
    let back = parse_rtcp_packets(&w, None)
        .map_err(|e| Fail::new("rtcp-parse-rejected-own-output", format!("parse(marshal(x)) failed: {e}; x = {:?}", c)))?;
    ensure!(back.len() == c.len(), "rtcp-roundtrip-count", "parsed {} packets, marshalled {}", back.len(), c.len());
    for (i, (got, l)) in back.into_iter().zip(c.iter()).enumerate() {
        let got = normalise(got);
        let want = l.expected(true, false);
        ensure!(
            got == want,
            format!("rtcp-roundtrip-mismatch-{}", l.kind()),
            "packet {}: parse(marshal(x)) = {:?}, x = {:?}",
            i, got, want
        );
    }
    // the independent implementation reads the same fields
    for (i, l) in c.iter().enumerate() {
        let Some(want) = l.to_ref() else {
            rec.label("rtcp:not-representable-in-reference");
            continue;
        };
        let got = ref_parse_one(parts[i]).map_err(|e| {
            Fail::new(format!("rtcp-ref-rejects-{}", l.kind()), format!("packet {}: {e}; bytes {}", i, crate::engine::hex(&parts[i][..parts[i].len().min(96)])))
        })?;
        ref_same(&got, &want).map_err(|e| Fail::new(format!("rtcp-ref-fields-differ-{}", l.kind()), format!("packet {}: reference read vs logical: {e}", i)))?;
    }
    Ok(())
}

// ---------------------------------------------------------------- rtcp-wire

#[derive(Clone, Debug, Serialize, Deserialize)]
pub struct RtcpWireCase {
    pub pkts: Vec<RtcpL>,
    /// RTCP padding octets (multiple of 4) appended to the last packet with the P bit
    pub pad_last: u8,
    /// insert a packet of a type rustrtc does not model: (position selector, packet type 204|207, body words)
    pub unmodelled: Option<(u16, u8, u8)>,
}

pub fn rtcp_wire_strategy() -> impl Strategy<Value = RtcpWireCase> {
    (
        compound_strategy(true),
        prop_oneof![4 => Just(0u8), 1 => Just(4u8), 1 => Just(252u8), 1 => (1u8..=63).prop_map(|w| w * 4)],
        prop_oneof![3 => Just(None), 1 => (any::<u16>(), prop_oneof![Just(204u8), Just(207u8)], 0u8..4).prop_map(Some)],
    )
        .prop_map(|(pkts, pad_last, unmodelled)| RtcpWireCase { pkts, pad_last, unmodelled })
}

pub fn check_rtcp_wire(c: &RtcpWireCase, rec: &CaseRec) -> Check {
    compound_labels(&c.pkts, rec);
    // reference-marshalled packets
    let mut parts: Vec<(Vec<u8>, Option<usize>)> = Vec::new(); // (bytes, index into pkts or None for unmodelled)
    for (i, l) in c.pkts.iter().enumerate() {
        let r = l.to_ref().ok_or_else(|| Fail::new("harness-not-representable", "generator produced a value the reference cannot hold"))?;
        let b = match run_guarded(|| r.marshal()) {
            Some(Ok(b)) => b.to_vec(),
            other => return Err(Fail::new("harness-reference-marshal-failed", format!("{:?}: {:?}", l, other.map(|x| x.map(|_| ()))))),
        };
        parts.push((b, Some(i)));
    }
    // the reference ignores the P bit for several packet types (it would read the padding octets as
    // NACK pairs / FIR entries / profile extensions), so it always reads the unpadded packets
    let unpadded: Vec<Vec<u8>> = parts.iter().map(|p| p.0.clone()).collect();
    let mut padded = false;
    if c.pad_last != 0 {
        let last = parts.last_mut().unwrap();
        if let Some(b) = rtpwire::rtcp_add_padding(&last.0, c.pad_last) {
            last.0 = b;
            padded = true;
            rec.label("rtcpwire:padded-last-packet");
            if c.pad_last == 252 {
                rec.label("rtcpwire:padding=252");
            }
        }
    }
    if parts.iter().any(|p| p.0[0] & 0x20 != 0) {
        rec.label("rtcpwire:P-bit-present");
    }
    if let Some((pos, pt, words)) = c.unmodelled {
        // never after a padded last packet (RFC 3550: padding only on the last packet)
        let max = if padded { parts.len() - 1 } else { parts.len() };
        let at = crate::engine::pick(pos, max + 1);
        parts.insert(at, (rtpwire::rtcp_unmodelled(pt, 0x0102_0304, words), None));
        rec.label("rtcpwire:unmodelled-type-interleaved");
    }
    let w: Vec<u8> = parts.iter().flat_map(|p| p.0.iter().copied()).collect();
    let raw = parse_rtcp_packets(&w, None).map_err(|e| {
        Fail::new("rtcp-parse-rejected-canonical", format!("rustrtc rejects reference-marshalled compound: {e}; {:?}", c.pkts))
    })?;
    ensure!(raw.len() == c.pkts.len(), "rtcp-wire-count", "rustrtc parsed {} packets from a compound of {} modelled packets", raw.len(), c.pkts.len());
    for (i, (got, l)) in raw.iter().zip(c.pkts.iter()).enumerate() {
        let got = normalise(got.clone());
        let want = l.expected(false, true);
        ensure!(
            got == want,
            format!("rtcp-wire-fields-differ-{}", l.kind()),
            "packet {}: rustrtc parsed {:?} from reference bytes of {:?}",
            i, got, want
        );
    }
    // marshal(parse(w)) -> reference == reference(w), field by field
    let w2 = marshal_rtcp_packets(&raw).map_err(|e| Fail::new("rtcp-remarshal-rejected", format!("marshal(parse(w)) failed: {e}")))?;
    let parts2 = rtpwire::rtcp_split(&w2).ok_or_else(|| Fail::new("rtcp-compound-framing", "re-marshalled compound does not tile"))?;
    ensure!(parts2.len() == c.pkts.len(), "rtcp-compound-framing", "re-marshalled compound has {} packets", parts2.len());
    for (i, l) in c.pkts.iter().enumerate() {
        let a = ref_parse_one(&unpadded[i]).map_err(|e| Fail::new("harness-reference-rejects-own-output", format!("{:?}: {e}", l)))?;
        let b = ref_parse_one(parts2[i]).map_err(|e| Fail::new(format!("rtcp-ref-rejects-{}", l.kind()), format!("packet {}: {e}", i)))?;
        ref_same(&b, &a).map_err(|e| {
            Fail::new(format!("rtcp-remarshal-ref-fields-differ-{}", l.kind()), format!("packet {}: reference(marshal(parse(w))) vs reference(w): {e}", i))
        })?;
    }
    // whole-datagram parse by the reference agrees on the packet count
    let mut all = Bytes::from(w2.clone());
    match run_guarded(|| rtcp::packet::unmarshal(&mut all)) {
        Some(Ok(v)) => ensure!(v.len() == c.pkts.len(), "rtcp-compound-framing", "reference splits re-marshalled compound into {}", v.len()),
        other => return Err(Fail::new("rtcp-ref-rejects-compound", format!("{:?}", other.map(|x| x.map(|v| v.len()))))),
    }
    Ok(())
}

// ---------------------------------------------------------------- nack-pack

#[derive(Clone, Debug, Serialize, Deserialize)]
pub struct NackCase {
    pub lost: Vec<u16>,
}

pub fn check_nack_pack(c: &NackCase, rec: &CaseRec) -> Check {
    let set = sorted_set(&c.lost);
    let l = RtcpL::Nack { sender: 0x1111_2222, media: 0x3333_4444, lost: c.lost.clone() };
    rec.set_nontrivial(l.boundaries(rec));
    let w = marshal_rtcp_packets(&[l.to_rtc()]).map_err(|e| Fail::new("nack-marshal-rejected", format!("{e}")))?;
    ensure!(w.len() >= 16 && (w.len() - 12) % 4 == 0 && w[0] == 0x81 && w[1] == 205, "nack-wire-layout", "not an RFC 4585 generic NACK: {}", crate::engine::hex(&w[..w.len().min(32)]));
    ensure!(u16::from_be_bytes([w[2], w[3]]) as usize == w.len() / 4 - 1, "nack-wire-layout", "length field wrong");
    let pairs: Vec<(u16, u16)> = w[12..].chunks(4).map(|p| (u16::from_be_bytes([p[0], p[1]]), u16::from_be_bytes([p[2], p[3]]))).collect();
    let denoted = rtpwire::nack_expand(&pairs);
    ensure!(
        denoted == set,
        "nack-set-not-preserved",
        "lost set {:?} packed into pairs {:?} which denote {:?}",
        set, pairs, denoted
    );
    let back = parse_rtcp_packets(&w, None).map_err(|e| Fail::new("nack-parse-rejected", format!("{e}")))?;
    ensure!(back.len() == 1 && normalise(back[0].clone()) == l.expected(true, false), "nack-roundtrip-mismatch", "parse(marshal(nack)) = {:?}", back);
    let r = ref_parse_one(&w).map_err(|e| Fail::new("nack-ref-rejects", e))?;
    let rs = ref_nack_set(&r).ok_or_else(|| Fail::new("nack-ref-rejects", "reference did not see a NACK"))?;
    ensure!(rs == (0x1111_2222, 0x3333_4444, set.clone()), "nack-ref-set-differs", "reference reads {:?}, lost set {:?}", rs, set);
    // other encoders' packings of the same set (one wrap-crossing, one the reference's own) parse to the same set
    let mut sorted_in = set.clone();
    sorted_in.sort_unstable();
    let ref_pairs: Vec<(u16, u16)> = rtcp::transport_feedbacks::transport_layer_nack::nack_pairs_from_sequence_numbers(&sorted_in)
        .into_iter()
        .map(|p| (p.packet_id, p.lost_packets))
        .collect();
    for (name, ps) in [("circular", rtpwire::nack_pairs_circular(&c.lost)), ("reference", ref_pairs)] {
        let mut b = vec![0x81u8, 205, 0, 0];
        b.extend_from_slice(&0x1111_2222u32.to_be_bytes());
        b.extend_from_slice(&0x3333_4444u32.to_be_bytes());
        for (pid, blp) in &ps {
            b.extend_from_slice(&pid.to_be_bytes());
            b.extend_from_slice(&blp.to_be_bytes());
        }
        let words = (b.len() / 4 - 1) as u16;
        b[2..4].copy_from_slice(&words.to_be_bytes());
        let got = parse_rtcp_packets(&b, None).map_err(|e| Fail::new("nack-parse-rejected", format!("{name} packing: {e}")))?;
        let RtcpPacket::GenericNack(n) = &got[0] else {
            return Err(Fail::new("nack-parse-wrong-type", format!("{:?}", got)));
        };
        ensure!(
            sorted_set(&n.lost_packets) == set,
            "nack-parse-set-differs",
            "{} packing {:?} parsed to {:?}, want {:?}",
            name, ps, sorted_set(&n.lost_packets), set
        );
        if ps.iter().any(|(pid, blp)| *blp != 0 && (*pid as u32 + 16 - blp.leading_zeros()) > 65535) {
            rec.label("nack:wrap-crossing-pair-parsed");
        }
    }
    Ok(())
}

// ---------------------------------------------------------------- nack-pipeline

#[derive(Clone, Debug, Serialize, Deserialize)]
pub struct PipelineCase {
    /// sequence number of the first packet the sender sends
    pub start: u16,
    /// packets sent: start .. start+n_sent (wrapping)
    pub n_sent: u16,
    /// sender retransmission buffer capacity
    pub cap: u16,
    /// index of the last packet received before the hole
    pub a: u16,
    /// hole size (packets a+1 ..= a+gap are lost, a+gap+1 arrives)
    pub gap: u16,
    pub rtx: bool,
}

pub fn pipeline_strategy() -> impl Strategy<Value = PipelineCase> {
    (
        prop_oneof![3 => 65000u16..=65535, 1 => Just(0u16), 3 => any::<u16>()],
        prop_oneof![Just(1u16), Just(16), Just(17), Just(127), Just(128), Just(129), 1u16..=300],
        prop_oneof![Just(1u16), Just(512), 1u16..=400],
        0u16..40,
        any::<bool>(),
    )
        .prop_flat_map(|(start, gap, cap, a, rtx)| {
            // the sender sent everything up to the packet that reveals the hole, plus 0..5 more
            (Just((start, gap, cap, a, rtx)), 0u16..5)
        })
        .prop_map(|((start, gap, cap, a, rtx), extra)| PipelineCase { start, n_sent: a + gap + 2 + extra, cap, a, gap, rtx })
}

pub fn check_pipeline(c: &PipelineCase, rec: &CaseRec) -> Check {
    use rustrtc::peer_connection::{DefaultRtpReceiverNackHandler, DefaultRtpSenderNackHandler, RtpReceiverInterceptor, RtpSenderInterceptor};
    use rustrtc::rtp::{RtpHeader, RtpPacket};
    let addr: std::net::SocketAddr = "127.0.0.1:9".parse().unwrap();
    let ssrc = 0x0A0B_0C0D;
    let mk = |i: u16| -> RtpPacket {
        let mut h = RtpHeader::new(96, c.start.wrapping_add(i), 1000u32.wrapping_add(i as u32 * 90), ssrc);
        h.marker = i % 7 == 0;
        RtpPacket::new(h, vec![(i >> 8) as u8, i as u8, 0xAB, (i % 5) as u8])
    };
    let sender = DefaultRtpSenderNackHandler::new(c.cap as usize);
    if c.rtx {
        sender.set_rtx(Some(rustrtc::rtx::RtxSenderConfig { rtx_ssrc: 0x7777_0001, rtx_payload_type: 97 }));
    }
    for i in 0..c.n_sent {
        futures::executor::block_on(sender.on_packet_sent(&mk(i), addr, addr));
    }
    let receiver = DefaultRtpReceiverNackHandler::new();
    let first = futures::executor::block_on(receiver.on_packet_received(&mk(c.a), addr, addr));
    ensure!(first.is_none(), "receiver-nack-on-first-packet", "first packet produced feedback {:?}", first);
    let fb = futures::executor::block_on(receiver.on_packet_received(&mk(c.a + c.gap + 1), addr, addr));
    let Some(fb) = fb else {
        return Err(Fail::new("receiver-gap-no-nack", format!("hole of {} packets produced no NACK", c.gap)));
    };
    let RtcpPacket::GenericNack(n) = &fb else {
        return Err(Fail::new("receiver-gap-no-nack", format!("feedback is not a NACK: {:?}", fb)));
    };
    // model: the hole, limited to its most recent 128 members (documented cap)
    let hole: Vec<u16> = (1..=c.gap).map(|k| c.start.wrapping_add(c.a + k)).collect();
    let want_req: Vec<u16> = hole[hole.len().saturating_sub(128)..].to_vec();
    ensure!(
        sorted_set(&n.lost_packets) == sorted_set(&want_req) && n.media_ssrc == ssrc,
        "receiver-nack-wrong-set",
        "receiver asks for {:?} (media {:x}), hole is {:?}",
        n.lost_packets, n.media_ssrc, want_req
    );
    // over the wire
    let w = marshal_rtcp_packets(std::slice::from_ref(&fb)).map_err(|e| Fail::new("nack-marshal-rejected", format!("{e}")))?;
    let r = ref_parse_one(&w).map_err(|e| Fail::new("nack-ref-rejects", e))?;
    let rs = ref_nack_set(&r).ok_or_else(|| Fail::new("nack-ref-rejects", "not a NACK for the reference"))?;
    ensure!(rs.2 == sorted_set(&want_req), "nack-ref-set-differs", "reference reads {:?}, hole {:?}", rs.2, want_req);
    let parsed = parse_rtcp_packets(&w, None).map_err(|e| Fail::new("nack-parse-rejected", format!("{e}")))?;
    let RtcpPacket::GenericNack(pn) = &parsed[0] else {
        return Err(Fail::new("nack-parse-wrong-type", format!("{:?}", parsed)));
    };
    // the `now` argument only feeds the resend cooldown, which cannot trigger on a fresh handler
    let out = sender.packets_for_nack(&pn.lost_packets, std::time::Instant::now());
    // buffered = the last `cap` packets sent
    let first_buffered = c.n_sent.saturating_sub(c.cap.max(1));
    let want: Vec<u16> = (1..=c.gap)
        .filter(|k| *k + 128 > c.gap)
        .map(|k| c.a + k)
        .filter(|i| *i >= first_buffered)
        .collect();
    let mut got_idx: Vec<u16> = out.iter().map(|p| p.header.sequence_number.wrapping_sub(c.start)).collect();
    got_idx.sort_unstable();
    ensure!(
        got_idx == want,
        "nack-retransmit-selection-wrong",
        "packets_for_nack returned packet indices {:?}, buffered members of the hole are {:?} (sent {}, cap {}, hole {}..={})",
        got_idx, want, c.n_sent, c.cap, c.a + 1, c.a + c.gap
    );
    for p in &out {
        let i = p.header.sequence_number.wrapping_sub(c.start);
        ensure!(*p == mk(i), "nack-retransmit-packet-altered", "retransmission candidate {} differs from the packet sent", i);
        if c.rtx {
            let cfg = sender.rtx_config().unwrap();
            let x = rustrtc::rtx::wrap_rtx_packet(p, &cfg, i);
            let xw = x.marshal().map_err(|e| Fail::new("rtx-marshal-failed", format!("{e}")))?;
            let xp = RtpPacket::parse(&xw).map_err(|e| Fail::new("rtx-parse-failed", format!("{e}")))?;
            let u = rustrtc::rtx::unwrap_rtx_packet(&xp, ssrc, 96).ok_or_else(|| Fail::new("rtx-unwrap-none", "None"))?;
            ensure!(u == mk(i), "rtx-unwrap-mismatch", "RTX round trip of retransmitted packet {} changed it: {:?}", i, u);
        }
    }
    let wraps = c.start.checked_add(c.a + c.gap + 1).is_none();
    if wraps {
        rec.label("pipeline:hole-near-wrap");
    }
    if c.gap > 128 {
        rec.label("pipeline:hole>128-capped");
    }
    if want.len() < want_req.len() {
        rec.label("pipeline:partly-evicted");
    }
    if c.rtx {
        rec.label("pipeline:rtx");
    }
    rec.set_nontrivial(wraps || c.gap >= 17 || want.len() < want_req.len());
    Ok(())
}

// ---------------------------------------------------------------- oversize (values outside the RFC ranges)

#[derive(Clone, Debug, Serialize, Deserialize)]
pub enum OversizeCase {
    SdesText { len: u16, ty: u8, trailing_items: u8 },
    ByeReason { len: u16, sources: u8 },
    CountOver { kind: u8, n: u8 },
    RembSsrcs { n: u16 },
    LostOutOfRange { lost: i32 },
}

pub fn oversize_strategy() -> impl Strategy<Value = OversizeCase> {
    prop_oneof![
        4 => (prop_oneof![Just(256u16), Just(257), Just(511), Just(512), 256u16..=700], 1u8..=8, 0u8..=2)
            .prop_map(|(len, ty, trailing_items)| OversizeCase::SdesText { len, ty, trailing_items }),
        2 => (prop_oneof![Just(256u16), 256u16..=700], 0u8..=3).prop_map(|(len, sources)| OversizeCase::ByeReason { len, sources }),
        3 => (0u8..4, prop_oneof![Just(32u8), Just(33), Just(63), Just(64), 32u8..=70]).prop_map(|(kind, n)| OversizeCase::CountOver { kind, n }),
        1 => (256u16..=300).prop_map(|n| OversizeCase::RembSsrcs { n }),
        2 => prop_oneof![Just(i32::MIN), Just(i32::MAX), Just(1 << 23), Just(-(1 << 23) - 1), any::<i32>()]
            .prop_map(|lost| OversizeCase::LostOutOfRange { lost }),
    ]
}

fn ascii(len: usize) -> String {
    (0..len).map(|i| (b'a' + (i % 26) as u8) as char).collect()
}

/// Out-of-range logical values: marshal must either refuse, or emit a well-formed packet
/// that parses (in rustrtc and in the reference) to the value truncated/clamped to the RFC range.
pub fn check_oversize(c: &OversizeCase, rec: &CaseRec) -> Check {
    rec.nontrivial();
    let rbl = |i: u32| RbL { ssrc: i, fraction_lost: 1, packets_lost: 2, highest_sequence: 3, jitter: 4, lsr: 5, dlsr: 6 };
    let (input, truncated, sig): (RtcpL, RtcpL, &str) = match c {
        OversizeCase::SdesText { len, ty, trailing_items } => {
            rec.label("oversize:sdes-text>255");
            let mk = |n: usize| {
                let mut items = vec![SdesItemL { ty: *ty, text: ascii(n) }];
                for k in 0..*trailing_items {
                    items.push(SdesItemL { ty: 2 + k, text: "tail".into() });
                }
                RtcpL::Sdes { chunks: vec![SdesChunkL { ssrc: 0xCAFE, items }, SdesChunkL { ssrc: 0xBEEF, items: vec![SdesItemL { ty: 1, text: "b".into() }] }] }
            };
            (mk(*len as usize), mk(255), "oversize-sdes-text-corrupt-output")
        }
        OversizeCase::ByeReason { len, sources } => {
            rec.label("oversize:bye-reason>255");
            let s: Vec<u32> = (0..*sources as u32).collect();
            (
                RtcpL::Bye { sources: s.clone(), reason: Some(ascii(*len as usize)) },
                RtcpL::Bye { sources: s, reason: Some(ascii(255)) },
                "oversize-bye-reason-corrupt-output",
            )
        }
        OversizeCase::CountOver { kind, n } => {
            rec.label("oversize:count>31");
            let mk = |n: u32| match kind {
                0 => RtcpL::Sr { ssrc: 1, ntp_most: 2, ntp_least: 3, rtp_ts: 4, pc: 5, oc: 6, blocks: (0..n).map(rbl).collect() },
                1 => RtcpL::Rr { ssrc: 1, blocks: (0..n).map(rbl).collect() },
                2 => RtcpL::Sdes { chunks: (0..n).map(|i| SdesChunkL { ssrc: i, items: vec![SdesItemL { ty: 1, text: "c".into() }] }).collect() },
                _ => RtcpL::Bye { sources: (0..n).collect(), reason: None },
            };
            (mk(*n as u32), mk(31), "oversize-count-over-31-corrupt-output")
        }
        OversizeCase::RembSsrcs { n } => {
            rec.label("oversize:remb-ssrcs>255");
            let mk = |n: u32| RtcpL::Remb { sender: 1, bitrate: 1000, ssrcs: (0..n).collect() };
            (mk(*n as u32), mk(255), "oversize-remb-ssrcs-corrupt-output")
        }
        OversizeCase::LostOutOfRange { lost } => {
            rec.label("oversize:packets-lost-beyond-24-bit");
            let mk = |l: i32| RtcpL::Rr { ssrc: 9, blocks: vec![RbL { packets_lost: l, ..rbl(7) }] };
            (mk(*lost), mk((*lost).clamp(-(1 << 23), (1 << 23) - 1)), "oversize-packets-lost-corrupt-output")
        }
    };
    let w = match marshal_rtcp_packets(&[input.to_rtc()]) {
        Err(_) => {
            rec.label("oversize:marshal-refused");
            return Ok(());
        }
        Ok(w) => w,
    };
    rec.label("oversize:marshal-accepted");
    let want = truncated.expected(true, false);
    let describe = |what: String| -> Fail {
        Fail::new(sig, format!("{:?}: marshal returned Ok but {what}; first bytes {}", c, crate::engine::hex(&w[..w.len().min(24)])))
    };
    let parts = rtpwire::rtcp_split(&w).ok_or_else(|| describe("the length fields do not tile the output".into()))?;
    if parts.len() != 1 {
        return Err(describe(format!("the output frames as {} packets", parts.len())));
    }
    match parse_rtcp_packets(&w, None) {
        Err(e) => return Err(describe(format!("rustrtc cannot parse its own output: {e}"))),
        Ok(v) => {
            if v.len() != 1 || normalise(v[0].clone()) != want {
                let s = format!("{:?}", v);
                return Err(describe(format!("it parses back to something other than the value clamped to the RFC range: {}", &s[..s.len().min(300)])));
            }
        }
    }
    match ref_parse_one(&w) {
        Err(e) => Err(describe(format!("the reference rejects it: {e}"))),
        Ok(r) => {
            let t = truncated.to_ref().unwrap();
            ref_same(&r, &t).map_err(|e| describe(format!("the reference reads different fields: {}", &e[..e.len().min(300)])))
        }
    }
}

// ---------------------------------------------------------------- entry

pub fn run(ctx: &mut Ctx) {
    let n = |q: u32, t: u32| ctx.scale(q, t);
    ctx.sub("rtcp-roundtrip", n(30_000, 800_000), compound_strategy(false), check_rtcp_roundtrip);
    ctx.sub("rtcp-wire", n(30_000, 800_000), rtcp_wire_strategy(), check_rtcp_wire);
    ctx.sub("nack-pack", n(60_000, 2_000_000), nack_set_strategy().prop_map(|lost| NackCase { lost }), check_nack_pack);
    ctx.sub("nack-pipeline", n(8_000, 200_000), pipeline_strategy(), check_pipeline);
    ctx.sub("oversize", n(3_000, 60_000), oversize_strategy(), check_oversize);
}
