//! C16 — STUN/TURN messages and ICE priorities conform to the RFCs.
//!
//! Sub-checks (one clause of the statement each):
//!  * `encode`      rustrtc-built messages vs. webrtc-rs `stun`/`turn::proto` (decode, typed attribute
//!                  getters, MESSAGE-INTEGRITY under short-/long-term key, FINGERPRINT) and vs. the
//!                  harness' own RFC reader / HMAC-SHA1 / CRC-32 / MD5.
//!  * `decode`      reference-built messages decoded by rustrtc (method/class/id/attribute values,
//!                  IPv4+IPv6 XOR-MAPPED / XOR-PEER / XOR-RELAYED).
//!  * `candidate`   struct -> line -> struct round trip, line read by the harness' own grammar reader.
//!  * `cand-line`   canonical line -> struct -> line.
//!  * `cand-prio`   candidate priority formula of the public constructors (RFC 8445 §5.1.2.1).
//!  * `pair-prio`   pair priority: RFC 8445 §6.1.2.3 formula, controlling/controlled symmetry, and
//!                  identical ordering of a pair list on both agents.
//!  * `turn-session` the real TURN client (IceTransport + `turn:127.0.0.1:<port>`) against a scripted
//!                  fake TURN server on loopback; every byte the server receives is the test subject.

use crate::engine::{CaseRec, Check, Ctx, Fail};
use crate::ensure;
use crate::refimpl::stunwire as own;
use proptest::prelude::*;
use rustrtc::transports::ice::stun::{StunAttribute, StunClass, StunMessage, StunMethod};
use rustrtc::transports::ice::{IceCandidate, IceCandidatePair, IceCandidateType, IceRole, TcpType};
use serde::{Deserialize, Serialize};
use std::net::{IpAddr, Ipv4Addr, Ipv6Addr, SocketAddr};
use stun::attributes::*;
use stun::fingerprint::FINGERPRINT;
use stun::integrity::MessageIntegrity;
use stun::message::{
    CLASS_ERROR_RESPONSE, CLASS_INDICATION, CLASS_REQUEST, CLASS_SUCCESS_RESPONSE, Getter,
    METHOD_ALLOCATE, METHOD_BINDING, METHOD_CHANNEL_BIND, METHOD_CREATE_PERMISSION, METHOD_DATA,
    METHOD_REFRESH, METHOD_SEND, Message, MessageClass, MessageType, Method, Setter,
};
use stun::textattrs::TextAttribute;
use stun::xoraddr::XorMappedAddress;

pub mod session;

pub const SIG_RADDR: &str = "sdp-raddr-dropped";

// ------------------------------------------------------------------------------------------
// shared tables

pub const METHODS: [(StunMethod, Method, u16, &str); 7] = [
    (StunMethod::Binding, METHOD_BINDING, 0x001, "Binding"),
    (StunMethod::Allocate, METHOD_ALLOCATE, 0x003, "Allocate"),
    (StunMethod::Refresh, METHOD_REFRESH, 0x004, "Refresh"),
    (StunMethod::Send, METHOD_SEND, 0x006, "Send"),
    (StunMethod::Data, METHOD_DATA, 0x007, "Data"),
    (StunMethod::CreatePermission, METHOD_CREATE_PERMISSION, 0x008, "CreatePermission"),
    (StunMethod::ChannelBind, METHOD_CHANNEL_BIND, 0x009, "ChannelBind"),
];

pub const CLASSES: [(StunClass, MessageClass, u8, &str); 4] = [
    (StunClass::Request, CLASS_REQUEST, 0, "request"),
    (StunClass::Indication, CLASS_INDICATION, 1, "indication"),
    (StunClass::SuccessResponse, CLASS_SUCCESS_RESPONSE, 2, "success"),
    (StunClass::ErrorResponse, CLASS_ERROR_RESPONSE, 3, "error"),
];

#[derive(Clone, Debug, PartialEq, Eq, Serialize, Deserialize)]
pub enum Attr {
    Username(String),
    Realm(String),
    Nonce(String),
    Software(String),
    RequestedTransport(u8),
    Lifetime(u32),
    Priority(u32),
    IceControlling(u64),
    IceControlled(u64),
    UseCandidate,
    XorPeer(SocketAddr),
    XorMapped(SocketAddr),
    ChannelNumber(u16),
    Data(#[serde(with = "crate::engine::hexbytes")] Vec<u8>),
}

impl Attr {
    fn to_rustrtc(&self) -> StunAttribute {
        match self {
            Attr::Username(s) => StunAttribute::Username(s.clone()),
            Attr::Realm(s) => StunAttribute::Realm(s.clone()),
            Attr::Nonce(s) => StunAttribute::Nonce(s.clone()),
            Attr::Software(s) => StunAttribute::Software(s.clone()),
            Attr::RequestedTransport(v) => StunAttribute::RequestedTransport(*v),
            Attr::Lifetime(v) => StunAttribute::Lifetime(*v),
            Attr::Priority(v) => StunAttribute::Priority(*v),
            Attr::IceControlling(v) => StunAttribute::IceControlling(*v),
            Attr::IceControlled(v) => StunAttribute::IceControlled(*v),
            Attr::UseCandidate => StunAttribute::UseCandidate,
            Attr::XorPeer(a) => StunAttribute::XorPeerAddress(*a),
            Attr::XorMapped(a) => StunAttribute::XorMappedAddress(*a),
            Attr::ChannelNumber(v) => StunAttribute::ChannelNumber(*v),
            Attr::Data(d) => StunAttribute::Data(d.clone()),
        }
    }

    /// (attribute type, value bytes) the RFCs prescribe (RFC 5389 §15, RFC 5766 §14, RFC 8445 §16.1).
    pub fn expected_tlv(&self, txid: &[u8; 12]) -> (u16, Vec<u8>) {
        match self {
            Attr::Username(s) => (0x0006, s.as_bytes().to_vec()),
            Attr::Realm(s) => (0x0014, s.as_bytes().to_vec()),
            Attr::Nonce(s) => (0x0015, s.as_bytes().to_vec()),
            Attr::Software(s) => (0x8022, s.as_bytes().to_vec()),
            Attr::RequestedTransport(p) => (0x0019, vec![*p, 0, 0, 0]),
            Attr::Lifetime(v) => (0x000D, v.to_be_bytes().to_vec()),
            Attr::Priority(v) => (0x0024, v.to_be_bytes().to_vec()),
            Attr::IceControlling(v) => (0x802A, v.to_be_bytes().to_vec()),
            Attr::IceControlled(v) => (0x8029, v.to_be_bytes().to_vec()),
            Attr::UseCandidate => (0x0025, Vec::new()),
            Attr::XorPeer(a) => (0x0012, own::xor_addr_value(a, txid)),
            Attr::XorMapped(a) => (0x0020, own::xor_addr_value(a, txid)),
            Attr::ChannelNumber(n) => (0x000C, vec![(n >> 8) as u8, *n as u8, 0, 0]),
            Attr::Data(d) => (0x0013, d.clone()),
        }
    }

    fn unaligned(&self) -> bool {
        match self {
            Attr::Username(s) | Attr::Realm(s) | Attr::Nonce(s) | Attr::Software(s) => s.len() % 4 != 0,
            Attr::Data(d) => d.len() % 4 != 0,
            _ => false,
        }
    }

    fn v6(&self) -> bool {
        matches!(self, Attr::XorPeer(a) | Attr::XorMapped(a) if a.is_ipv6())
    }
}

#[derive(Clone, Debug, PartialEq, Eq, Serialize, Deserialize)]
pub enum Key {
    None,
    /// short-term credential: key = password (RFC 5389 §15.4)
    Short(String),
    /// long-term credential: key = MD5(user ":" realm ":" password)
    Long { user: String, realm: String, pass: String },
}

impl Key {
    /// key bytes computed by the harness' own MD5 (never by rustrtc or the reference)
    pub fn bytes(&self) -> Option<Vec<u8>> {
        match self {
            Key::None => None,
            Key::Short(p) => Some(p.as_bytes().to_vec()),
            Key::Long { user, realm, pass } => Some(own::long_term_key(user, realm, pass)),
        }
    }
    pub fn reference(&self) -> Option<MessageIntegrity> {
        match self {
            Key::None => None,
            Key::Short(p) => Some(MessageIntegrity::new_short_term_integrity(p.clone())),
            Key::Long { user, realm, pass } => Some(MessageIntegrity::new_long_term_integrity(
                user.clone(),
                realm.clone(),
                pass.clone(),
            )),
        }
    }
    fn label(&self) -> &'static str {
        match self {
            Key::None => "key=none",
            Key::Short(_) => "key=short-term",
            Key::Long { .. } => "key=long-term",
        }
    }
}

// ------------------------------------------------------------------------------------------
// generic strategies

fn txid_strategy() -> impl Strategy<Value = [u8; 12]> {
    prop_oneof![
        1 => Just([0u8; 12]),
        1 => Just([0xFFu8; 12]),
        1 => Just([0x21, 0x12, 0xA4, 0x42, 0x21, 0x12, 0xA4, 0x42, 0x21, 0x12, 0xA4, 0x42]),
        9 => any::<[u8; 12]>(),
    ]
}

fn text_len(max: usize) -> impl Strategy<Value = usize> {
    let m = max;
    prop_oneof![
        3 => 0usize..=8,
        2 => 9usize..=40,
        1 => prop::sample::select(vec![127usize, 128, 129, 254, 255, 256, 257, 509, 510, 511, 512, 513, 760, 761, 762, 763])
            .prop_map(move |n| n.min(m)),
        1 => 0usize..=max,
        1 => max.saturating_sub(5)..=max,
    ]
}

/// text of an exact byte length (ASCII) or a UTF-8 text (multi-byte) of bounded byte length
fn text(max: usize) -> impl Strategy<Value = String> {
    prop_oneof![
        6 => text_len(max).prop_flat_map(|n| prop::collection::vec(0x20u8..0x7F, n))
            .prop_map(|v| String::from_utf8(v).unwrap()),
        1 => prop::collection::vec(prop::sample::select(vec!['é', 'ß', '中', '𝄞', 'a', ':', ' ', '"']), 0..24)
            .prop_map(|v| v.into_iter().collect::<String>()),
    ]
    .prop_map(move |s: String| {
        let mut s = s;
        while s.len() > max {
            s.pop();
        }
        s
    })
}

fn v4_strategy() -> impl Strategy<Value = SocketAddr> {
    let ip = prop_oneof![
        1 => Just(Ipv4Addr::new(0, 0, 0, 0)),
        1 => Just(Ipv4Addr::new(255, 255, 255, 255)),
        1 => Just(Ipv4Addr::new(127, 0, 0, 1)),
        1 => Just(Ipv4Addr::new(0x21, 0x12, 0xA4, 0x42)),
        1 => Just(Ipv4Addr::new(192, 168, 1, 2)),
        5 => any::<[u8; 4]>().prop_map(Ipv4Addr::from),
    ];
    (ip, port_strategy()).prop_map(|(ip, p)| SocketAddr::new(IpAddr::V4(ip), p))
}

fn v6_strategy() -> impl Strategy<Value = SocketAddr> {
    let ip = prop_oneof![
        1 => Just(Ipv6Addr::UNSPECIFIED),
        1 => Just(Ipv6Addr::LOCALHOST),
        1 => Just(Ipv6Addr::from([0xFFu8; 16])),
        1 => Just(Ipv6Addr::new(0xfe80, 0, 0, 0, 0, 0, 0, 1)),
        1 => Just(Ipv6Addr::new(0x2001, 0xdb8, 0, 0, 0, 0, 0, 0x42)),
        1 => any::<[u8; 4]>().prop_map(|v| Ipv4Addr::from(v).to_ipv6_mapped()),
        1 => any::<[u8; 12]>().prop_map(|t| {
            let mut b = [0u8; 16];
            b[..4].copy_from_slice(&own::MAGIC.to_be_bytes());
            b[4..].copy_from_slice(&t);
            Ipv6Addr::from(b)
        }),
        6 => any::<[u8; 16]>().prop_map(Ipv6Addr::from),
    ];
    (ip, port_strategy()).prop_map(|(ip, p)| SocketAddr::new(IpAddr::V6(ip), p))
}

fn port_strategy() -> impl Strategy<Value = u16> {
    prop_oneof![
        1 => Just(0u16),
        1 => Just(1u16),
        1 => Just(9u16),
        1 => Just(0x2112u16),
        1 => Just(3478u16),
        1 => Just(65535u16),
        6 => any::<u16>(),
    ]
}

pub fn addr_strategy() -> impl Strategy<Value = SocketAddr> {
    prop_oneof![v4_strategy(), v6_strategy()]
}

fn u32_edge() -> impl Strategy<Value = u32> {
    prop_oneof![
        1 => Just(0u32),
        1 => Just(1u32),
        1 => Just(600u32),
        1 => Just(0x7FFF_FFFFu32),
        1 => Just(0x8000_0000u32),
        1 => Just(u32::MAX),
        1 => Just(2_130_706_431u32),
        5 => any::<u32>(),
    ]
}

fn u64_edge() -> impl Strategy<Value = u64> {
    prop_oneof![1 => Just(0u64), 1 => Just(u64::MAX), 1 => Just(1u64 << 63), 5 => any::<u64>()]
}

fn data_strategy() -> impl Strategy<Value = Vec<u8>> {
    prop_oneof![
        3 => 0usize..=9,
        2 => 10usize..=200,
        1 => prop::sample::select(vec![1197usize, 1198, 1199, 1200]),
        1 => 0usize..=1200,
    ]
    .prop_flat_map(|n| prop::collection::vec(any::<u8>(), n))
}

fn attr_strategy() -> impl Strategy<Value = Attr> {
    prop_oneof![
        3 => text(513).prop_map(Attr::Username),
        3 => text(763).prop_map(Attr::Realm),
        3 => text(763).prop_map(Attr::Nonce),
        2 => text(763).prop_map(Attr::Software),
        1 => prop_oneof![Just(17u8), Just(6u8), any::<u8>()].prop_map(Attr::RequestedTransport),
        2 => u32_edge().prop_map(Attr::Lifetime),
        2 => u32_edge().prop_map(Attr::Priority),
        1 => u64_edge().prop_map(Attr::IceControlling),
        1 => u64_edge().prop_map(Attr::IceControlled),
        1 => Just(Attr::UseCandidate),
        3 => addr_strategy().prop_map(Attr::XorPeer),
        3 => addr_strategy().prop_map(Attr::XorMapped),
        1 => prop_oneof![Just(0x4000u16), Just(0x7FFFu16), 0x4000u16..=0x7FFF, any::<u16>()].prop_map(Attr::ChannelNumber),
        2 => data_strategy().prop_map(Attr::Data),
    ]
}

fn password_strategy() -> impl Strategy<Value = String> {
    prop_oneof![
        1 => Just(String::new()),
        4 => prop::collection::vec(prop::sample::select("abcdefghijklmnopqrstuvwxyzABCDEFGHIJKLMNOPQRSTUVWXYZ0123456789+/".chars().collect::<Vec<_>>()), 22..=32)
            .prop_map(|v| v.into_iter().collect::<String>()),
        1 => prop::sample::select(vec![63usize, 64, 65, 128, 256]).prop_flat_map(|n| prop::collection::vec(0x21u8..0x7F, n))
            .prop_map(|v| String::from_utf8(v).unwrap()),
        2 => text(80),
    ]
}

fn long_key_strategy() -> impl Strategy<Value = (String, String, String)> {
    (
        prop_oneof![3 => text(64), 1 => Just("1700000000:alice".to_string()), 1 => text(513)],
        prop_oneof![3 => text(48), 1 => Just("example.org".to_string()), 1 => text(763)],
        password_strategy(),
    )
}

// ------------------------------------------------------------------------------------------
// sub-check `encode`

#[derive(Clone, Copy, Debug, PartialEq, Eq, Serialize, Deserialize)]
pub enum Via {
    /// `StunMessage { .. }` literal
    Literal,
    /// `StunMessage::binding_request(tx, software)` + pushed attributes
    BindingRequest,
    /// `StunMessage::binding_success_response(tx, addr)`
    BindingSuccess,
    /// `StunMessage::allocate_request(tx, attrs)`
    AllocateRequest,
}

#[derive(Clone, Debug, Serialize, Deserialize)]
pub struct EncCase {
    pub shape: String,
    pub via: Via,
    pub method: u8,
    pub class: u8,
    pub txid: [u8; 12],
    pub attrs: Vec<Attr>,
    pub key: Key,
    pub fingerprint: bool,
}

fn idx_of(m: StunMethod) -> u8 {
    METHODS.iter().position(|x| x.0 == m).unwrap() as u8
}

fn enc_case_strategy() -> impl Strategy<Value = EncCase> {
    let key_any = prop_oneof![
        2 => Just(Key::None),
        3 => password_strategy().prop_map(Key::Short),
        3 => long_key_strategy().prop_map(|(user, realm, pass)| Key::Long { user, realm, pass }),
    ];
    // free-form: every method x class x attribute multiset
    let free = (0u8..7, 0u8..4, txid_strategy(), prop::collection::vec(attr_strategy(), 0..8), key_any, any::<bool>())
        .prop_map(|(method, class, txid, attrs, key, fingerprint)| EncCase {
            shape: "free".into(),
            via: Via::Literal,
            method,
            class,
            txid,
            attrs,
            key,
            fingerprint,
        });
    // the ICE connectivity check as built by perform_binding_check
    let ufrag = || prop::collection::vec(prop::sample::select("abcdefghijklmnopqrstuvwxyz0123456789+/".chars().collect::<Vec<_>>()), 4..=16)
        .prop_map(|v| v.into_iter().collect::<String>());
    let ice = (txid_strategy(), ufrag(), ufrag(), u32_edge(), any::<bool>(), u64_edge(), any::<bool>(), password_strategy())
        .prop_map(|(txid, a, b, prio, controlling, tie, usecand, pwd)| {
            let mut attrs = vec![
                Attr::Software("rustrtc".into()),
                Attr::Username(format!("{a}:{b}")),
                Attr::Priority(prio),
            ];
            if controlling {
                attrs.push(Attr::IceControlling(tie));
                if usecand {
                    attrs.push(Attr::UseCandidate);
                }
            } else {
                attrs.push(Attr::IceControlled(tie));
            }
            EncCase {
                shape: "ice-check".into(),
                via: Via::BindingRequest,
                method: idx_of(StunMethod::Binding),
                class: 0,
                txid,
                attrs,
                key: Key::Short(pwd),
                fingerprint: true,
            }
        });
    let gather = (txid_strategy(), prop::option::of(text(763))).prop_map(|(txid, sw)| EncCase {
        shape: "gather-binding".into(),
        via: Via::BindingRequest,
        method: idx_of(StunMethod::Binding),
        class: 0,
        txid,
        attrs: sw.into_iter().map(Attr::Software).collect(),
        key: Key::None,
        fingerprint: true,
    });
    let success = (txid_strategy(), addr_strategy(), password_strategy()).prop_map(|(txid, a, pwd)| EncCase {
        shape: "binding-success".into(),
        via: Via::BindingSuccess,
        method: idx_of(StunMethod::Binding),
        class: 2,
        txid,
        attrs: vec![Attr::XorMapped(a)],
        key: Key::Short(pwd),
        fingerprint: true,
    });
    // TURN requests as built by turn.rs
    let turn = (
        0u8..7,
        txid_strategy(),
        long_key_strategy(),
        text(763),
        addr_strategy(),
        0x4000u16..=0x7FFF,
        data_strategy(),
        any::<bool>(),
    )
        .prop_map(|(kind, txid, (user, realm, pass), nonce, peer, chan, data, lifetime0)| {
            let auth = vec![Attr::Username(user.clone()), Attr::Realm(realm.clone()), Attr::Nonce(nonce)];
            let key = Key::Long { user, realm, pass };
            let (shape, via, method, class, attrs, key, fp): (&str, Via, StunMethod, u8, Vec<Attr>, Key, bool) = match kind {
                0 => (
                    "turn-allocate-unauth",
                    Via::AllocateRequest,
                    StunMethod::Allocate,
                    0,
                    vec![Attr::RequestedTransport(17), Attr::Lifetime(600)],
                    Key::None,
                    true,
                ),
                1 => {
                    let mut a = vec![Attr::RequestedTransport(17), Attr::Lifetime(600)];
                    a.extend(auth);
                    ("turn-allocate-auth", Via::AllocateRequest, StunMethod::Allocate, 0, a, key, true)
                }
                2 => {
                    let mut a = auth;
                    a.push(Attr::XorPeer(peer));
                    ("turn-create-permission", Via::Literal, StunMethod::CreatePermission, 0, a, key, true)
                }
                3 => {
                    let mut a = vec![Attr::Lifetime(if lifetime0 { 0 } else { 600 })];
                    a.extend(auth);
                    ("turn-refresh", Via::Literal, StunMethod::Refresh, 0, a, key, true)
                }
                4 => {
                    let mut a = vec![Attr::ChannelNumber(chan), Attr::XorPeer(peer)];
                    a.extend(auth);
                    ("turn-channel-bind", Via::Literal, StunMethod::ChannelBind, 0, a, key, true)
                }
                5 => {
                    let mut a = auth;
                    a.push(Attr::XorPeer(peer));
                    a.push(Attr::Data(data));
                    ("turn-send-indication-auth", Via::Literal, StunMethod::Send, 1, a, key, true)
                }
                _ => (
                    "turn-send-indication",
                    Via::Literal,
                    StunMethod::Send,
                    1,
                    vec![Attr::XorPeer(peer), Attr::Data(data)],
                    Key::None,
                    false,
                ),
            };
            EncCase { shape: shape.into(), via, method: idx_of(method), class, txid, attrs, key, fingerprint: fp }
        });
    prop_oneof![6 => free, 2 => ice, 1 => gather, 1 => success, 4 => turn]
}

/// Build the message through the rustrtc constructor named in the case.
fn build_rustrtc(c: &EncCase) -> StunMessage {
    let (method, ..) = METHODS[(c.method as usize).min(6)];
    let (class, ..) = CLASSES[(c.class as usize).min(3)];
    let attrs: Vec<StunAttribute> = c.attrs.iter().map(|a| a.to_rustrtc()).collect();
    match c.via {
        Via::BindingRequest if method == StunMethod::Binding && class == StunClass::Request => {
            let (sw, rest): (Option<&str>, &[Attr]) = match c.attrs.first() {
                Some(Attr::Software(s)) => (Some(s.as_str()), &c.attrs[1..]),
                _ => (None, &c.attrs[..]),
            };
            let mut m = StunMessage::binding_request(c.txid, sw);
            for a in rest {
                m.attributes.push(a.to_rustrtc());
            }
            m
        }
        Via::BindingSuccess
            if method == StunMethod::Binding
                && class == StunClass::SuccessResponse
                && matches!(c.attrs.as_slice(), [Attr::XorMapped(_)]) =>
        {
            let Attr::XorMapped(a) = &c.attrs[0] else { unreachable!() };
            StunMessage::binding_success_response(c.txid, *a)
        }
        Via::AllocateRequest if method == StunMethod::Allocate && class == StunClass::Request => {
            StunMessage::allocate_request(c.txid, attrs)
        }
        _ => StunMessage { class, method, transaction_id: c.txid, attributes: attrs },
    }
}

/// Everything the statement demands of one rustrtc-built datagram. `expected` is the attribute list
/// (without MESSAGE-INTEGRITY / FINGERPRINT) the message must carry, in order.
pub fn check_built_message(
    bytes: &[u8],
    method_idx: usize,
    class_idx: usize,
    txid: Option<&[u8; 12]>,
    expected: &[Attr],
    key: &Key,
    fingerprint: bool,
) -> Check {
    let (_, ref_method, method_num, method_name) = METHODS[method_idx];
    let (_, ref_class, class_num, class_name) = CLASSES[class_idx];

    // (a) harness' own strict RFC 5389 reader
    let wire = own::parse_strict(bytes).map_err(|e| Fail::new("enc-malformed", format!("own RFC 5389 reader rejects the message: {e}; bytes {}", crate::engine::hex(bytes))))?;
    ensure!(wire.method == method_num, "enc-method-bits", "method bits {:#05x}, expected {} {:#05x}", wire.method, method_name, method_num);
    ensure!(wire.class == class_num, "enc-class-bits", "class bits {}, expected {} {}", wire.class, class_name, class_num);
    let txid = match txid {
        Some(t) => {
            ensure!(&wire.txid == t, "enc-txid", "transaction id {:02x?}, expected {:02x?}", wire.txid, t);
            *t
        }
        None => wire.txid,
    };
    let mut exp: Vec<(u16, Vec<u8>)> = expected.iter().map(|a| a.expected_tlv(&txid)).collect();
    let n_plain = exp.len();
    let key_bytes = key.bytes();
    if key_bytes.is_some() {
        exp.push((0x0008, Vec::new()));
    }
    if fingerprint {
        exp.push((0x8028, Vec::new()));
    }
    ensure!(
        wire.attrs.len() == exp.len(),
        "enc-attr-count",
        "{} attributes on the wire {:04x?}, expected {} {:04x?}",
        wire.attrs.len(),
        wire.attrs.iter().map(|a| a.typ).collect::<Vec<_>>(),
        exp.len(),
        exp.iter().map(|a| a.0).collect::<Vec<_>>()
    );
    for (i, (w, e)) in wire.attrs.iter().zip(exp.iter()).enumerate() {
        ensure!(w.typ == e.0, "enc-attr-type", "attribute #{i} has type {:#06x}, expected {:#06x}", w.typ, e.0);
        if i < n_plain {
            ensure!(
                w.value == e.1,
                format!("enc-attr-value-{:04x}", e.0),
                "attribute #{i} type {:#06x}: value {} expected {}",
                w.typ,
                crate::engine::hex(&w.value),
                crate::engine::hex(&e.1)
            );
            // padding bytes: RFC 5389 §15 allows any value, RFC 8489 §14 says SHOULD be zero — not checked.
        }
    }
    if let Some(k) = &key_bytes {
        let mi = &wire.attrs[n_plain];
        ensure!(mi.value.len() == 20, "enc-mi-size", "MESSAGE-INTEGRITY is {} bytes", mi.value.len());
        let want = own::expected_integrity(bytes, mi.offset, k);
        ensure!(
            mi.value == want,
            "enc-mi-own-hmac",
            "MESSAGE-INTEGRITY {} != own HMAC-SHA1 {} (key {})",
            crate::engine::hex(&mi.value),
            crate::engine::hex(&want),
            crate::engine::hex(k)
        );
    }
    if fingerprint {
        let fp = wire.attrs.last().unwrap();
        ensure!(fp.value.len() == 4, "enc-fp-size", "FINGERPRINT is {} bytes", fp.value.len());
        let want = own::expected_fingerprint(bytes, fp.offset);
        let got = u32::from_be_bytes([fp.value[0], fp.value[1], fp.value[2], fp.value[3]]);
        ensure!(got == want, "enc-fp-own-crc", "FINGERPRINT {got:#010x} != own CRC-32 xor {want:#010x}");
    }

    // (b) reference decoder
    ensure!(stun::message::is_message(bytes), "enc-ref-not-stun", "reference is_message() says no");
    let mut m = Message::new();
    m.write(bytes).map_err(|e| Fail::new("enc-ref-decode", format!("reference decode failed: {e}")))?;
    ensure!(m.typ.method == ref_method, "enc-ref-method", "reference decodes method {} expected {}", m.typ.method, method_name);
    ensure!(m.typ.class == ref_class, "enc-ref-class", "reference decodes class {} expected {}", m.typ.class, class_name);
    ensure!(m.transaction_id.0 == txid, "enc-ref-txid", "reference decodes transaction id {:02x?}", m.transaction_id.0);
    ensure!(m.length as usize + 20 == bytes.len(), "enc-ref-length", "reference length {} for {} bytes", m.length, bytes.len());
    ensure!(m.attributes.0.len() == exp.len(), "enc-ref-attr-count", "reference sees {} attributes, expected {}", m.attributes.0.len(), exp.len());
    for (i, a) in expected.iter().enumerate() {
        let raw = &m.attributes.0[i];
        let e = &exp[i];
        ensure!(raw.typ.value() == e.0, "enc-ref-attr-type", "reference attribute #{i} is {} expected {:#06x}", raw.typ, e.0);
        ensure!(raw.value == e.1, format!("enc-ref-attr-value-{:04x}", e.0), "reference attribute #{i} {} value {} expected {}", raw.typ, crate::engine::hex(&raw.value), crate::engine::hex(&e.1));
        // typed getter of the reference on this very attribute
        let mut single = Message::new();
        single.transaction_id = m.transaction_id;
        single.write_header();
        single.add(raw.typ, &raw.value);
        typed_reference_check(&single, a).map_err(|e| Fail::new(format!("enc-ref-typed-{:04x}", raw.typ.value()), format!("reference typed getter on attribute #{i}: {e}")))?;
    }
    if let Some(refkey) = key.reference() {
        // the reference's own key derivation must agree with the harness' MD5
        ensure!(Some(&refkey.0) == key_bytes.as_ref(), "harness-md5-disagrees", "own key {:?} vs reference key {:?}", key_bytes, refkey.0);
        let mut mm = m.clone();
        refkey.check(&mut mm).map_err(|e| Fail::new("enc-ref-mi-check", format!("reference MessageIntegrity::check failed: {e}")))?;
    } else {
        ensure!(!m.contains(ATTR_MESSAGE_INTEGRITY), "enc-unexpected-mi", "MESSAGE-INTEGRITY present although no key was given");
    }
    if fingerprint {
        FINGERPRINT.check(&m).map_err(|e| Fail::new("enc-ref-fp-check", format!("reference FINGERPRINT.check failed: {e}")))?;
    } else {
        ensure!(!m.contains(ATTR_FINGERPRINT), "enc-unexpected-fp", "FINGERPRINT present although not requested");
    }
    Ok(())
}

fn typed_reference_check(m: &Message, a: &Attr) -> Result<(), String> {
    use turn::proto::{channum::ChannelNumber, data::Data, lifetime::Lifetime, peeraddr::PeerAddress, reqtrans::RequestedTransport};
    let es = |e: stun::Error| e.to_string();
    match a {
        Attr::Username(s) | Attr::Realm(s) | Attr::Nonce(s) | Attr::Software(s) => {
            let t = match a {
                Attr::Username(_) => ATTR_USERNAME,
                Attr::Realm(_) => ATTR_REALM,
                Attr::Nonce(_) => ATTR_NONCE,
                _ => ATTR_SOFTWARE,
            };
            let got = TextAttribute::get_from_as(m, t).map_err(es)?;
            if &got.text != s {
                return Err(format!("text {:?} expected {:?}", got.text, s));
            }
        }
        Attr::RequestedTransport(p) => {
            let mut g = RequestedTransport::default();
            g.get_from(m).map_err(es)?;
            if g.protocol.0 != *p {
                return Err(format!("protocol {} expected {}", g.protocol.0, p));
            }
        }
        Attr::Lifetime(v) => {
            let mut g = Lifetime::default();
            g.get_from(m).map_err(es)?;
            if g.0.as_secs() != *v as u64 {
                return Err(format!("lifetime {:?} expected {}", g.0, v));
            }
        }
        Attr::Priority(v) => {
            let raw = m.get(ATTR_PRIORITY).map_err(es)?;
            if raw.len() != 4 || u32::from_be_bytes([raw[0], raw[1], raw[2], raw[3]]) != *v {
                return Err(format!("priority bytes {:02x?} expected {}", raw, v));
            }
        }
        Attr::IceControlling(v) | Attr::IceControlled(v) => {
            let t = if matches!(a, Attr::IceControlling(_)) { ATTR_ICE_CONTROLLING } else { ATTR_ICE_CONTROLLED };
            let raw = m.get(t).map_err(es)?;
            if raw.len() != 8 || u64::from_be_bytes(raw[..8].try_into().unwrap()) != *v {
                return Err(format!("tie-breaker bytes {:02x?} expected {}", raw, v));
            }
        }
        Attr::UseCandidate => {
            let raw = m.get(ATTR_USE_CANDIDATE).map_err(es)?;
            if !raw.is_empty() {
                return Err("USE-CANDIDATE carries a value".into());
            }
        }
        Attr::XorPeer(addr) => {
            let mut g = PeerAddress::default();
            g.get_from(m).map_err(es)?;
            if g.ip != addr.ip() || g.port != addr.port() {
                return Err(format!("peer {} expected {}", g, addr));
            }
        }
        Attr::XorMapped(addr) => {
            let mut g = XorMappedAddress::default();
            g.get_from(m).map_err(es)?;
            if g.ip != addr.ip() || g.port != addr.port() {
                return Err(format!("mapped {} expected {}", g, addr));
            }
        }
        Attr::ChannelNumber(n) => {
            let mut g = ChannelNumber::default();
            g.get_from(m).map_err(es)?;
            if g.0 != *n {
                return Err(format!("channel {} expected {}", g.0, n));
            }
        }
        Attr::Data(d) => {
            let mut g = Data::default();
            g.get_from(m).map_err(es)?;
            if &g.0 != d {
                return Err(format!("data {} bytes expected {}", g.0.len(), d.len()));
            }
        }
    }
    Ok(())
}

fn check_encode(c: &EncCase, rec: &CaseRec) -> Check {
    let method_idx = (c.method as usize).min(6);
    let class_idx = (c.class as usize).min(3);
    let msg = build_rustrtc(c);
    let key_bytes = c.key.bytes();
    let bytes = msg
        .encode(key_bytes.as_deref(), c.fingerprint)
        .map_err(|e| Fail::new("enc-encode-error", format!("encode returned an error: {e}")))?;

    rec.set_nontrivial(c.attrs.len() >= 2 || c.attrs.iter().any(|a| a.unaligned() || a.v6()));
    rec.label(format!("enc:shape={}", c.shape));
    rec.label(format!("enc:{}", c.key.label()));
    rec.label(format!("enc:method={}", METHODS[method_idx].3));
    rec.label(format!("enc:class={}", CLASSES[class_idx].3));
    if c.attrs.iter().any(|a| a.unaligned()) {
        rec.label("enc:unaligned-value");
    }
    if c.attrs.iter().any(|a| a.v6()) {
        rec.label("enc:ipv6");
    }
    if c.attrs.iter().any(|a| matches!(a, Attr::XorPeer(x) | Attr::XorMapped(x) if x.is_ipv4())) {
        rec.label("enc:ipv4");
    }
    if c.fingerprint {
        rec.label("enc:fingerprint");
    }
    if bytes.len() > 1200 {
        rec.label("enc:len>1200");
    }

    check_built_message(&bytes, method_idx, class_idx, Some(&c.txid), &c.attrs, &c.key, c.fingerprint)?;

    // bonus: rustrtc reads back what it wrote (fields its decoder exposes; first occurrence is
    // not demanded — the decoder keeps the last — so only checked when the type occurs once)
    let d = StunMessage::decode(&bytes).map_err(|e| Fail::new("enc-self-decode", format!("rustrtc cannot decode its own message: {e}")))?;
    ensure!(d.method == METHODS[method_idx].0 && d.class == CLASSES[class_idx].0 && d.transaction_id == c.txid, "enc-self-header", "rustrtc decodes its own header as {:?}/{:?}/{:02x?}", d.method, d.class, d.transaction_id);
    let once = |f: &dyn Fn(&Attr) -> bool| c.attrs.iter().filter(|a| f(a)).count() == 1;
    for a in &c.attrs {
        match a {
            Attr::XorMapped(x) if once(&|a| matches!(a, Attr::XorMapped(_))) => {
                ensure!(d.xor_mapped_address == Some(*x), "enc-self-xor-mapped", "self-decode XOR-MAPPED {:?} expected {}", d.xor_mapped_address, x)
            }
            Attr::XorPeer(x) if once(&|a| matches!(a, Attr::XorPeer(_))) => {
                ensure!(d.xor_peer_address == Some(*x), "enc-self-xor-peer", "self-decode XOR-PEER {:?} expected {}", d.xor_peer_address, x)
            }
            Attr::Realm(s) if once(&|a| matches!(a, Attr::Realm(_))) => {
                ensure!(d.realm.as_deref() == Some(s.as_str()), "enc-self-realm", "self-decode REALM {:?}", d.realm)
            }
            Attr::Nonce(s) if once(&|a| matches!(a, Attr::Nonce(_))) => {
                ensure!(d.nonce.as_deref() == Some(s.as_str()), "enc-self-nonce", "self-decode NONCE {:?}", d.nonce)
            }
            Attr::Data(v) if once(&|a| matches!(a, Attr::Data(_))) => {
                ensure!(d.data.as_ref() == Some(v), "enc-self-data", "self-decode DATA differs")
            }
            Attr::Lifetime(v) if once(&|a| matches!(a, Attr::Lifetime(_))) => {
                ensure!(d.lifetime == Some(*v), "enc-self-lifetime", "self-decode LIFETIME {:?} expected {}", d.lifetime, v)
            }
            _ => {}
        }
    }
    ensure!(d.use_candidate == c.attrs.iter().any(|a| matches!(a, Attr::UseCandidate)), "enc-self-use-candidate", "self-decode USE-CANDIDATE {}", d.use_candidate);
    Ok(())
}

// ------------------------------------------------------------------------------------------
// sub-check `decode` (reference builds, rustrtc reads)

#[derive(Clone, Debug, PartialEq, Eq, Serialize, Deserialize)]
pub enum RAttr {
    XorMapped(SocketAddr),
    XorPeer(SocketAddr),
    XorRelayed(SocketAddr),
    ErrorCode { code: u16, reason: String },
    Realm(String),
    Nonce(String),
    Data(#[serde(with = "crate::engine::hexbytes")] Vec<u8>),
    Lifetime(u32),
    UseCandidate,
    // attributes rustrtc's decoder does not expose; they must not disturb the others
    Username(String),
    Software(String),
    Priority(u32),
    ChannelNumber(u16),
    RequestedTransport(u8),
    Unknown { typ: u16, #[serde(with = "crate::engine::hexbytes")] value: Vec<u8> },
}

impl RAttr {
    fn kind(&self) -> u8 {
        match self {
            RAttr::XorMapped(_) => 0,
            RAttr::XorPeer(_) => 1,
            RAttr::XorRelayed(_) => 2,
            RAttr::ErrorCode { .. } => 3,
            RAttr::Realm(_) => 4,
            RAttr::Nonce(_) => 5,
            RAttr::Data(_) => 6,
            RAttr::Lifetime(_) => 7,
            RAttr::UseCandidate => 8,
            RAttr::Username(_) => 9,
            RAttr::Software(_) => 10,
            RAttr::Priority(_) => 11,
            RAttr::ChannelNumber(_) => 12,
            RAttr::RequestedTransport(_) => 13,
            RAttr::Unknown { .. } => 14,
        }
    }
}

#[derive(Clone, Debug, Serialize, Deserialize)]
pub struct DecCase {
    pub method: u8,
    pub class: u8,
    pub txid: [u8; 12],
    pub attrs: Vec<RAttr>,
    pub key: Key,
    pub fingerprint: bool,
}

fn rattr_strategy() -> impl Strategy<Value = RAttr> {
    prop_oneof![
        4 => addr_strategy().prop_map(RAttr::XorMapped),
        4 => addr_strategy().prop_map(RAttr::XorPeer),
        4 => addr_strategy().prop_map(RAttr::XorRelayed),
        3 => (prop_oneof![Just(300u16), Just(400), Just(401), Just(403), Just(420), Just(437), Just(438), Just(441), Just(442), Just(486), Just(487), Just(500), Just(508), Just(699), 300u16..700], text(120))
            .prop_map(|(code, reason)| RAttr::ErrorCode { code, reason }),
        3 => text(763).prop_map(RAttr::Realm),
        3 => text(763).prop_map(RAttr::Nonce),
        2 => data_strategy().prop_map(RAttr::Data),
        2 => u32_edge().prop_map(RAttr::Lifetime),
        1 => Just(RAttr::UseCandidate),
        1 => text(513).prop_map(RAttr::Username),
        1 => text(763).prop_map(RAttr::Software),
        1 => u32_edge().prop_map(RAttr::Priority),
        1 => (0x4000u16..=0x7FFF).prop_map(RAttr::ChannelNumber),
        1 => Just(RAttr::RequestedTransport(17)),
        // comprehension-optional range, avoiding SOFTWARE/FINGERPRINT/ICE-* and friends
        2 => (0xC000u16..=0xFFFF, prop::collection::vec(any::<u8>(), 0..24)).prop_map(|(typ, value)| RAttr::Unknown { typ, value }),
    ]
}

fn dec_case_strategy() -> impl Strategy<Value = DecCase> {
    (
        0u8..7,
        0u8..4,
        txid_strategy(),
        prop::collection::vec(rattr_strategy(), 0..8),
        prop_oneof![
            2 => Just(Key::None),
            1 => password_strategy().prop_map(Key::Short),
            1 => long_key_strategy().prop_map(|(user, realm, pass)| Key::Long { user, realm, pass }),
        ],
        any::<bool>(),
    )
        .prop_map(|(method, class, txid, attrs, key, fingerprint)| {
            // one attribute of each kind (RFC 5389 §15: only the first occurrence need be processed;
            // which one a reader keeps is not part of the statement)
            let mut seen = [false; 15];
            let attrs = attrs
                .into_iter()
                .filter(|a| {
                    let k = a.kind() as usize;
                    let keep = k == 14 || !seen[k];
                    seen[k] = true;
                    keep
                })
                .collect();
            DecCase { method, class, txid, attrs, key, fingerprint }
        })
}

pub fn build_reference(method_idx: usize, class_idx: usize, txid: [u8; 12], attrs: &[RAttr], key: &Key, fingerprint: bool) -> Result<Vec<u8>, String> {
    use stun::error_code::{ErrorCode, ErrorCodeAttribute};
    use turn::proto::{channum::ChannelNumber, data::Data, lifetime::Lifetime, peeraddr::PeerAddress, relayaddr::RelayedAddress, reqtrans::RequestedTransport};
    let es = |e: stun::Error| e.to_string();
    let mut m = Message::new();
    m.set_type(MessageType::new(METHODS[method_idx].1, CLASSES[class_idx].1));
    m.transaction_id = stun::agent::TransactionId(txid);
    m.write_header();
    for a in attrs {
        match a {
            RAttr::XorMapped(x) => XorMappedAddress { ip: x.ip(), port: x.port() }.add_to(&mut m).map_err(es)?,
            RAttr::XorPeer(x) => PeerAddress { ip: x.ip(), port: x.port() }.add_to(&mut m).map_err(es)?,
            RAttr::XorRelayed(x) => RelayedAddress { ip: x.ip(), port: x.port() }.add_to(&mut m).map_err(es)?,
            RAttr::ErrorCode { code, reason } => ErrorCodeAttribute { code: ErrorCode(*code), reason: reason.as_bytes().to_vec() }.add_to(&mut m).map_err(es)?,
            RAttr::Realm(s) => TextAttribute::new(ATTR_REALM, s.clone()).add_to(&mut m).map_err(es)?,
            RAttr::Nonce(s) => TextAttribute::new(ATTR_NONCE, s.clone()).add_to(&mut m).map_err(es)?,
            RAttr::Username(s) => TextAttribute::new(ATTR_USERNAME, s.clone()).add_to(&mut m).map_err(es)?,
            RAttr::Software(s) => TextAttribute::new(ATTR_SOFTWARE, s.clone()).add_to(&mut m).map_err(es)?,
            RAttr::Data(d) => Data(d.clone()).add_to(&mut m).map_err(es)?,
            RAttr::Lifetime(v) => Lifetime(std::time::Duration::from_secs(*v as u64)).add_to(&mut m).map_err(es)?,
            RAttr::UseCandidate => m.add(ATTR_USE_CANDIDATE, &[]),
            RAttr::Priority(v) => m.add(ATTR_PRIORITY, &v.to_be_bytes()),
            RAttr::ChannelNumber(n) => ChannelNumber(*n).add_to(&mut m).map_err(es)?,
            RAttr::RequestedTransport(p) => RequestedTransport { protocol: turn::proto::Protocol(*p) }.add_to(&mut m).map_err(es)?,
            RAttr::Unknown { typ, value } => m.add(AttrType(*typ), value),
        }
    }
    if let Some(k) = key.reference() {
        k.add_to(&mut m).map_err(es)?;
    }
    if fingerprint {
        FINGERPRINT.add_to(&mut m).map_err(es)?;
    }
    Ok(m.raw.clone())
}

fn check_decode(c: &DecCase, rec: &CaseRec) -> Check {
    let method_idx = (c.method as usize).min(6);
    let class_idx = (c.class as usize).min(3);
    let bytes = build_reference(method_idx, class_idx, c.txid, &c.attrs, &c.key, c.fingerprint)
        .map_err(|e| Fail::new("harness-reference-build", format!("reference could not build the message: {e}")))?;
    // the reference's output must itself be a well-formed RFC 5389 message (guards the oracle)
    own::parse_strict(&bytes).map_err(|e| Fail::new("harness-reference-malformed", e))?;

    let v6 = c.attrs.iter().any(|a| matches!(a, RAttr::XorMapped(x) | RAttr::XorPeer(x) | RAttr::XorRelayed(x) if x.is_ipv6()));
    let v4 = c.attrs.iter().any(|a| matches!(a, RAttr::XorMapped(x) | RAttr::XorPeer(x) | RAttr::XorRelayed(x) if x.is_ipv4()));
    let unaligned = c.attrs.iter().any(|a| match a {
        RAttr::Realm(s) | RAttr::Nonce(s) | RAttr::Username(s) | RAttr::Software(s) => s.len() % 4 != 0,
        RAttr::ErrorCode { reason, .. } => reason.len() % 4 != 0,
        RAttr::Data(d) => d.len() % 4 != 0,
        RAttr::Unknown { value, .. } => value.len() % 4 != 0,
        _ => false,
    });
    rec.set_nontrivial(c.attrs.len() >= 2 || v6 || unaligned);
    rec.label(format!("dec:method={}", METHODS[method_idx].3));
    rec.label(format!("dec:class={}", CLASSES[class_idx].3));
    if v6 {
        rec.label("dec:ipv6");
    }
    if v4 {
        rec.label("dec:ipv4");
    }
    if unaligned {
        rec.label("dec:unaligned-value");
    }
    for a in &c.attrs {
        match a {
            RAttr::XorMapped(x) => rec.label(format!("dec:xor-mapped-{}", if x.is_ipv6() { "v6" } else { "v4" })),
            RAttr::XorPeer(x) => rec.label(format!("dec:xor-peer-{}", if x.is_ipv6() { "v6" } else { "v4" })),
            RAttr::XorRelayed(x) => rec.label(format!("dec:xor-relayed-{}", if x.is_ipv6() { "v6" } else { "v4" })),
            RAttr::ErrorCode { .. } => rec.label("dec:error-code"),
            _ => {}
        }
    }

    let d = StunMessage::decode(&bytes).map_err(|e| Fail::new("dec-rejected", format!("rustrtc rejects a reference-built message: {e}; bytes {}", crate::engine::hex(&bytes))))?;
    ensure!(d.method == METHODS[method_idx].0, "dec-method", "method {:?} expected {}", d.method, METHODS[method_idx].3);
    ensure!(d.class == CLASSES[class_idx].0, "dec-class", "class {:?} expected {}", d.class, CLASSES[class_idx].3);
    ensure!(d.transaction_id == c.txid, "dec-txid", "transaction id {:02x?} expected {:02x?}", d.transaction_id, c.txid);

    let find = |k: u8| c.attrs.iter().find(|a| a.kind() == k);
    let addr_of = |a: Option<&RAttr>| match a {
        Some(RAttr::XorMapped(x)) | Some(RAttr::XorPeer(x)) | Some(RAttr::XorRelayed(x)) => Some(*x),
        _ => None,
    };
    let fam = |a: Option<SocketAddr>| match a {
        Some(x) if x.is_ipv6() => "v6",
        _ => "v4",
    };
    let e = addr_of(find(0));
    ensure!(d.xor_mapped_address == e, format!("dec-xor-mapped-{}", fam(e)), "XOR-MAPPED-ADDRESS {:?} expected {:?}", d.xor_mapped_address, e);
    let e = addr_of(find(1));
    ensure!(d.xor_peer_address == e, format!("dec-xor-peer-{}", fam(e)), "XOR-PEER-ADDRESS {:?} expected {:?}", d.xor_peer_address, e);
    let e = addr_of(find(2));
    ensure!(d.xor_relayed_address == e, format!("dec-xor-relayed-{}", fam(e)), "XOR-RELAYED-ADDRESS {:?} expected {:?}", d.xor_relayed_address, e);
    let e = match find(3) {
        Some(RAttr::ErrorCode { code, .. }) => Some(*code),
        _ => None,
    };
    ensure!(d.error_code == e, "dec-error-code", "ERROR-CODE {:?} expected {:?}", d.error_code, e);
    let e = match find(4) {
        Some(RAttr::Realm(s)) => Some(s.clone()),
        _ => None,
    };
    ensure!(d.realm == e, "dec-realm", "REALM {:?} expected {:?}", d.realm, e);
    let e = match find(5) {
        Some(RAttr::Nonce(s)) => Some(s.clone()),
        _ => None,
    };
    ensure!(d.nonce == e, "dec-nonce", "NONCE {:?} expected {:?}", d.nonce, e);
    let e = match find(6) {
        Some(RAttr::Data(v)) => Some(v.clone()),
        _ => None,
    };
    ensure!(d.data == e, "dec-data", "DATA {:?} bytes expected {:?} bytes", d.data.as_ref().map(|v| v.len()), e.as_ref().map(|v| v.len()));
    let e = match find(7) {
        Some(RAttr::Lifetime(v)) => Some(*v),
        _ => None,
    };
    ensure!(d.lifetime == e, "dec-lifetime", "LIFETIME {:?} expected {:?}", d.lifetime, e);
    ensure!(d.use_candidate == find(8).is_some(), "dec-use-candidate", "USE-CANDIDATE {} expected {}", d.use_candidate, find(8).is_some());
    Ok(())
}

// ------------------------------------------------------------------------------------------
// sub-checks `candidate`, `cand-line`

#[derive(Clone, Debug, Serialize, Deserialize)]
pub struct CandCase {
    pub foundation: String,
    pub component: u16,
    pub tcp: bool,
    /// 0 none, 1 active, 2 passive, 3 so (only meaningful with tcp)
    pub tcptype: u8,
    pub priority: u32,
    pub address: SocketAddr,
    /// 0 host, 1 srflx, 2 prflx, 3 relay
    pub typ: u8,
    pub related: Option<SocketAddr>,
}

const TYPES: [(IceCandidateType, &str); 4] = [
    (IceCandidateType::Host, "host"),
    (IceCandidateType::ServerReflexive, "srflx"),
    (IceCandidateType::PeerReflexive, "prflx"),
    (IceCandidateType::Relay, "relay"),
];

fn tcptype_of(i: u8) -> Option<(TcpType, &'static str)> {
    match i {
        1 => Some((TcpType::Active, "active")),
        2 => Some((TcpType::Passive, "passive")),
        3 => Some((TcpType::So, "so")),
        _ => None,
    }
}

fn cand_case_strategy() -> impl Strategy<Value = CandCase> {
    let foundation = prop_oneof![
        2 => prop::collection::vec(prop::sample::select("abcdefghijklmnopqrstuvwxyzABCDEFGHIJKLMNOPQRSTUVWXYZ0123456789+/".chars().collect::<Vec<_>>()), 1..=32)
            .prop_map(|v| v.into_iter().collect::<String>()),
        1 => any::<u64>().prop_map(|v| format!("{v:x}")),
        1 => any::<u32>().prop_map(|v| v.to_string()),
    ];
    let component = prop_oneof![4 => Just(1u16), 2 => Just(2u16), 1 => Just(256u16), 1 => 1u16..=256];
    let priority = prop_oneof![
        1 => Just(1u32),
        1 => Just(0x7FFF_FFFFu32),
        1 => Just(2_130_706_431u32),
        1 => Just(1_694_498_815u32),
        1 => Just(16_777_215u32),
        1 => Just(u32::MAX),
        1 => Just(0u32),
        5 => any::<u32>(),
    ];
    (
        foundation,
        component,
        prop::bool::weighted(0.35),
        0u8..4,
        priority,
        addr_strategy(),
        0u8..4,
        prop::option::weighted(0.6, addr_strategy()),
    )
        .prop_map(|(foundation, component, tcp, tcptype, priority, address, typ, related)| CandCase {
            foundation,
            component,
            tcp,
            tcptype: if tcp { tcptype } else { 0 },
            priority,
            address,
            typ,
            related,
        })
}

fn cand_of(c: &CandCase) -> IceCandidate {
    IceCandidate {
        foundation: c.foundation.clone(),
        priority: c.priority,
        address: c.address,
        typ: TYPES[(c.typ as usize).min(3)].0,
        transport: if c.tcp { "tcp".into() } else { "udp".into() },
        tcp_type: if c.tcp { tcptype_of(c.tcptype).map(|t| t.0) } else { None },
        related_address: c.related,
        component: c.component,
    }
}

fn cand_labels(c: &CandCase, rec: &CaseRec, p: &str) {
    rec.label(format!("{p}:typ={}", TYPES[(c.typ as usize).min(3)].1));
    rec.label(format!("{p}:{}", if c.tcp { "tcp" } else { "udp" }));
    if c.tcp {
        rec.label(format!("{p}:tcptype={}", tcptype_of(c.tcptype).map(|t| t.1).unwrap_or("absent")));
    }
    rec.label(format!("{p}:{}", if c.address.is_ipv6() { "v6" } else { "v4" }));
    if c.related.is_some() && c.typ != 0 {
        rec.label(format!("{p}:with-raddr"));
    }
    if c.component != 1 {
        rec.label(format!("{p}:component!=1"));
    }
}

/// Compare every field of `got` with what the line carried. The related-address comparison comes
/// last so that any other difference alarms under its own signature even while `sdp-raddr-dropped`
/// is a known finding.
fn compare_candidate(got: &IceCandidate, want: &IceCandidate, related_on_line: Option<SocketAddr>, line: &str) -> Check {
    ensure!(got.foundation == want.foundation, "sdp-foundation", "foundation {:?} expected {:?} (line {line:?})", got.foundation, want.foundation);
    ensure!(got.component == want.component, "sdp-component", "component {} expected {} (line {line:?})", got.component, want.component);
    ensure!(got.transport == want.transport, "sdp-transport", "transport {:?} expected {:?} (line {line:?})", got.transport, want.transport);
    ensure!(got.priority == want.priority, "sdp-priority", "priority {} expected {} (line {line:?})", got.priority, want.priority);
    ensure!(got.address == want.address, "sdp-address", "address {} expected {} (line {line:?})", got.address, want.address);
    ensure!(got.typ == want.typ, "sdp-type", "type {:?} expected {:?} (line {line:?})", got.typ, want.typ);
    ensure!(got.tcp_type == want.tcp_type, "sdp-tcptype", "tcptype {:?} expected {:?} (line {line:?})", got.tcp_type, want.tcp_type);
    if got.related_address != related_on_line {
        let sig = if got.related_address.is_none() { SIG_RADDR } else { "sdp-raddr-wrong" };
        return Err(Fail::new(
            sig,
            format!("line {line:?} carries raddr/rport {:?} but from_sdp yields related_address {:?}", related_on_line, got.related_address),
        ));
    }
    Ok(())
}

fn check_candidate(c: &CandCase, rec: &CaseRec) -> Check {
    let cand = cand_of(c);
    let line = cand.to_sdp();
    rec.nontrivial();
    cand_labels(c, rec, "cand");

    // the line, read by the harness' grammar reader, carries exactly the struct's fields
    let p = own::parse_candidate_line(&line).map_err(|e| Fail::new("sdp-line-malformed", format!("to_sdp produced {line:?}: {e}")))?;
    ensure!(p.foundation == c.foundation, "sdp-line-foundation", "line {line:?}");
    ensure!(p.component == c.component as u32, "sdp-line-component", "line {line:?}");
    ensure!(p.transport.eq_ignore_ascii_case(if c.tcp { "tcp" } else { "udp" }), "sdp-line-transport", "line {line:?}");
    ensure!(p.priority == c.priority as u64, "sdp-line-priority", "line {line:?}");
    ensure!(p.ip == c.address.ip() && p.port == c.address.port(), "sdp-line-address", "line {line:?} for {}", c.address);
    ensure!(p.typ == TYPES[(c.typ as usize).min(3)].1, "sdp-line-type", "line {line:?}");
    let want_tt = if c.tcp { tcptype_of(c.tcptype).map(|t| t.1) } else { None };
    let got_tt = p.ext.iter().find(|e| e.0 == "tcptype").map(|e| e.1.as_str());
    ensure!(got_tt == want_tt, "sdp-line-tcptype", "line {line:?} tcptype {:?} expected {:?}", got_tt, want_tt);
    let related_on_line = match (p.raddr, p.rport) {
        (Some(ip), Some(port)) => Some(SocketAddr::new(ip, port)),
        (None, None) => None,
        _ => return Err(Fail::new("sdp-line-half-raddr", format!("line {line:?} has only one of raddr/rport"))),
    };
    if c.typ != 0 {
        // RFC 5245 §15.1: raddr/rport MUST be present for srflx, prflx and relay candidates
        // when the candidate has a related address to convey
        ensure!(related_on_line == c.related, "sdp-line-raddr", "line {line:?} raddr/rport {:?}, struct has {:?}", related_on_line, c.related);
    }
    if p.rel_after_ext {
        rec.label("cand:raddr-after-extension(grammar-order)");
    }

    let back = IceCandidate::from_sdp(&line).map_err(|e| Fail::new("sdp-own-line-rejected", format!("from_sdp rejects to_sdp output {line:?}: {e}")))?;
    compare_candidate(&back, &cand, related_on_line, &line)?;
    // fixed point: the re-serialised candidate is the same line
    ensure!(back.to_sdp() == line, "sdp-not-idempotent", "to_sdp(from_sdp(l)) = {:?} for l = {line:?}", back.to_sdp());
    Ok(())
}

/// Canonical line, built from the grammar (RFC 5245 §15.1 order: related address before extensions).
fn canonical_line(c: &CandCase, prefix: bool) -> String {
    let mut s = String::new();
    if prefix {
        s.push_str("candidate:");
    }
    s.push_str(&format!(
        "{} {} {} {} {} {} typ {}",
        c.foundation,
        c.component,
        if c.tcp { "tcp" } else { "udp" },
        c.priority,
        c.address.ip(),
        c.address.port(),
        TYPES[(c.typ as usize).min(3)].1
    ));
    if c.typ != 0 {
        if let Some(r) = c.related {
            s.push_str(&format!(" raddr {} rport {}", r.ip(), r.port()));
        }
    }
    if c.tcp {
        if let Some((_, t)) = tcptype_of(c.tcptype) {
            s.push_str(&format!(" tcptype {t}"));
        }
    }
    s
}

#[derive(Clone, Debug, Serialize, Deserialize)]
pub struct LineCase {
    pub cand: CandCase,
    /// 0: canonical; 1: "candidate:" prefix; 2: upper-case transport; 3: browser extensions appended
    pub flavour: u8,
}

fn check_cand_line(lc: &LineCase, rec: &CaseRec) -> Check {
    let c = &lc.cand;
    let mut line = canonical_line(c, lc.flavour == 1);
    if lc.flavour == 2 {
        line = line.replacen(" udp ", " UDP ", 1).replacen(" tcp ", " TCP ", 1);
    }
    if lc.flavour == 3 {
        line.push_str(" generation 0 ufrag Ab3d network-id 1 network-cost 10");
    }
    rec.nontrivial();
    cand_labels(c, rec, "line");
    rec.label(format!("line:flavour={}", ["canonical", "candidate:-prefix", "uppercase-transport", "browser-extensions"][(lc.flavour as usize).min(3)]));

    let mut want = cand_of(c);
    let related_on_line = if c.typ != 0 { c.related } else { None };
    want.related_address = related_on_line;
    let got = IceCandidate::from_sdp(&line).map_err(|e| Fail::new("sdp-valid-line-rejected", format!("from_sdp rejects {line:?}: {e}")))?;
    let cmp = compare_candidate(&got, &want, related_on_line, &line);
    match &cmp {
        Err(f) if f.signature != SIG_RADDR => return cmp,
        _ => {}
    }
    if lc.flavour == 0 {
        let out = got.to_sdp();
        if cmp.is_ok() {
            // RFC-order and rustrtc-order differ only for tcp + raddr; accept either serialisation
            // of the same fields, demand identity otherwise
            let same_fields = own::parse_candidate_line(&out).ok().map(|mut p| {
                p.rel_after_ext = false;
                p.ext.sort();
                p
            }) == own::parse_candidate_line(&line).ok().map(|mut p| {
                p.rel_after_ext = false;
                p.ext.sort();
                p
            });
            if c.tcp && related_on_line.is_some() {
                ensure!(same_fields, "sdp-line-roundtrip-mismatch", "to_sdp(from_sdp(l)) = {out:?} for canonical l = {line:?}");
            } else {
                ensure!(out == line, "sdp-line-roundtrip-mismatch", "to_sdp(from_sdp(l)) = {out:?} for canonical l = {line:?}");
            }
        } else {
            // known raddr loss: everything else on the line must still round-trip
            let stripped = {
                let mut cc = c.clone();
                cc.related = None;
                canonical_line(&cc, false)
            };
            ensure!(out == stripped, "sdp-line-roundtrip-mismatch", "to_sdp(from_sdp(l)) = {out:?} for canonical l = {line:?} (beyond the dropped raddr/rport)");
        }
    }
    cmp
}

// ------------------------------------------------------------------------------------------
// sub-check `cand-prio`

#[derive(Clone, Debug, Serialize, Deserialize)]
pub struct CandPrioCase {
    pub address: SocketAddr,
    pub component: u16,
    /// 0 udp host, 1..=3 tcp host active/passive/so, 4..=6 same through `IceCandidate::tcp(.., &str)`
    pub ctor: u8,
}

fn check_cand_prio(c: &CandPrioCase, rec: &CaseRec) -> Check {
    let cand = match c.ctor {
        0 => IceCandidate::host(c.address, c.component),
        1..=3 => IceCandidate::host_tcp(c.address, c.component, tcptype_of(c.ctor).unwrap().0),
        _ => IceCandidate::tcp(c.address, c.component, tcptype_of(c.ctor - 3).map(|t| t.1).unwrap_or("passive")),
    };
    rec.nontrivial();
    rec.label(format!("prio:ctor={}", c.ctor));
    let p = cand.priority;
    // RFC 8445 §5.1.2.1: priority = 2^24*type-pref + 2^8*local-pref + (256 - component), in 1..2^31-1
    ensure!(p >= 1 && p <= 0x7FFF_FFFF, "cand-prio-range", "priority {p} outside 1..=2^31-1 for {cand:?}");
    let type_pref = p >> 24;
    let local_pref = (p >> 8) & 0xFFFF;
    let comp_part = p & 0xFF;
    ensure!(type_pref == 126, "cand-prio-type-pref", "host candidate type preference {type_pref}, RFC 8445 §5.1.2.2 recommends 126");
    ensure!(comp_part == 256 - c.component as u32, "cand-prio-component", "component part {comp_part} for component {}", c.component);
    ensure!(local_pref > 0, "cand-prio-local-pref", "local preference 0");
    ensure!(cand.component == c.component && cand.address == c.address && cand.typ == IceCandidateType::Host, "cand-ctor-fields", "constructor changed fields: {cand:?}");
    let exp_transport = if c.ctor == 0 { "udp" } else { "tcp" };
    ensure!(cand.transport == exp_transport, "cand-ctor-transport", "transport {:?}", cand.transport);
    // same constructor, lower component id => strictly higher priority (RTP before RTCP)
    if c.component < 256 {
        let other = match c.ctor {
            0 => IceCandidate::host(c.address, c.component + 1),
            1..=3 => IceCandidate::host_tcp(c.address, c.component + 1, tcptype_of(c.ctor).unwrap().0),
            _ => IceCandidate::tcp(c.address, c.component + 1, tcptype_of(c.ctor - 3).map(|t| t.1).unwrap_or("passive")),
        };
        ensure!(other.priority < p, "cand-prio-component-order", "component {} priority {} !< component {} priority {}", c.component + 1, other.priority, c.component, p);
        ensure!(other.foundation == cand.foundation, "cand-foundation-differs", "same type/base/transport must share a foundation (RFC 8445 §5.1.1.3): {:?} vs {:?}", other.foundation, cand.foundation);
    }
    Ok(())
}

// ------------------------------------------------------------------------------------------
// sub-check `pair-prio`

#[derive(Clone, Debug, Serialize, Deserialize)]
pub struct PairCase {
    /// (priority of the controlling agent's candidate, priority of the controlled agent's candidate)
    pub pairs: Vec<(u32, u32)>,
}

fn prio_value() -> impl Strategy<Value = u32> {
    prop_oneof![
        1 => Just(0u32),
        1 => Just(1u32),
        1 => Just(2u32),
        1 => Just(0x7FFF_FFFEu32),
        1 => Just(0x7FFF_FFFFu32),
        1 => Just(0x8000_0000u32),
        1 => Just(u32::MAX - 1),
        1 => Just(u32::MAX),
        1 => Just(2_130_706_431u32),
        1 => Just(2_130_706_430u32),
        1 => Just(1_694_498_815u32),
        1 => Just(16_777_215u32),
        3 => (0u32..4, prop_oneof![Just(65535u32), Just(65534u32), any::<u16>().prop_map(|v| v as u32)], 1u32..=256)
            .prop_map(|(t, l, c)| ([126u32, 110, 100, 0][t as usize] << 24) | (l << 8) | (256 - c)),
        4 => any::<u32>(),
    ]
}

fn pair_case_strategy() -> impl Strategy<Value = PairCase> {
    let pair = prop_oneof![
        8 => (prio_value(), prio_value()),
        1 => prio_value().prop_map(|v| (v, v)),
        1 => (prio_value(), any::<bool>()).prop_map(|(v, up)| if up { (v, v.saturating_add(1)) } else { (v, v.saturating_sub(1)) }),
    ]
    // RFC 8445 §5.1.2: priorities are 1..2^31-1. (2^32-1, 2^32-1) is the single point of the u32 x u32
    // domain whose RFC value (2^64 + 2^32 - 2) does not fit the u64 return type; no local candidate
    // can have that priority, so it is outside the callers' domain.
    .prop_map(|(g, d)| if g == u32::MAX && d == u32::MAX { (g, d - 1) } else { (g, d) });
    // 60 % of the lists stay inside the RFC range 1..2^31-1 (where the formula is injective), the rest
    // roam over all of u32
    (prop::bool::weighted(0.6), prop::collection::vec(pair, 1..12)).prop_map(|(rfc_range, pairs)| PairCase {
        pairs: if rfc_range { pairs.into_iter().map(|(g, d)| ((g & 0x7FFF_FFFF).max(1), (d & 0x7FFF_FFFF).max(1))).collect() } else { pairs },
    })
}

fn dummy_cand(priority: u32, port: u16) -> IceCandidate {
    IceCandidate {
        foundation: "1".into(),
        priority,
        address: SocketAddr::new(IpAddr::V4(Ipv4Addr::new(10, 0, 0, 1)), port),
        typ: IceCandidateType::Host,
        transport: "udp".into(),
        tcp_type: None,
        related_address: None,
        component: 1,
    }
}

fn rfc_pair_priority(g: u32, d: u32) -> u128 {
    let (g, d) = (g as u128, d as u128);
    (1u128 << 32) * g.min(d) + 2 * g.max(d) + if g > d { 1 } else { 0 }
}

fn check_pair_prio(c: &PairCase, rec: &CaseRec) -> Check {
    rec.set_nontrivial(c.pairs.len() >= 2 || c.pairs.iter().any(|(g, d)| g != d));
    rec.label(format!("pair:n={}", if c.pairs.len() == 1 { "1" } else if c.pairs.len() <= 4 { "2-4" } else { "5+" }));
    if c.pairs.iter().any(|(g, d)| g == d) {
        rec.label("pair:equal-priorities");
    }
    if c.pairs.iter().any(|(g, d)| *g > 0x7FFF_FFFF || *d > 0x7FFF_FFFF || *g == 0 || *d == 0) {
        rec.label("pair:outside-rfc-range");
    } else {
        rec.label("pair:rfc-range");
    }
    let mut ing: Vec<(u64, usize)> = Vec::new();
    let mut ed: Vec<(u64, usize)> = Vec::new();
    let mut rfc: Vec<(u128, usize)> = Vec::new();
    for (i, (g, d)) in c.pairs.iter().enumerate() {
        // controlling agent: local = its own candidate (G), remote = the peer's (D)
        let at_controlling = IceCandidatePair::new(dummy_cand(*g, 1000 + i as u16), dummy_cand(*d, 2000 + i as u16));
        // controlled agent sees the same pair with local/remote swapped
        let at_controlled = IceCandidatePair::new(dummy_cand(*d, 2000 + i as u16), dummy_cand(*g, 1000 + i as u16));
        let a = at_controlling.priority(IceRole::Controlling);
        let b = at_controlled.priority(IceRole::Controlled);
        ensure!(a == b, "pair-prio-asymmetric", "pair (G={g}, D={d}): controlling agent computes {a}, controlled agent computes {b}");
        let want = rfc_pair_priority(*g, *d);
        ensure!(a as u128 == want, "pair-prio-formula", "pair (G={g}, D={d}): {a}, RFC 8445 §6.1.2.3 gives {want}");
        ing.push((a, i));
        ed.push((b, i));
        rfc.push((want, i));
    }
    // both agents sort their check list by decreasing pair priority (stable)
    ing.sort_by(|x, y| y.0.cmp(&x.0));
    ed.sort_by(|x, y| y.0.cmp(&x.0));
    rfc.sort_by(|x, y| y.0.cmp(&x.0));
    let o1: Vec<usize> = ing.iter().map(|x| x.1).collect();
    let o2: Vec<usize> = ed.iter().map(|x| x.1).collect();
    let o3: Vec<usize> = rfc.iter().map(|x| x.1).collect();
    ensure!(o1 == o2, "pair-order-differs", "controlling orders {:?}, controlled orders {:?} for {:?}", o1, o2, c.pairs);
    ensure!(o1 == o3, "pair-order-not-rfc", "agents order {:?}, RFC formula orders {:?} for {:?}", o1, o3, c.pairs);
    // distinct (G,D) pairs with G != D in at least one must not collide unless identical
    for i in 0..c.pairs.len() {
        for j in (i + 1)..c.pairs.len() {
            // the RFC formula is injective only on the RFC range 1..2^31-1 (2*MAX must stay below 2^32)
            let in_range = |p: (u32, u32)| p.0 <= 0x7FFF_FFFF && p.1 <= 0x7FFF_FFFF;
            if c.pairs[i] != c.pairs[j] && in_range(c.pairs[i]) && in_range(c.pairs[j]) {
                let (pi, pj) = (ing.iter().find(|x| x.1 == i).unwrap().0, ing.iter().find(|x| x.1 == j).unwrap().0);
                ensure!(pi != pj, "pair-prio-collision", "different pairs {:?} and {:?} get the same priority {pi}", c.pairs[i], c.pairs[j]);
            }
        }
    }
    Ok(())
}

// ------------------------------------------------------------------------------------------

fn self_test() {
    let ok = crate::engine::hex(&own::md5(b"")) == "d41d8cd98f00b204e9800998ecf8427e"
        && crate::engine::hex(&own::md5(b"The quick brown fox jumps over the lazy dog")) == "9e107d9d372bb6826bd81d3542a419d6"
        && own::long_term_key(&"a".repeat(58), &"b".repeat(70), "c") == MessageIntegrity::new_long_term_integrity("a".repeat(58), "b".repeat(70), "c".to_string()).0
        && own::crc32(b"123456789") == 0xCBF4_3926
        && crate::engine::hex(&own::hmac_sha1(b"key", b"The quick brown fox jumps over the lazy dog")) == "de7c9b85b8b78aa6bc8a7a36f70a90701c9db4d9"
        && crate::engine::hex(&own::hmac_sha1(&[0xaa; 80], b"Test Using Larger Than Block-Size Key - Hash Key First")) == "aa4ae5e15272d00e95705637ce8a3b55ed402112";
    if !ok {
        eprintln!("harness: C16 own MD5/CRC-32/HMAC-SHA1 self-test failed");
        crate::engine::exit_trouble();
    }
}

pub fn run(ctx: &mut Ctx) {
    self_test();
    ctx.level = "exploration";
    ctx.rule = "encode: proptest over {free-form method x class x attribute multiset (0..7 attributes from 14 kinds, text lengths 0..763 biased to 0..8 and the RFC maxima, DATA 0..1200, v4/v6 addresses with boundary values) | shapes mirroring every builder in rustrtc (ICE check, gathering Binding, Binding success, Allocate unauth/auth, CreatePermission, Refresh, ChannelBind, Send indication)} x transaction id x key {none, short-term password, long-term MD5(user:realm:pass)} x fingerprint. decode: reference-built messages over 7 methods x 4 classes x one-of-each of 15 attribute kinds. Non-trivial (encode/decode) = message has >= 2 attributes, or a value whose length is not a multiple of 4, or an IPv6 address. candidate/cand-line: type x transport x tcptype x component x v4/v6 x related address (every case non-trivial); pair-prio: lists of 1..11 (G,D) priority pairs from boundary values and random u32, non-trivial = >= 2 pairs or G != D; turn-session: one scripted TURN conversation per case, non-trivial = the authenticated Allocate was received. Distinct = distinct case digest.".into();
    ctx.assumptions = vec![
        "STUN text attributes are valid UTF-8 within the RFC 5389 length limits (USERNAME <= 513, REALM/NONCE/SOFTWARE <= 763 bytes); SASLprep is the identity on the generated credentials' use (neither rustrtc nor the reference applies it)".into(),
        "decode direction: each attribute kind rustrtc's StunDecoded exposes appears at most once per message (RFC 5389 §15 leaves the choice among duplicates to the reader)".into(),
        "decode direction covers the seven methods rustrtc names (Binding, Allocate, Refresh, Send, Data, CreatePermission, ChannelBind); RFC 6062 methods are rejected by design".into(),
        "pair priority: the single point G = D = 2^32-1 (RFC value 2^64+2^32-2 does not fit u64; priorities are limited to 2^31-1 by RFC 8445 §5.1.2 and local candidates never exceed it) is excluded".into(),
        "candidate struct -> line: transport is lower-case, tcp_type is only set on tcp candidates, component in 1..=256 (the shapes rustrtc's constructors and from_sdp produce)".into(),
        "padding bytes of attribute values are not compared (RFC 5389 §15: MAY be any value)".into(),
    ];

    // diagnostic aid: VERIF_C16_ONLY=turn-session runs just the session sub-check
    if std::env::var("VERIF_C16_ONLY").as_deref() == Ok("turn-session") {
        session::run(ctx);
        return;
    }
    let t0 = std::time::Instant::now();
    let lap = |name: &str| {
        if std::env::var("VERIF_DEBUG").is_ok() {
            eprintln!("[c16] {name} done at {:.1}s", t0.elapsed().as_secs_f64());
        }
    };
    let n = ctx.scale(120_000u32, 2_400_000u32);
    ctx.sub("encode", n, enc_case_strategy(), check_encode);
    lap("encode");
    let n = ctx.scale(80_000u32, 1_600_000u32);
    ctx.sub("decode", n, dec_case_strategy(), check_decode);
    lap("decode");
    let n = ctx.scale(60_000u32, 1_200_000u32);
    ctx.sub("candidate", n, cand_case_strategy(), check_candidate);
    lap("candidate");
    let n = ctx.scale(60_000u32, 1_200_000u32);
    ctx.sub(
        "cand-line",
        n,
        (cand_case_strategy(), prop_oneof![5 => Just(0u8), 1 => Just(1u8), 1 => Just(2u8), 2 => Just(3u8)]).prop_map(|(cand, flavour)| LineCase { cand, flavour }),
        check_cand_line,
    );
    lap("cand-line");
    let n = ctx.scale(20_000u32, 200_000u32);
    ctx.sub(
        "cand-prio",
        n,
        (addr_strategy(), prop_oneof![Just(1u16), Just(2u16), Just(255u16), Just(256u16), 1u16..=256], 0u8..7)
            .prop_map(|(address, component, ctor)| CandPrioCase { address, component, ctor }),
        check_cand_prio,
    );
    lap("cand-prio");
    let n = ctx.scale(100_000u32, 3_000_000u32);
    ctx.sub("pair-prio", n, pair_case_strategy(), check_pair_prio);

    lap("pair-prio");
    session::run(ctx);
    lap("turn-session");
}
