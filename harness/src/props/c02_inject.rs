//! C02 `injected-before-certificate` sub-checks: an on-path party that INJECTS unauthenticated
//! messages towards the client victim and then lets the handshake with a real rustrtc server run on.
//!
//! * epoch-0 ALERT records (close_notify and others, warning/fatal) before ServerHello, between any
//!   two messages of the server flight, or behind it;
//! * a HelloVerifyRequest cookie exchange: the party swallows the victim's first ClientHello, answers
//!   it with a HelloVerifyRequest (unauthenticated, not part of the transcript), optionally a second
//!   one, and relays the ClientHello that carries the cookie. The stock rustrtc server never sends
//!   HVR and expects message_seq 0, so it is first fed a transcript-neutral HelloRequest with
//!   message_seq 0; from then on both transcripts agree and a genuine peer still connects.
//! The server is an impostor (attacker's or an unrelated certificate, own key) or the genuine peer.
//!
//! Oracle: the C02 one, from recorded bytes. The state is followed THROUGH `Closed` (an injected
//! close_notify parks the state there while the handshake goes on), and export_keying_material and
//! the application channel are probed whatever state is reported.

use super::c02::{self, Tap, Timing};
use crate::engine::{AsyncCheck, CaseRec, Check, Ctx, Fail};
use crate::net::fault::{Action, Rule, Side};
use crate::net::rig::{self, Pair, PairSpec, state_name};
use crate::net::wire::{self, DClass};
use crate::refimpl::dtls_hs as hs;
use bytes::Bytes;
use parking_lot::Mutex;
use proptest::prelude::*;
use rustrtc::transports::dtls::{DtlsState, SessionCrypto};
use serde::{Deserialize, Serialize};
use std::sync::Arc;
use std::time::Duration;

const ALL_ORD: u16 = 64;
const PEER_PROBE: &[u8] = b"C02-INJECT-PEER-PROBE";

#[derive(Clone, Copy, Debug, PartialEq, Eq, Serialize, Deserialize)]
pub enum IPeer {
    /// attacker chain + attacker key
    Attacker,
    /// an unrelated certificate + its key
    Third,
    Genuine,
}

#[derive(Clone, Copy, Debug, PartialEq, Eq, Serialize, Deserialize)]
pub struct AlertInj {
    pub level: u8,
    pub desc: u8,
    /// delivered in front of server-flight message `pos` (0 ServerHello .. 3 ServerHelloDone),
    /// 4 = in front of the server's ChangeCipherSpec
    pub pos: u8,
}

#[derive(Clone, Copy, Debug, PartialEq, Eq, Serialize, Deserialize)]
pub struct Hvr {
    pub cookie_len: u8,
    /// a second HelloVerifyRequest in answer to the ClientHello that carries the cookie
    pub twice: bool,
}

#[derive(Clone, Debug, Serialize, Deserialize)]
pub struct ICase {
    pub g: u8,
    pub peer: IPeer,
    pub alerts: Vec<AlertInj>,
    pub hvr: Option<Hvr>,
}

struct Party {
    case: ICase,
    alert_sent: Vec<bool>,
    hvr_sent: u8,
    hello_request_sent: bool,
    ch_with_cookie_relayed: bool,
    rec_seq: u64,
    from_victim: Vec<Bytes>,
}

fn client_hello_cookie_len(body: &[u8]) -> Option<usize> {
    let sid = *body.get(34)? as usize;
    body.get(35 + sid).map(|l| *l as usize)
}

impl Party {
    fn record(&mut self, ct: u8, body: &[u8]) -> Bytes {
        self.rec_seq += 1;
        Bytes::from(wire::dtls_record_bytes(ct, 0, 0x5000 + self.rec_seq, body))
    }

    fn hvr(&mut self, seq: u16, fill: u8) -> Bytes {
        let n = self.case.hvr.map(|h| h.cookie_len).unwrap_or(0) as usize;
        let mut body = vec![0xfe, 0xfd, n as u8];
        body.extend((0..n).map(|i| fill.wrapping_add(i as u8)));
        let m = hs::build_hs(3, seq, &body);
        self.record(22, &m)
    }

    fn on_datagram(&mut self, from: Side, d: Bytes) -> Vec<(Side, Bytes)> {
        let mut out = Vec::new();
        match from {
            Side::A => {
                self.from_victim.push(d.clone());
                let ch = hs::plaintext_hs(&d).into_iter().find(|m| m.msg_type == hs::HT_CLIENT_HELLO);
                if let (Some(h), Some(ch)) = (self.case.hvr, ch) {
                    let has_cookie = client_hello_cookie_len(&ch.body).unwrap_or(0) > 0;
                    if !has_cookie {
                        // the first ClientHello (or a retransmission of it) never reaches the server
                        if self.hvr_sent == 0 || !self.ch_with_cookie_relayed {
                            self.hvr_sent = self.hvr_sent.max(1);
                            out.push((Side::A, self.hvr(0, 0xC0)));
                        }
                        return out;
                    }
                    if h.twice && self.hvr_sent == 1 {
                        self.hvr_sent = 2;
                        out.push((Side::A, self.hvr(1, 0x30)));
                    }
                    if !self.hello_request_sent {
                        // moves the stock server's expected message_seq to 1 without touching
                        // its transcript
                        self.hello_request_sent = true;
                        let hr = hs::build_hs(0, 0, &[]);
                        out.push((Side::B, self.record(22, &hr)));
                    }
                    self.ch_with_cookie_relayed = true;
                }
                out.push((Side::B, d));
            }
            Side::B => {
                let idx = match wire::dtls_class(&d) {
                    DClass::ServerHello => Some(0u8),
                    DClass::Certificate => Some(1),
                    DClass::ServerKeyExchange => Some(2),
                    DClass::ServerHelloDone => Some(3),
                    DClass::ChangeCipherSpec => Some(4),
                    _ => None,
                };
                if let Some(idx) = idx {
                    for i in 0..self.case.alerts.len() {
                        let a = self.case.alerts[i];
                        if a.pos == idx && !self.alert_sent[i] {
                            self.alert_sent[i] = true;
                            out.push((Side::A, self.record(21, &[a.level, a.desc])));
                        }
                    }
                }
                out.push((Side::A, d));
            }
        }
        out
    }
}

pub struct IObserved {
    v_in: Vec<Bytes>,
    from_victim: Vec<Bytes>,
    states: Vec<&'static str>,
    final_state: &'static str,
    ever_connected: bool,
    victim_crypto: Option<Arc<SessionCrypto>>,
    peer_connected: bool,
    app: Vec<Bytes>,
    ekm_ok: bool,
    alerts_sent: usize,
    hvr_sent: u8,
}

const CLASSES: [DClass; 13] = [
    DClass::ClientHello,
    DClass::HelloVerifyRequest,
    DClass::ServerHello,
    DClass::Certificate,
    DClass::ServerKeyExchange,
    DClass::ServerHelloDone,
    DClass::ClientKeyExchange,
    DClass::ChangeCipherSpec,
    DClass::Finished,
    DClass::AppData,
    DClass::Alert,
    DClass::OtherHandshake,
    DClass::Other,
];

fn server_certificate(c: &ICase) -> rustrtc::transports::dtls::Certificate {
    match c.peer {
        IPeer::Attacker => c02::attacker(c.g),
        IPeer::Third => c02::third(c.g),
        IPeer::Genuine => c02::genuine(c.g),
    }
}

async fn run_inject(c: &ICase, tm: Timing) -> anyhow::Result<IObserved> {
    let mut rules = vec![Rule { from: Side::A, class: DClass::ClientHello, ordinal: 0, action: Action::Drop }];
    for class in CLASSES {
        for o in 0..ALL_ORD {
            rules.push(Rule { from: Side::A, class, ordinal: o, action: Action::Custom(0) });
            rules.push(Rule { from: Side::B, class, ordinal: o, action: Action::Custom(1) });
        }
    }
    let f = hs::sdp_fingerprint(&c02::genuine(c.g).certificate[0]);
    for _attempt in 0..4 {
        let spec = PairSpec {
            dgram_rules: rules.clone(),
            sctp_rules: vec![],
            dtls_timers: Some((tm.retransmit, tm.deadline)),
            cert_a: rig::cert(c02::VICTIM_CERT),
            cert_b: server_certificate(c),
            expected_fp_a: Some(f.clone()),
            expected_fp_b: None,
            sctp: None,
            keep_trace: true,
            a_is_client: true,
        };
        let mut pair = Pair::build(spec).await?;
        let (tx, mut rx) = tokio::sync::mpsc::unbounded_channel::<(Side, Bytes)>();
        let tap_v = Arc::new(Tap { log: Mutex::new(Vec::new()), inner: pair.a.dtls.clone() });
        let raced = {
            let mut l = pair.dgram.lock();
            let raced = l.trace.iter().any(|e| !(e.class == DClass::ClientHello && e.action == Some(Action::Drop)));
            l.custom = Some(Arc::new(move |k: u8, b: &Bytes| {
                let _ = tx.send((if k == 0 { Side::A } else { Side::B }, b.clone()));
                Vec::new()
            }));
            pair.a.conn.set_dtls_receiver(tap_v.clone());
            raced
        };
        if raced {
            drop(pair);
            continue;
        }
        let mut party = Party {
            case: c.clone(),
            alert_sent: vec![false; c.alerts.len()],
            hvr_sent: 0,
            hello_request_sent: false,
            ch_with_cookie_relayed: false,
            rec_seq: 0,
            from_victim: Vec::new(),
        };
        let mut st = pair.a.dtls.subscribe_state();
        let limit = tokio::time::Instant::now() + tm.deadline + tm.slack;
        let mut states: Vec<&'static str> = Vec::new();
        let mut victim_crypto = None;
        let mut ever_connected = false;
        let mut settle_until: Option<tokio::time::Instant> = None;
        let mut probed = false;
        loop {
            let s = st.borrow_and_update().clone();
            let n = state_name(&s);
            if states.last() != Some(&n) {
                states.push(n);
            }
            match &s {
                DtlsState::Connected(cr, _) => {
                    ever_connected = true;
                    victim_crypto = Some(cr.clone());
                    if settle_until.is_none() {
                        settle_until = Some(tokio::time::Instant::now() + Duration::from_millis(80));
                    }
                }
                DtlsState::Failed => break,
                // Closed is NOT the end: a plaintext close_notify only relabels the state, the
                // handshake loop keeps running
                _ => {}
            }
            // a connected peer speaks, whatever the victim reports
            if !probed {
                if let DtlsState::Connected(..) = pair.b.dtls.get_state() {
                    probed = true;
                    let _ = pair.b.dtls.send(Bytes::from_static(PEER_PROBE)).await;
                    if settle_until.is_none() {
                        settle_until = Some(tokio::time::Instant::now() + Duration::from_millis(150));
                    }
                }
            }
            let until = settle_until.unwrap_or(limit).min(limit);
            tokio::select! {
                ev = rx.recv() => {
                    let Some((from, d)) = ev else { break };
                    for (to, b) in party.on_datagram(from, d) {
                        let src = if to == Side::A { pair.a.proxy_addr } else { pair.b.proxy_addr };
                        pair.inject(to, b, src).await;
                    }
                }
                r = st.changed() => { if r.is_err() { break; } }
                _ = tokio::time::sleep_until(until) => { break; }
            }
        }
        let fin = pair.a.dtls.get_state();
        let n = state_name(&fin);
        if states.last() != Some(&n) {
            states.push(n);
        }
        if let DtlsState::Connected(cr, _) = &fin {
            ever_connected = true;
            victim_crypto = Some(cr.clone());
        }
        let peer_connected = matches!(pair.b.dtls.get_state(), DtlsState::Connected(..));
        let ekm_ok = pair.a.dtls.export_keying_material("EXTRACTOR-dtls_srtp", 60).is_ok();
        let mut app = Vec::new();
        if let Some(rx) = pair.a.app_rx.as_mut() {
            while let Ok(b) = rx.try_recv() {
                app.push(b);
            }
        }
        drop(pair);
        return Ok(IObserved {
            v_in: std::mem::take(&mut *tap_v.log.lock()),
            from_victim: std::mem::take(&mut party.from_victim),
            states,
            final_state: n,
            ever_connected,
            victim_crypto,
            peer_connected,
            app,
            ekm_ok,
            alerts_sent: party.alert_sent.iter().filter(|x| **x).count(),
            hvr_sent: party.hvr_sent,
        });
    }
    anyhow::bail!("could not install the on-path party before the first datagram (4 attempts)")
}

fn judge(c: &ICase, o: &IObserved, tm: Timing, rec: &CaseRec) -> Check {
    rec.label(format!("inject:peer={:?}", c.peer));
    rec.label(format!("inject:end={}", o.final_state));
    for a in &c.alerts {
        let kind = if a.desc == 0 { "close_notify".to_string() } else { format!("desc{}", a.desc) };
        rec.label(format!("inject:alert:{}:level{}:pos{}", kind, a.level, a.pos));
    }
    if o.alerts_sent > 0 {
        rec.label("inject:alert-delivered");
    }
    if let Some(h) = c.hvr {
        rec.label(format!("inject:hvr{}:sent={}", if h.twice { "-twice" } else { "" }, o.hvr_sent));
    }
    if o.states.contains(&"Closed") {
        rec.label("inject:state-passed-through-Closed");
    }
    let connected = o.ever_connected;
    if connected {
        rec.label(format!("inject:connected:{:?}", c.peer));
    }
    rec.set_nontrivial(o.alerts_sent > 0 || o.hvr_sent > 0);
    let f = hs::sdp_fingerprint(&c02::genuine(c.g).certificate[0]);
    let from_v: Vec<&Bytes> = o.from_victim.iter().collect();
    let a = c02::analyse_datagrams(&o.v_in, &from_v);
    let describe = |what: &str| {
        format!(
            "{what}; peer={:?} alerts={:?} hvr={:?} states={:?} final={} ever_connected={} ekm_ok={} app_records={} peer_connected={} delivered_to_victim={} dgrams",
            c.peer, c.alerts, c.hvr, o.states, o.final_state, connected, o.ekm_ok, o.app.len(), o.peer_connected, o.v_in.len()
        )
    };
    let au = c02::client_auth(&f, &a);
    let auth_ok = au.cert_match && au.key_proof;
    if connected && !au.cert_match {
        return Err(Fail::new(
            if au.any_certificate { "client-connected-without-matching-certificate" } else { "client-connected-without-certificate" },
            describe("the client victim reached Connected although no Certificate delivered in this handshake has a leaf whose SHA-256 equals the expected fingerprint"),
        ));
    }
    if connected && !au.key_proof {
        return Err(Fail::new("client-connected-without-key-proof", describe(&format!("Connected although no delivered ServerKeyExchange is signed by the pinned key [{}]", au.detail))));
    }
    if connected {
        let Some(vc) = &o.victim_crypto else { return Err(Fail::new("harness-error", "Connected without crypto")) };
        let fc = c02::finished_check(false, &a, &vc.keys);
        if !fc.confirmed {
            return Err(Fail::new(
                "connected-without-valid-finished",
                describe(&format!("Connected although no delivered Finished confirms a transcript the victim can have seen (delivered={} transcripts_tried={})", fc.delivered, fc.transcripts)),
            ));
        }
    }
    if !auth_ok {
        // probed whatever state the victim reports
        if o.ekm_ok {
            return Err(Fail::new("ekm-exported-unauthenticated", describe("export_keying_material succeeded although the peer was not authenticated")));
        }
        if !o.app.is_empty() {
            return Err(Fail::new("app-data-accepted-unauthenticated", describe("application data was delivered although the peer was not authenticated")));
        }
        match o.final_state {
            "Failed" => {}
            "Handshaking" | "New" => {
                return Err(Fail::timing("unauthenticated-not-failed-by-deadline", describe(&format!("the peer was not authenticated and the victim is not Failed {:?} after its handshake deadline", tm.slack))));
            }
            other => return Err(Fail::new(format!("unauthenticated-ended-{}", other.to_lowercase()), describe("the peer was not authenticated and the victim did not end in Failed"))),
        }
    }
    Ok(())
}

fn checker(tm: Timing) -> AsyncCheck<ICase> {
    Arc::new(move |c: ICase| {
        Box::pin(async move {
            let rec = CaseRec::default();
            let res = match run_inject(&c, tm).await {
                Ok(o) => judge(&c, &o, tm, &rec),
                Err(e) => Err(Fail::new("harness-error", format!("rig failed: {e}"))),
            };
            (rec, res)
        })
    })
}

/// (level, description): close_notify as warning and as fatal, and a spread of other alerts
const ALERTS: [(u8, u8); 8] = [(1, 0), (2, 0), (2, 10), (2, 40), (2, 42), (1, 90), (2, 80), (1, 100)];

pub fn grid() -> Vec<ICase> {
    let mut out = Vec::new();
    let mut g = 0u8;
    for peer in [IPeer::Attacker, IPeer::Third] {
        for (level, desc) in ALERTS {
            for pos in 0..=4u8 {
                g = (g + 1) % 5;
                out.push(ICase { g, peer, alerts: vec![AlertInj { level, desc, pos }], hvr: None });
            }
        }
        for (cookie_len, twice) in [(1u8, false), (20, false), (32, false), (16, true)] {
            g = (g + 1) % 5;
            out.push(ICase { g, peer, alerts: vec![], hvr: Some(Hvr { cookie_len, twice }) });
            // cookie exchange and a close_notify in front of the Certificate
            out.push(ICase { g, peer, alerts: vec![AlertInj { level: 1, desc: 0, pos: 1 }], hvr: Some(Hvr { cookie_len, twice }) });
        }
    }
    // the genuine peer behind the same injections (keeps the generator honest: these connect)
    for (cookie_len, twice) in [(1u8, false), (32, false), (16, true)] {
        out.push(ICase { g: 2, peer: IPeer::Genuine, alerts: vec![], hvr: Some(Hvr { cookie_len, twice }) });
    }
    for pos in 0..=4u8 {
        out.push(ICase { g: 3, peer: IPeer::Genuine, alerts: vec![AlertInj { level: 1, desc: 0, pos }], hvr: None });
        out.push(ICase { g: 4, peer: IPeer::Genuine, alerts: vec![AlertInj { level: 2, desc: 40, pos }], hvr: None });
    }
    out
}

pub fn case_strategy() -> impl Strategy<Value = ICase> {
    let alert = (
        prop_oneof![2 => Just(1u8), 2 => Just(2u8), 1 => any::<u8>()],
        prop_oneof![5 => Just(0u8), 1 => prop::sample::select(vec![10u8, 20, 40, 42, 47, 48, 50, 51, 70, 80, 90, 100]), 1 => any::<u8>()],
        0..=4u8,
    )
        .prop_map(|(level, desc, pos)| AlertInj { level, desc, pos });
    (
        0..5u8,
        prop_oneof![5 => Just(IPeer::Attacker), 3 => Just(IPeer::Third), 2 => Just(IPeer::Genuine)],
        prop::collection::vec(alert, 0..=2),
        prop_oneof![3 => Just(None), 2 => (1..=32u8, prop::bool::weighted(0.3)).prop_map(|(cookie_len, twice)| Some(Hvr { cookie_len, twice }))],
    )
        .prop_map(|(g, peer, alerts, hvr)| ICase { g, peer, alerts, hvr })
}

pub fn run_subs(ctx: &Ctx, rt: &tokio::runtime::Runtime, tm: Timing, conc: usize) {
    c02::run_fixed(ctx, rt, "injected-before-certificate", grid(), conc, checker(tm));
    let n = ctx.scale(150usize, 2500usize);
    ctx.sub_async(rt, "injected-random", n, conc, case_strategy(), checker(tm));
}
