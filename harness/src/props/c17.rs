//! C17 — closing or losing a connection at any moment ends it cleanly and visibly.
//!
//! Crash-point matrix on two real `PeerConnection`s joined by a harness UDP proxy:
//! phase x terminating event x transport mode (sub-check `matrix`), plus pairs of events fired on a
//! barrier (sub-check `race`). Every case gets two dedicated tokio runtimes (one per endpoint), so
//! `RuntimeMetrics::num_alive_tasks()` returning to zero is a per-connection leak oracle, and a unique
//! loopback address per endpoint, so "no inet socket of this process is bound to that address" is a
//! per-connection socket oracle that stays sound when several cases run concurrently.

use crate::engine::{self, CaseRec, Check, Ctx, Fail};
use crate::net::rig;
use crate::net::wire;
use crate::refimpl::stunwire;
use bytes::Bytes;
use parking_lot::Mutex;
use proptest::prelude::*;
use proptest::strategy::ValueTree;
use rustrtc::transports::PacketReceiver;
use rustrtc::transports::dtls::{self, DtlsTransport};
use rustrtc::transports::ice::IceSocketWrapper;
use rustrtc::transports::ice::conn::IceConn;
use rustrtc::transports::sctp::{DataChannel, DataChannelConfig, SctpTransport};
use rustrtc::{
    DataChannelEvent, DisconnectReason, IceConnectionState, IceGatheringState, IceServer, MediaKind,
    PeerConnection, PeerConnectionEvent, PeerConnectionState, RtcConfiguration, RtpCodecParameters,
    SdpType, SessionDescription, TransceiverDirection, TransportMode,
};
use serde::{Deserialize, Serialize};
use std::collections::HashSet;
use std::future::Future;
use std::net::{IpAddr, Ipv4Addr, SocketAddr};
use std::sync::atomic::{AtomicBool, AtomicU8, AtomicU32, AtomicU64, Ordering};
use std::sync::{Arc, Weak};
use std::time::{Duration, Instant};
use tokio::net::UdpSocket;
use tokio::runtime::{Handle, Runtime};
use tokio::sync::{mpsc, watch};
use tokio::task::JoinHandle;

// ------------------------------------------------------------------------------------------------
// case description

#[derive(Clone, Copy, Debug, PartialEq, Eq, Hash, Serialize, Deserialize, PartialOrd, Ord)]
pub enum Mode {
    WebRtc,
    Srtp,
    Rtp,
}

#[derive(Clone, Copy, Debug, PartialEq, Eq, Hash, Serialize, Deserialize, PartialOrd, Ord)]
pub enum Phase {
    Created,
    OfferMade,
    Gathering,
    Checking,
    IceConnected,
    DtlsHandshaking,
    DtlsConnected,
    SctpConnecting,
    ChannelsOpen,
    MediaFlowing,
    Renegotiating,
}

#[derive(Clone, Copy, Debug, PartialEq, Eq, Hash, Serialize, Deserialize, PartialOrd, Ord)]
pub enum Event {
    Close,
    DropAll,
    PeerClose,
    PeerAbort,
    PeerShutdown,
    IceStop,
    Blackhole,
    /// the peer sends a DTLS close_notify alert and nothing else changes (ICE stays up)
    PeerCloseNotify,
}

const PHASES: [Phase; 11] = [
    Phase::Created,
    Phase::OfferMade,
    Phase::Gathering,
    Phase::Checking,
    Phase::IceConnected,
    Phase::DtlsHandshaking,
    Phase::DtlsConnected,
    Phase::SctpConnecting,
    Phase::ChannelsOpen,
    Phase::MediaFlowing,
    Phase::Renegotiating,
];
const EVENTS: [Event; 8] = [
    Event::Close,
    Event::DropAll,
    Event::PeerClose,
    Event::PeerAbort,
    Event::PeerShutdown,
    Event::IceStop,
    Event::Blackhole,
    Event::PeerCloseNotify,
];
const MODES: [Mode; 3] = [Mode::WebRtc, Mode::Srtp, Mode::Rtp];

impl Mode {
    fn name(self) -> &'static str {
        match self {
            Mode::WebRtc => "webrtc",
            Mode::Srtp => "srtp",
            Mode::Rtp => "rtp",
        }
    }
    fn transport(self) -> TransportMode {
        match self {
            Mode::WebRtc => TransportMode::WebRtc,
            Mode::Srtp => TransportMode::Srtp,
            Mode::Rtp => TransportMode::Rtp,
        }
    }
}
impl Phase {
    fn name(self) -> &'static str {
        match self {
            Phase::Created => "created",
            Phase::OfferMade => "offer-made",
            Phase::Gathering => "gathering",
            Phase::Checking => "checking",
            Phase::IceConnected => "ice-connected",
            Phase::DtlsHandshaking => "dtls-handshaking",
            Phase::DtlsConnected => "dtls-connected",
            Phase::SctpConnecting => "sctp-connecting",
            Phase::ChannelsOpen => "channels-open",
            Phase::MediaFlowing => "media-flowing",
            Phase::Renegotiating => "renegotiating",
        }
    }
    fn connected(self) -> bool {
        self >= Phase::DtlsConnected
    }
}
impl Event {
    fn name(self) -> &'static str {
        match self {
            Event::Close => "close",
            Event::DropAll => "drop",
            Event::PeerClose => "peer-close",
            Event::PeerAbort => "peer-abort",
            Event::PeerShutdown => "peer-shutdown",
            Event::IceStop => "ice-stop",
            Event::Blackhole => "blackhole",
            Event::PeerCloseNotify => "peer-close-notify",
        }
    }
    /// performed by the application on the subject itself
    fn local(self) -> bool {
        matches!(self, Event::Close | Event::DropAll | Event::IceStop)
    }
    fn needs_low_peer(self) -> bool {
        matches!(self, Event::PeerAbort | Event::PeerShutdown | Event::PeerCloseNotify)
    }
}

/// One matrix cell (`second` is None) or one racing pair (`second` is Some).
#[derive(Clone, Debug, Serialize, Deserialize)]
pub struct Cell {
    pub phase: Phase,
    pub event: Event,
    pub second: Option<Event>,
    pub mode: Mode,
    /// `send_data` calls of the subject are parked on `sctp_max_buffered_amount` when the event fires
    pub blocked: bool,
    /// how many sender tasks are parked (0 in an old replay = 1)
    #[serde(default)]
    pub senders: u8,
    /// over how many distinct data channels they are spread (0 in an old replay = 1)
    #[serde(default)]
    pub sender_channels: u8,
    /// Rtp / Srtp modes: 0 = audio, 1 = audio + video, 2 = audio + video + second audio (one m-line each)
    #[serde(default)]
    pub media_mix: u8,
    /// WebRtc: the application creates one more data channel (and starts recv() on it) bit 0: at the phase,
    /// right before the event; bit 1: after the event, once the connection reported its end (or the bound
    /// passed); bit 2: after the final close()
    #[serde(default)]
    pub late_channel: u8,
    /// the late channel is negotiated (out of band) instead of opened with DCEP
    #[serde(default)]
    pub late_negotiated: bool,
    /// caller context of close() and of the final drop: 0 a task of the endpoint's runtime, 1 a plain
    /// std::thread (no tokio context), 2 a plain thread after the endpoint's runtime has been shut down
    /// (single close / drop cells only), 3 a spawn_blocking section
    #[serde(default)]
    pub caller: u8,
    /// `RtcConfiguration::runtime_handle` = Some(handle of the endpoint's runtime) instead of None
    #[serde(default)]
    pub rt_handle: bool,
    /// WebRtc: ICE TCP configuration of both endpoints. 0 none; 1 tcp port range + default policy (Disabled);
    /// 2 range + Enabled; 3 range + PassiveOnly; 4 single-port range + default policy; 5 single-port range + Enabled
    #[serde(default)]
    pub ice_tcp: u8,
    /// Rtp / Srtp modes: `sdp_compatibility = LegacySip` (no a=mid, no BUNDLE, no rtcp-mux: RTCP on port + 1)
    #[serde(default)]
    pub legacy_sip: bool,
    /// the subject is the offerer
    pub subject_offerer: bool,
    /// data channels created by the offerer (WebRtc only)
    pub channels: u8,
    /// channels are pre-negotiated on both sides instead of opened in-band
    pub negotiated: bool,
    /// extra delay between reaching the phase and firing
    pub fire_delay_ms: u8,
    /// which direction the proxy stalls in the held phases: 0 both, 1 towards the subject, 2 from the subject
    pub stall_dir: u8,
}

impl Cell {
    fn event_name(&self) -> String {
        let mut s = self.event.name().to_string();
        if let Some(e2) = self.second {
            s.push('+');
            s.push_str(e2.name());
        }
        if self.blocked {
            s.push_str("+blocked");
        }
        s
    }
    fn coord(&self) -> String {
        format!("{}/{}/{}", self.phase.name(), self.event_name(), self.mode.name())
    }
    /// caller context that applies to this cell (the dead-runtime context only makes sense when the
    /// application's own close / drop is the one and only event)
    fn caller_ctx(&self) -> u8 {
        let c = self.caller % 4;
        if c == 2 && !(self.second.is_none() && !self.blocked && matches!(self.event, Event::Close | Event::DropAll)) { 1 } else { c }
    }
    fn n_senders(&self) -> usize {
        if self.blocked { self.senders.clamp(1, 4) as usize } else { 0 }
    }
    fn n_sender_channels(&self) -> usize {
        (self.sender_channels.clamp(1, 3) as usize).min(self.n_senders().max(1))
    }
    fn sig(&self, clause: &str) -> String {
        format!("{}@{}", clause, self.coord())
    }
    fn low_peer(&self) -> bool {
        self.event.needs_low_peer() || self.second.map(|e| e.needs_low_peer()).unwrap_or(false)
    }
    fn any_local(&self) -> bool {
        self.event.local() || self.second.map(|e| e.local()).unwrap_or(false)
    }
}

/// Does the cell exist at all?
pub fn applicable(phase: Phase, event: Event, mode: Mode, blocked: bool) -> bool {
    match mode {
        Mode::WebRtc => {
            if blocked
                && (phase < Phase::ChannelsOpen
                    || !matches!(event, Event::Close | Event::DropAll | Event::PeerClose | Event::Blackhole | Event::PeerAbort))
            {
                return false;
            }
            match event {
                Event::Close | Event::DropAll | Event::IceStop => true,
                // a peer that goes away before any connectivity was attempted is not observable
                Event::PeerClose | Event::Blackhole => phase >= Phase::Checking,
                Event::PeerAbort | Event::PeerCloseNotify => phase >= Phase::SctpConnecting,
                Event::PeerShutdown => phase >= Phase::ChannelsOpen,
            }
        }
        Mode::Srtp | Mode::Rtp => {
            if blocked {
                return false;
            }
            let ph = matches!(
                phase,
                Phase::Created | Phase::OfferMade | Phase::IceConnected | Phase::MediaFlowing | Phase::Renegotiating
            );
            // no ICE / DTLS / SCTP: peer loss is undetectable by design, the cell then checks that the
            // connection stays usable and that a later close() is clean
            ph && match event {
                Event::Close | Event::DropAll | Event::IceStop => true,
                Event::PeerClose | Event::Blackhole => phase >= Phase::IceConnected,
                _ => false,
            }
        }
    }
}

// ------------------------------------------------------------------------------------------------
// timing constants (the CONFIGURED liveness timers of the runs)

const ICE_DISCONNECT_THRESHOLD: Duration = Duration::from_millis(1500);
const ICE_DISCONNECT_GRACE: Duration = Duration::from_millis(500);
const ICE_CONNECTION_TIMEOUT: Duration = Duration::from_millis(2500);
const STUN_TIMEOUT: Duration = Duration::from_millis(1000);
const NOMINATION_TIMEOUT: Duration = Duration::from_millis(1000);
/// bound for events the application performs itself, and for every API call
const LOCAL_BOUND: Duration = Duration::from_millis(2000);
/// the 1 s keep-alive tick of the ICE agent quantises its liveness checks
const SETTLE: Duration = Duration::from_millis(900);
const REACH_LIMIT: Duration = Duration::from_secs(8);

fn silence_bound() -> Duration {
    let a = ICE_DISCONNECT_THRESHOLD + ICE_DISCONNECT_GRACE;
    a.max(ICE_CONNECTION_TIMEOUT) + Duration::from_millis(2000)
}

// ------------------------------------------------------------------------------------------------
// infrastructure

fn infra() -> &'static Runtime {
    static RT: std::sync::OnceLock<Runtime> = std::sync::OnceLock::new();
    RT.get_or_init(|| {
        tokio::runtime::Builder::new_multi_thread()
            .worker_threads(8)
            .thread_name("c17-infra")
            .enable_all()
            .build()
            .expect("infra runtime")
    })
}

static INSTANCE: AtomicU32 = AtomicU32::new(0);

fn unique_ip() -> Ipv4Addr {
    let n = INSTANCE.fetch_add(1, Ordering::SeqCst);
    let pid = std::process::id();
    Ipv4Addr::new(127, 64 + (pid % 128) as u8, ((n / 250) % 256) as u8, (n % 250 + 2) as u8)
}

/// inet sockets (udp/tcp, v4) of this process whose local address is `ip`
fn sockets_on(ip: Ipv4Addr) -> Vec<String> {
    let mut inodes = HashSet::new();
    if let Ok(rd) = std::fs::read_dir("/proc/self/fd") {
        for e in rd.flatten() {
            if let Ok(t) = std::fs::read_link(e.path()) {
                let t = t.to_string_lossy().to_string();
                if let Some(x) = t.strip_prefix("socket:[") {
                    if let Ok(i) = x.trim_end_matches(']').parse::<u64>() {
                        inodes.insert(i);
                    }
                }
            }
        }
    }
    let o = ip.octets();
    // /proc/net/* prints the address as a little-endian u32 in hex
    let want = format!("{:02X}{:02X}{:02X}{:02X}", o[3], o[2], o[1], o[0]);
    let mut out = Vec::new();
    for f in ["/proc/net/udp", "/proc/net/tcp"] {
        if let Ok(text) = std::fs::read_to_string(f) {
            for line in text.lines().skip(1) {
                let cols: Vec<&str> = line.split_whitespace().collect();
                if cols.len() < 10 {
                    continue;
                }
                let Some((addr, port)) = cols[1].split_once(':') else { continue };
                if addr != want {
                    continue;
                }
                if let Ok(inode) = cols[9].parse::<u64>() {
                    if inodes.contains(&inode) {
                        out.push(format!("{}:{}:{}", f.rsplit('/').next().unwrap_or(""), ip, u16::from_str_radix(port, 16).unwrap_or(0)));
                    }
                }
            }
        }
    }
    out
}

enum CallRes<T> {
    Done(T, Duration),
    Hang,
    Panic(String),
}

/// Run a call on the endpoint's runtime under a watchdog that lives on the infra runtime.
async fn call<T: Send + 'static>(
    h: &Handle,
    limit: Duration,
    fut: impl Future<Output = T> + Send + 'static,
) -> CallRes<T> {
    let t = Instant::now();
    let mut jh = h.spawn(fut);
    match tokio::time::timeout(limit, &mut jh).await {
        Ok(Ok(v)) => CallRes::Done(v, t.elapsed()),
        Ok(Err(e)) => CallRes::Panic(format!("{e}")),
        Err(_) => {
            jh.abort();
            CallRes::Hang
        }
    }
}

/// A call issued before the event that is still pending when it fires.
struct Pending {
    name: String,
    done: Arc<Mutex<Option<(Instant, String)>>>,
    task: JoinHandle<()>,
}

fn spawn_pending(h: &Handle, name: &str, fut: impl Future<Output = String> + Send + 'static) -> Pending {
    let done = Arc::new(Mutex::new(None));
    let d = done.clone();
    let task = h.spawn(async move {
        let r = fut.await;
        *d.lock() = Some((Instant::now(), r));
    });
    Pending { name: name.to_string(), done, task }
}

impl Pending {
    fn finished(&self) -> Option<(Instant, String)> {
        self.done.lock().clone()
    }
    async fn kill(self) {
        self.task.abort();
        let _ = self.task.await;
    }
}

// ------------------------------------------------------------------------------------------------
// UDP proxy between the two endpoints

#[derive(Clone, Copy, PartialEq, Eq, Debug)]
#[repr(u8)]
enum Gate {
    #[allow(dead_code)]
    Pass = 0,
    DropAll = 1,
    /// every DTLS record (handshake, CCS, alert, application data); STUN passes
    DropDtls = 2,
    /// DTLS application data only (SCTP and nothing else)
    DropApp = 3,
}

fn gate_drops(g: u8, b0: u8) -> bool {
    match g {
        1 => true,
        2 => (20..=63).contains(&b0),
        3 => b0 == 23,
        _ => false,
    }
}

/// One forwarded address pair. `face[i]` is the address side i must send to (it impersonates the other
/// side), `real[i]` is where side i really listens.
#[derive(Clone)]
struct Lane {
    face: [SocketAddr; 2],
    real: [Arc<Mutex<Option<SocketAddr>>>; 2],
}

struct Proxy {
    /// gate[0]: packets sent by side 0 (offerer), gate[1]: packets sent by side 1
    gate: [Arc<AtomicU8>; 2],
    forwarded: [Arc<AtomicU64>; 2],
    dropped: [Arc<AtomicU64>; 2],
    /// lanes 2k / 2k+1: RTP (or everything, when muxed) / RTCP of media section k; the face ports of the
    /// two are consecutive so that "RTCP = RTP port + 1" also holds through the proxy
    lanes: Mutex<Vec<Lane>>,
    tasks: Mutex<Vec<JoinHandle<()>>>,
}

async fn bind_consecutive() -> anyhow::Result<(Arc<UdpSocket>, Arc<UdpSocket>)> {
    for _ in 0..200 {
        let a = UdpSocket::bind("127.0.0.1:0").await?;
        let p = a.local_addr()?.port();
        if p == u16::MAX || p % 2 == 1 {
            continue;
        }
        if let Ok(b) = UdpSocket::bind(("127.0.0.1", p + 1)).await {
            return Ok((Arc::new(a), Arc::new(b)));
        }
    }
    anyhow::bail!("no consecutive port pair found")
}

impl Proxy {
    async fn new() -> anyhow::Result<Proxy> {
        let p = Proxy {
            gate: [Arc::new(AtomicU8::new(0)), Arc::new(AtomicU8::new(0))],
            forwarded: [Arc::new(AtomicU64::new(0)), Arc::new(AtomicU64::new(0))],
            dropped: [Arc::new(AtomicU64::new(0)), Arc::new(AtomicU64::new(0))],
            lanes: Mutex::new(Vec::new()),
            tasks: Mutex::new(Vec::new()),
        };
        p.ensure_section(0).await?;
        Ok(p)
    }

    fn spawn_lane(&self, s0: Arc<UdpSocket>, s1: Arc<UdpSocket>) -> anyhow::Result<Lane> {
        let lane = Lane {
            face: [s0.local_addr()?, s1.local_addr()?],
            real: [Arc::new(Mutex::new(None)), Arc::new(Mutex::new(None))],
        };
        for from in 0..2usize {
            let (rx_sock, tx_sock) = if from == 0 { (s0.clone(), s1.clone()) } else { (s1.clone(), s0.clone()) };
            let g = self.gate[from].clone();
            let dst = lane.real[1 - from].clone();
            let fw = self.forwarded[from].clone();
            let dr = self.dropped[from].clone();
            self.tasks.lock().push(infra().spawn(async move {
                let mut buf = vec![0u8; 65536];
                loop {
                    let Ok((n, _src)) = rx_sock.recv_from(&mut buf).await else { break };
                    if n == 0 {
                        continue;
                    }
                    if gate_drops(g.load(Ordering::SeqCst), buf[0]) {
                        dr.fetch_add(1, Ordering::Relaxed);
                        continue;
                    }
                    let d = *dst.lock();
                    if let Some(d) = d {
                        let _ = tx_sock.send_to(&buf[..n], d).await;
                        fw.fetch_add(1, Ordering::Relaxed);
                    } else {
                        dr.fetch_add(1, Ordering::Relaxed);
                    }
                }
            }));
        }
        Ok(lane)
    }

    /// make sure the RTP and RTCP lanes of media section `k` exist
    async fn ensure_section(&self, k: usize) -> anyhow::Result<()> {
        while self.lanes.lock().len() < 2 * (k + 1) {
            let (a0, a1) = bind_consecutive().await?;
            let (b0, b1) = bind_consecutive().await?;
            let rtp = self.spawn_lane(a0, b0)?;
            let rtcp = self.spawn_lane(a1, b1)?;
            let mut l = self.lanes.lock();
            l.push(rtp);
            l.push(rtcp);
        }
        Ok(())
    }

    fn lane(&self, idx: usize) -> Lane {
        self.lanes.lock()[idx].clone()
    }

    fn set(&self, from: usize, g: Gate) {
        self.gate[from].store(g as u8, Ordering::SeqCst);
    }
    fn set_both(&self, g: Gate) {
        self.set(0, g);
        self.set(1, g);
    }

    /// Rewrite the transport addresses of `desc`, made by side `from`, so that the other side talks to the
    /// proxy, and tell the proxy where side `from` really listens. Returns the rewritten description and
    /// every local address the description advertises (RTP, and RTCP when it is not muxed).
    async fn rewrite(&self, desc: &SessionDescription, mode: Mode, from: usize) -> Result<(SessionDescription, Vec<SocketAddr>), String> {
        if mode == Mode::WebRtc {
            let lane = self.lane(0);
            let (d, real) = rewrite_sdp(desc, mode, lane.face[1 - from])?;
            *lane.real[from].lock() = Some(real);
            return Ok((d, vec![real]));
        }
        let mut d = desc.clone();
        let mut advertised = Vec::new();
        let parse_conn = |c: &Option<String>| -> Option<IpAddr> { c.as_ref().and_then(|c| c.split_whitespace().nth(2)).and_then(|x| x.parse().ok()) };
        let session_ip = parse_conn(&d.session.connection);
        let n_sections = d.media_sections.len();
        for k in 0..n_sections {
            self.ensure_section(k).await.map_err(|e| format!("proxy lanes: {e}"))?;
        }
        for (k, sec) in d.media_sections.iter_mut().enumerate() {
            if sec.port == 0 {
                continue;
            }
            let ip = parse_conn(&sec.connection).or(session_ip).ok_or("media section without a c= line")?;
            let (rtp, rtcp) = (self.lane(2 * k), self.lane(2 * k + 1));
            let real_rtp = SocketAddr::new(ip, sec.port);
            *rtp.real[from].lock() = Some(real_rtp);
            advertised.push(real_rtp);
            let mux = sec.attributes.iter().any(|a| a.key == "rtcp-mux");
            let mut real_rtcp = SocketAddr::new(ip, sec.port.wrapping_add(1));
            for a in sec.attributes.iter_mut() {
                if a.key == "rtcp" {
                    if let Some(v) = a.value.clone() {
                        if let Some(p) = v.split_whitespace().next().and_then(|x| x.parse::<u16>().ok()) {
                            real_rtcp = SocketAddr::new(ip, p);
                            a.value = Some(format!("{} IN IP4 {}", rtcp.face[1 - from].port(), rtcp.face[1 - from].ip()));
                        }
                    }
                }
            }
            *rtcp.real[from].lock() = Some(real_rtcp);
            if !mux {
                advertised.push(real_rtcp);
            }
            sec.port = rtp.face[1 - from].port();
            if sec.connection.is_some() {
                sec.connection = Some(format!("IN IP4 {}", rtp.face[1 - from].ip()));
            }
        }
        if d.session.connection.is_some() {
            d.session.connection = Some("IN IP4 127.0.0.1".to_string());
        }
        if advertised.is_empty() {
            return Err(format!("no transport address in SDP:\n{}", desc.to_sdp_string()));
        }
        // make sure what we hand over is what the peer would parse from the wire
        let d = SessionDescription::parse(d.sdp_type.clone(), &d.to_sdp_string()).map_err(|e| format!("rewritten SDP does not parse: {e:?}"))?;
        Ok((d, advertised))
    }
}

impl Drop for Proxy {
    fn drop(&mut self) {
        for t in self.tasks.lock().iter() {
            t.abort();
        }
    }
}

/// Rewrite the transport addresses of `desc` (made by side `from`) so that the other side talks to the
/// proxy, and tell the proxy where side `from` really listens.
fn rewrite_sdp(desc: &SessionDescription, mode: Mode, face_for_peer: SocketAddr) -> Result<(SessionDescription, SocketAddr), String> {
    let text = desc.to_sdp_string();
    let mut real: Option<SocketAddr> = None;
    let mut out = String::new();
    let mut conn_ip: Option<IpAddr> = None;
    for line in text.lines() {
        let line = line.trim_end_matches('\r');
        if mode == Mode::WebRtc {
            if let Some(rest) = line.strip_prefix("a=candidate:") {
                let mut tok: Vec<String> = rest.split_whitespace().map(|s| s.to_string()).collect();
                if tok.len() >= 8 && tok[2].eq_ignore_ascii_case("tcp") {
                    // TCP candidates are not handed to the peer: every path between the two goes through the
                    // UDP proxy (their sockets are still covered by the socket oracle)
                    continue;
                }
                if tok.len() >= 8 {
                    let ip: IpAddr = tok[4].parse().map_err(|e| format!("candidate ip: {e}"))?;
                    let port: u16 = tok[5].parse().map_err(|e| format!("candidate port: {e}"))?;
                    let a = SocketAddr::new(ip, port);
                    if let Some(r) = real {
                        if r != a {
                            return Err(format!("more than one local candidate address: {r} and {a}"));
                        }
                    }
                    real = Some(a);
                    tok[4] = face_for_peer.ip().to_string();
                    tok[5] = face_for_peer.port().to_string();
                    out.push_str("a=candidate:");
                    out.push_str(&tok.join(" "));
                    out.push_str("\r\n");
                    continue;
                }
            }
        } else {
            if let Some(rest) = line.strip_prefix("c=IN IP4 ") {
                conn_ip = rest.trim().parse().ok();
                out.push_str(&format!("c=IN IP4 {}\r\n", face_for_peer.ip()));
                continue;
            }
            if let Some(rest) = line.strip_prefix("m=") {
                let mut tok: Vec<String> = rest.split_whitespace().map(|s| s.to_string()).collect();
                if tok.len() >= 3 {
                    let port: u16 = tok[1].parse().map_err(|e| format!("m= port: {e}"))?;
                    if port != 0 {
                        let ip = conn_ip.ok_or("m= line before c= line")?;
                        let a = SocketAddr::new(ip, port);
                        if let Some(r) = real {
                            if r != a {
                                return Err(format!("more than one media address: {r} and {a}"));
                            }
                        }
                        real = Some(a);
                        tok[1] = face_for_peer.port().to_string();
                    }
                    out.push_str("m=");
                    out.push_str(&tok.join(" "));
                    out.push_str("\r\n");
                    continue;
                }
            }
        }
        out.push_str(line);
        out.push_str("\r\n");
    }
    let real = real.ok_or_else(|| format!("no transport address in SDP:\n{text}"))?;
    let d = SessionDescription::parse(desc.sdp_type.clone(), &out).map_err(|e| format!("rewritten SDP does not parse: {e:?}"))?;
    Ok((d, real))
}

// ------------------------------------------------------------------------------------------------
// one endpoint

#[derive(Clone, Copy, Debug, PartialEq, Eq)]
enum DcEv {
    Open,
    Msg,
    Close,
    /// recv() returned None
    End,
}

struct Chan {
    /// created late by the application: "phase", "after-event", "after-close"
    late: Option<String>,
    id: u16,
    dc: Arc<DataChannel>,
    log: Arc<Mutex<Vec<(DcEv, Instant)>>>,
    task: JoinHandle<()>,
}

fn watch_channel(h: &Handle, dc: Arc<DataChannel>) -> Chan {
    let log = Arc::new(Mutex::new(Vec::new()));
    let l = log.clone();
    let d = dc.clone();
    let task = h.spawn(async move {
        loop {
            let ev = d.recv().await;
            let now = Instant::now();
            match ev {
                Some(DataChannelEvent::Open) => l.lock().push((DcEv::Open, now)),
                Some(DataChannelEvent::Message(_)) => l.lock().push((DcEv::Msg, now)),
                Some(DataChannelEvent::Close) => l.lock().push((DcEv::Close, now)),
                None => {
                    l.lock().push((DcEv::End, now));
                    break;
                }
            }
        }
    });
    Chan { late: None, id: dc.id, dc, log, task }
}

impl Chan {
    fn count(&self, e: DcEv) -> usize {
        self.log.lock().iter().filter(|(x, _)| *x == e).count()
    }
}

struct MediaKit {
    source: Arc<rustrtc::media::track::SampleStreamSource>,
    _sender: Arc<rustrtc::peer_connection::RtpSender>,
    feeder: Option<JoinHandle<()>>,
    more: Vec<(Arc<rustrtc::media::track::SampleStreamSource>, Arc<rustrtc::peer_connection::RtpSender>)>,
}

struct Node {
    ip: Ipv4Addr,
    rt: Option<Runtime>,
    h: Handle,
    pc: Option<PeerConnection>,
    st: watch::Receiver<PeerConnectionState>,
    reason: watch::Receiver<Option<DisconnectReason>>,
    ice: watch::Receiver<IceConnectionState>,
    gath: watch::Receiver<IceGatheringState>,
    chans: Arc<Mutex<Vec<Chan>>>,
    pump: Option<Pending>,
    wfc: Option<Pending>,
    blocked_sends: Vec<Pending>,
    /// every local transport address a description of this endpoint advertised (RTP, non-muxed RTCP)
    advertised: Vec<SocketAddr>,
    /// every TCP address the endpoint may have bound (its configured port range on its address)
    tcp_probe: Vec<SocketAddr>,
    /// a transport was attached before the event (sender / receiver loops run from then on)
    transport_started: bool,
    /// the endpoint's runtime has been shut down (caller context 2)
    dead_rt: bool,
    media: Option<MediaKit>,
    transceivers: Vec<Arc<rustrtc::peer_connection::RtpTransceiver>>,
}

impl Drop for Node {
    fn drop(&mut self) {
        // a runtime must not be dropped inside an async context
        if let Some(rt) = self.rt.take() {
            rt.shutdown_background();
        }
    }
}

#[derive(Clone, Copy, Default)]
struct NodeOpts {
    blocked: bool,
    legacy_sip: bool,
    rt_handle: bool,
    ice_tcp: u8,
}

const TCP_RANGE: (u16, u16) = (42000, 42005);
const TCP_SINGLE: u16 = 42100;

/// the TCP port range the endpoint is configured with (its address is unique, so every cell can use the same)
fn tcp_range(ice_tcp: u8) -> Option<(u16, u16)> {
    match ice_tcp {
        1..=3 => Some(TCP_RANGE),
        4 | 5 => Some((TCP_SINGLE, TCP_SINGLE)),
        _ => None,
    }
}

fn panic_text(p: Box<dyn std::any::Any + Send>) -> String {
    if let Some(s) = p.downcast_ref::<&str>() {
        s.to_string()
    } else if let Some(s) = p.downcast_ref::<String>() {
        s.clone()
    } else {
        "non-string panic".into()
    }
}

fn node_config(mode: Mode, ip: Ipv4Addr, blocked: bool, stun_blackhole: Option<SocketAddr>, legacy_sip: bool) -> RtcConfiguration {
    let mut c = RtcConfiguration::default();
    if legacy_sip {
        c.sdp_compatibility = rustrtc::config::SdpCompatibilityMode::LegacySip;
    }
    c.transport_mode = mode.transport();
    c.bind_ip = Some(ip.to_string());
    c.disable_ipv6 = true;
    c.ice_disconnect_threshold = ICE_DISCONNECT_THRESHOLD;
    c.ice_disconnect_grace = ICE_DISCONNECT_GRACE;
    c.ice_connection_timeout = ICE_CONNECTION_TIMEOUT;
    c.stun_timeout = STUN_TIMEOUT;
    c.nomination_timeout = NOMINATION_TIMEOUT;
    if blocked {
        c.sctp_max_buffered_amount = 32 * 1024;
    }
    if let Some(a) = stun_blackhole {
        c.ice_servers = vec![IceServer::new(vec![format!("stun:{a}")])];
        c.stun_timeout = Duration::from_secs(4);
    }
    c
}

impl Node {
    async fn new_opts(side: usize, mode: Mode, stun_blackhole: Option<SocketAddr>, opts: NodeOpts) -> Result<Node, String> {
        let (blocked, legacy_sip) = (opts.blocked, opts.legacy_sip);
        let ip = unique_ip();
        // Srtp mode: a single worker sidesteps the (separately reported) race between
        // set_remote_description and the direct-mode transport loop
        let workers = if mode == Mode::Srtp { 1 } else { 2 };
        let rt = tokio::runtime::Builder::new_multi_thread()
            .worker_threads(workers)
            .thread_name(if side == 0 { "c17-o" } else { "c17-n" })
            .enable_all()
            .build()
            .map_err(|e| format!("runtime: {e}"))?;
        let h = rt.handle().clone();
        let mut cfg = node_config(mode, ip, blocked, stun_blackhole, legacy_sip);
        if opts.rt_handle {
            cfg.runtime_handle = Some(h.clone());
        }
        if let Some((a, b)) = tcp_range(opts.ice_tcp) {
            cfg.tcp_port_range_start = Some(a);
            cfg.tcp_port_range_end = Some(b);
            cfg.ice_tcp_policy = match opts.ice_tcp {
                2 | 5 => rustrtc::config::IceTcpPolicy::Enabled,
                3 => rustrtc::config::IceTcpPolicy::PassiveOnly,
                _ => rustrtc::config::IceTcpPolicy::Disabled,
            };
        }
        let pc = match call(&h, Duration::from_secs(5), async move { PeerConnection::new(cfg) }).await {
            CallRes::Done(pc, _) => pc,
            CallRes::Hang => return Err("PeerConnection::new hangs".into()),
            CallRes::Panic(p) => return Err(format!("PeerConnection::new panics: {p}")),
        };
        let _ = side;
        Ok(Node {
            ip,
            st: pc.subscribe_peer_state(),
            reason: pc.subscribe_disconnect_reason(),
            ice: pc.subscribe_ice_connection_state(),
            gath: pc.subscribe_ice_gathering_state(),
            pc: Some(pc),
            rt: Some(rt),
            h,
            chans: Arc::new(Mutex::new(Vec::new())),
            pump: None,
            wfc: None,
            blocked_sends: Vec::new(),
            advertised: Vec::new(),
            tcp_probe: tcp_range(opts.ice_tcp).map(|(a, b)| (a..=b).map(|p| SocketAddr::new(IpAddr::V4(ip), p)).collect()).unwrap_or_default(),
            transport_started: false,
            dead_rt: false,
            media: None,
            transceivers: Vec::new(),
        })
    }

    fn pc(&self) -> PeerConnection {
        self.pc.clone().expect("handle alive")
    }

    /// where later API calls run: the endpoint's runtime, or a fresh one once that is gone
    fn api(&self) -> Handle {
        if self.dead_rt { infra().handle().clone() } else { self.h.clone() }
    }

    /// Run a synchronous call (close(), a drop) in caller context `ctxk` under the watchdog; a panic of the
    /// call is caught in the calling thread and reported with its message.
    async fn in_context(&self, ctxk: u8, limit: Duration, f: impl FnOnce() + Send + 'static) -> CallRes<()> {
        let t = Instant::now();
        let guarded = move || std::panic::catch_unwind(std::panic::AssertUnwindSafe(f)).map_err(panic_text);
        let r: Result<Result<Result<(), String>, String>, ()> = match ctxk {
            0 if !self.dead_rt => {
                let mut jh = self.h.spawn(async move { guarded() });
                match tokio::time::timeout(limit, &mut jh).await {
                    Ok(r) => Ok(r.map_err(|e| format!("{e}"))),
                    Err(_) => {
                        jh.abort();
                        Err(())
                    }
                }
            }
            3 if !self.dead_rt => {
                let jh = self.h.spawn_blocking(guarded);
                match tokio::time::timeout(limit, jh).await {
                    Ok(r) => Ok(r.map_err(|e| format!("{e}"))),
                    Err(_) => Err(()),
                }
            }
            _ => {
                let (tx, rx) = tokio::sync::oneshot::channel();
                let spawned = std::thread::Builder::new().name("c17-plain".into()).spawn(move || {
                    // a plain thread: no runtime context here
                    let _ = tx.send((guarded(), tokio::runtime::Handle::try_current().is_ok()));
                });
                if let Err(e) = spawned {
                    return CallRes::Panic(format!("cannot spawn thread: {e}"));
                }
                match tokio::time::timeout(limit, rx).await {
                    Ok(Ok((r, _had_ctx))) => Ok(Ok(r)),
                    Ok(Err(_)) => Ok(Err("the calling thread died".into())),
                    Err(_) => Err(()),
                }
            }
        };
        match r {
            Ok(Ok(Ok(()))) => CallRes::Done((), t.elapsed()),
            Ok(Ok(Err(p))) => CallRes::Panic(p),
            Ok(Err(e)) => CallRes::Panic(e),
            Err(()) => CallRes::Hang,
        }
    }

    /// caller context 2: shut the endpoint's runtime down (every task of the connection dies with it)
    async fn kill_runtime(&mut self) {
        if let Some(rt) = self.rt.take() {
            let (tx, rx) = tokio::sync::oneshot::channel();
            let _ = std::thread::Builder::new().name("c17-rtkill".into()).spawn(move || {
                rt.shutdown_timeout(Duration::from_secs(3));
                let _ = tx.send(());
            });
            let _ = tokio::time::timeout(Duration::from_secs(5), rx).await;
        }
        self.dead_rt = true;
    }

    /// after the runtime is gone: the calls that were pending on it died with it; recv() is issued again on
    /// every channel from a fresh runtime (queued events are still there)
    async fn after_runtime_death(&mut self) {
        for p in [self.pump.take(), self.wfc.take()].into_iter().flatten().chain(std::mem::take(&mut self.blocked_sends)) {
            p.kill().await;
        }
        if let Some(m) = self.media.as_mut() {
            if let Some(f) = m.feeder.take() {
                f.abort();
            }
        }
        let fresh = infra().handle().clone();
        let mut g = self.chans.lock();
        for c in g.iter_mut() {
            c.task.abort();
            let again = watch_channel(&fresh, c.dc.clone());
            // keep what the first collector saw
            let seen: Vec<(DcEv, Instant)> = c.log.lock().clone();
            *again.log.lock() = seen;
            c.log = again.log;
            c.task = again.task;
        }
    }

    /// the application creates one more channel now and starts recv() on it
    fn create_late_channel(&mut self, cell: &Cell, tag: &str, out: &mut Outcome) {
        let Some(pc) = self.pc.clone() else { return };
        // on a connection that already reports Closed this is the "after close()" point, whatever closed it
        let closed = self.state() == PeerConnectionState::Closed;
        if closed && SKIP_DC_AFTER_CLOSE.load(Ordering::Relaxed) {
            out.skipped.push(SIG_DC_AFTER_CLOSE);
            return;
        }
        let tag = if closed { "after-close" } else { tag };
        let neg = if cell.late_negotiated { Some(40 + self.chans.lock().len() as u16) } else { None };
        let cfg = DataChannelConfig { ordered: true, negotiated: neg, ..Default::default() };
        match std::panic::catch_unwind(std::panic::AssertUnwindSafe(|| pc.create_data_channel(&format!("late-{tag}"), Some(cfg)))) {
            Ok(Ok(dc)) => {
                out.notes.push(format!("late channel ({tag}, id {}, {}) created in state {:?}", dc.id, if neg.is_some() { "negotiated" } else { "in-band" }, rustrtc::DataChannelState::from(dc.state.load(Ordering::SeqCst))));
                out.labels.push(format!("late-dc:{tag}"));
                let mut c = watch_channel(&self.api(), dc);
                c.late = Some(tag.to_string());
                self.chans.lock().push(c);
            }
            Ok(Err(e)) => {
                out.notes.push(format!("late channel ({tag}) refused: {e}"));
                out.labels.push(format!("late-dc:{tag}:refused"));
            }
            Err(p) => out.fail(cell, "create_data_channel-panics", false, format!("create_data_channel ({tag}) panicked: {}", panic_text(p))),
        }
    }

    fn alive_tasks(&self) -> usize {
        self.h.metrics().num_alive_tasks()
    }

    fn state(&self) -> PeerConnectionState {
        *self.st.borrow()
    }

    fn reason_now(&self) -> Option<DisconnectReason> {
        self.reason.borrow().clone()
    }

    /// pending `pc.recv()` loop; hands incoming data channels to collectors
    fn start_pump(&mut self) {
        let pc = self.pc();
        let chans = self.chans.clone();
        let h = self.h.clone();
        self.pump = Some(spawn_pending(&self.h, "pc.recv", async move {
            loop {
                match pc.recv().await {
                    Some(PeerConnectionEvent::DataChannel(dc)) => {
                        let c = watch_channel(&h, dc);
                        chans.lock().push(c);
                    }
                    Some(PeerConnectionEvent::Track(_)) => {}
                    None => return "None".to_string(),
                }
            }
        }));
    }

    fn start_wfc(&mut self) {
        let pc = self.pc();
        self.wfc = Some(spawn_pending(&self.h, "wait_for_connected", async move {
            match pc.wait_for_connected().await {
                Ok(()) => "Ok".to_string(),
                Err(e) => format!("Err({e})"),
            }
        }));
    }

    fn create_channel(&mut self, label: &str, negotiated: Option<u16>) -> Result<(), String> {
        let cfg = DataChannelConfig { ordered: true, negotiated, ..Default::default() };
        let dc = self.pc().create_data_channel(label, Some(cfg)).map_err(|e| format!("create_data_channel: {e}"))?;
        let c = watch_channel(&self.h, dc);
        self.chans.lock().push(c);
        Ok(())
    }

    fn add_audio_sender(&mut self) -> Result<(), String> {
        let (source, track, _fb) = rustrtc::media::track::sample_track(rustrtc::media::frame::MediaKind::Audio, 64);
        let params = RtpCodecParameters { payload_type: 0, name: "PCMU".into(), clock_rate: 8000, channels: 1 };
        let sender = self.pc().add_track(track, params).map_err(|e| format!("add_track: {e}"))?;
        self.media = Some(MediaKit { source: Arc::new(source), _sender: sender, feeder: None, more: Vec::new() });
        Ok(())
    }

    fn note_advertised(&mut self, adv: Vec<SocketAddr>) {
        for a in adv {
            if !self.advertised.contains(&a) {
                self.advertised.push(a);
            }
        }
    }

    /// further sending m-lines (kept alive next to the first audio sender)
    fn add_extra_sender(&mut self, video: bool) -> Result<(), String> {
        let kind = if video { rustrtc::media::frame::MediaKind::Video } else { rustrtc::media::frame::MediaKind::Audio };
        let (source, track, _fb) = rustrtc::media::track::sample_track(kind, 64);
        let params = if video {
            RtpCodecParameters { payload_type: 96, name: "VP8".into(), clock_rate: 90000, channels: 0 }
        } else {
            RtpCodecParameters { payload_type: 8, name: "PCMA".into(), clock_rate: 8000, channels: 1 }
        };
        let sender = self.pc().add_track(track, params).map_err(|e| format!("add_track: {e}"))?;
        match self.media.as_mut() {
            Some(m) => m.more.push((Arc::new(source), sender)),
            None => return Err("extra sender without a first one".into()),
        }
        Ok(())
    }

    fn add_receiver(&mut self, kind: MediaKind) {
        let t = self.pc().add_transceiver(kind, TransceiverDirection::RecvOnly);
        self.transceivers.push(t);
    }

    fn add_audio_receiver(&mut self) {
        let t = self.pc().add_transceiver(MediaKind::Audio, TransceiverDirection::RecvOnly);
        self.transceivers.push(t);
    }

    fn start_feeding(&mut self) {
        if let Some(m) = self.media.as_mut() {
            let src = m.source.clone();
            m.feeder = Some(infra().spawn(async move {
                let mut ts = 0u32;
                loop {
                    let frame = rustrtc::media::frame::AudioFrame {
                        rtp_timestamp: ts,
                        clock_rate: 8000,
                        data: Bytes::from(vec![0x55u8; 160]),
                        ..Default::default()
                    };
                    let _ = src.send(rustrtc::media::frame::MediaSample::Audio(frame));
                    ts = ts.wrapping_add(160);
                    tokio::time::sleep(Duration::from_millis(20)).await;
                }
            }));
        }
    }
}

// ------------------------------------------------------------------------------------------------
// the outcome of one case

#[derive(Default)]
struct Outcome {
    fails: Vec<Fail>,
    labels: Vec<String>,
    notes: Vec<String>,
    reached: bool,
    /// clauses left out by construction because their defect is a known finding
    skipped: Vec<&'static str>,
}

impl Outcome {
    fn fail_global(&mut self, sig: &str, timing: bool, msg: String) {
        let m = format!("{msg} [{}]", self.notes.join("; "));
        self.fails.push(if timing { Fail::timing(sig, m) } else { Fail::new(sig, m) });
    }
    fn fail(&mut self, cell: &Cell, clause: &str, timing: bool, msg: String) {
        let sig = cell.sig(clause);
        let m = format!("{msg} [{}]", self.notes.join("; "));
        self.fails.push(if timing { Fail::timing(sig, m) } else { Fail::new(sig, m) });
    }
}

fn is_terminal(s: PeerConnectionState) -> bool {
    matches!(s, PeerConnectionState::Closed | PeerConnectionState::Failed | PeerConnectionState::Disconnected)
}

async fn wait_until(limit: Duration, mut f: impl FnMut() -> bool) -> bool {
    let t = Instant::now();
    loop {
        if f() {
            return true;
        }
        if t.elapsed() > limit {
            return false;
        }
        tokio::time::sleep(Duration::from_millis(5)).await;
    }
}

// ------------------------------------------------------------------------------------------------
// driving a PeerConnection pair to a phase

struct PairRig {
    proxy: Proxy,
    o: Node,
    n: Node,
    _stun_hole: Option<Arc<UdpSocket>>,
}

async fn api<T: Send + 'static>(h: &Handle, what: &str, fut: impl Future<Output = Result<T, String>> + Send + 'static) -> Result<T, String> {
    match call(h, Duration::from_secs(5), fut).await {
        CallRes::Done(Ok(v), _) => Ok(v),
        CallRes::Done(Err(e), _) => Err(format!("{what}: {e}")),
        CallRes::Hang => Err(format!("{what}: no return within 5 s")),
        CallRes::Panic(p) => Err(format!("{what}: panic {p}")),
    }
}

/// non-trickle offer by `node` (create_offer, wait for gathering, create_offer again, set_local)
async fn make_offer(node: &Node) -> Result<SessionDescription, String> {
    let pc = node.pc();
    api(&node.h, "offer", async move {
        let _ = pc.create_offer().await.map_err(|e| format!("create_offer: {e}"))?;
        pc.wait_for_gathering_complete().await;
        let o = pc.create_offer().await.map_err(|e| format!("create_offer(2): {e}"))?;
        pc.set_local_description(o.clone()).map_err(|e| format!("set_local_description: {e}"))?;
        Ok(o)
    })
    .await
}

async fn apply_offer(node: &Node, offer: SessionDescription) -> Result<(), String> {
    let pc = node.pc();
    api(&node.h, "set_remote_description(offer)", async move {
        pc.set_remote_description(offer).await.map_err(|e| format!("{e}"))
    })
    .await
}

async fn make_answer(node: &Node) -> Result<SessionDescription, String> {
    let pc = node.pc();
    api(&node.h, "answer", async move {
        let _ = pc.create_answer().await.map_err(|e| format!("create_answer: {e}"))?;
        pc.wait_for_gathering_complete().await;
        let a = pc.create_answer().await.map_err(|e| format!("create_answer(2): {e}"))?;
        pc.set_local_description(a.clone()).map_err(|e| format!("set_local_description: {e}"))?;
        Ok(a)
    })
    .await
}

async fn apply_answer(node: &Node, answer: SessionDescription) -> Result<(), String> {
    let pc = node.pc();
    api(&node.h, "set_remote_description(answer)", async move {
        pc.set_remote_description(answer).await.map_err(|e| format!("{e}"))
    })
    .await
}

fn ice_up(s: IceConnectionState) -> bool {
    matches!(s, IceConnectionState::Connected | IceConnectionState::Completed)
}

impl PairRig {
    fn node(&self, side: usize) -> &Node {
        if side == 0 { &self.o } else { &self.n }
    }
    fn node_mut(&mut self, side: usize) -> &mut Node {
        if side == 0 { &mut self.o } else { &mut self.n }
    }

    /// full offer/answer exchange through the proxy
    async fn exchange(&mut self, mode: Mode) -> Result<(), String> {
        let offer = make_offer(&self.o).await?;
        let (offer_rw, adv) = self.proxy.rewrite(&offer, mode, 0).await?;
        self.o.note_advertised(adv);
        let answer = if mode == Mode::Srtp {
            // one task on the single-worker runtime: the direct-mode transport loop must not run between
            // set_remote_description(offer) and set_local_description(answer) (known start race, SIG_SRTP_RACE)
            let pc = self.n.pc();
            api(&self.n.h, "answer", async move {
                pc.set_remote_description(offer_rw).await.map_err(|e| format!("set_remote_description: {e}"))?;
                let a = pc.create_answer().await.map_err(|e| format!("create_answer: {e}"))?;
                pc.set_local_description(a.clone()).map_err(|e| format!("set_local_description: {e}"))?;
                Ok(a)
            })
            .await?
        } else {
            apply_offer(&self.n, offer_rw).await?;
            make_answer(&self.n).await?
        };
        let (answer_rw, adv) = self.proxy.rewrite(&answer, mode, 1).await?;
        self.n.note_advertised(adv);
        apply_answer(&self.o, answer_rw).await?;
        Ok(())
    }
}

/// Build the pair and drive it to `cell.phase`. Err = the phase could not be reached.
async fn reach_phase(cell: &Cell, out: &mut Outcome) -> Result<PairRig, String> {
    let mode = cell.mode;
    let subject = if cell.subject_offerer { 0 } else { 1 };
    let proxy = Proxy::new().await.map_err(|e| format!("proxy: {e}"))?;
    let mut stun_hole = None;
    let mut hole_addr = None;
    if cell.phase == Phase::Gathering {
        let s = Arc::new(UdpSocket::bind("127.0.0.1:0").await.map_err(|e| format!("bind: {e}"))?);
        hole_addr = Some(s.local_addr().map_err(|e| format!("{e}"))?);
        stun_hole = Some(s);
    }
    let legacy = cell.legacy_sip && mode != Mode::WebRtc;
    let o = Node::new_opts(0, mode, hole_addr, NodeOpts { blocked: cell.blocked && subject == 0, legacy_sip: legacy, rt_handle: cell.rt_handle && subject == 0, ice_tcp: cell.ice_tcp }).await?;
    let n = Node::new_opts(1, mode, None, NodeOpts { blocked: cell.blocked && subject == 1, legacy_sip: legacy, rt_handle: cell.rt_handle && subject == 1, ice_tcp: cell.ice_tcp }).await?;
    let mut rig = PairRig { proxy, o, n, _stun_hole: stun_hole };

    // what the session carries
    let with_channels = mode == Mode::WebRtc && cell.phase != Phase::DtlsConnected && cell.channels > 0;
    let with_media = mode != Mode::WebRtc || matches!(cell.phase, Phase::DtlsConnected | Phase::MediaFlowing) || !with_channels;
    if with_channels {
        for i in 0..cell.channels {
            let neg = if cell.negotiated { Some(10 + i as u16) } else { None };
            rig.o.create_channel(&format!("ch{i}"), neg)?;
            if cell.negotiated {
                rig.n.create_channel(&format!("ch{i}"), neg)?;
            }
        }
    }
    if with_media {
        // the offerer sends, the answerer receives
        rig.o.add_audio_sender()?;
        rig.n.add_audio_receiver();
        if mode != Mode::WebRtc {
            // one m-line per stream; with LegacySip they are not bundled: own RTP (+1: RTCP) port each
            if cell.media_mix >= 1 {
                rig.o.add_extra_sender(true)?;
                rig.n.add_receiver(MediaKind::Video);
            }
            if cell.media_mix >= 2 {
                rig.o.add_extra_sender(false)?;
                rig.n.add_receiver(MediaKind::Audio);
            }
            out.labels.push(format!("media-mix:{}", cell.media_mix.min(2)));
            out.labels.push(if cell.legacy_sip { "sdp:legacy-sip".into() } else { "sdp:standard".into() });
        }
    }
    // pending calls issued before the event
    rig.o.start_pump();
    rig.n.start_pump();
    if !cell.phase.connected() && cell.phase != Phase::IceConnected {
        rig.node_mut(subject).start_wfc();
    }

    let s = subject;
    match cell.phase {
        Phase::Created => {}
        Phase::Gathering => {
            // gathering is held open by a STUN server that never answers
            let pc = rig.o.pc();
            api(&rig.o.h, "create_offer", async move { pc.create_offer().await.map(|_| ()).map_err(|e| format!("{e}")) }).await?;
            let g = rig.o.gath.clone();
            if !wait_until(Duration::from_secs(2), || *g.borrow() == IceGatheringState::Gathering).await {
                out.labels.push("gathering-state-not-observed".into());
            }
        }
        Phase::OfferMade => {
            let offer = make_offer(&rig.o).await?;
            let (offer_rw, adv) = rig.proxy.rewrite(&offer, mode, 0).await?;
            rig.o.note_advertised(adv);
            out.notes.push(format!("offer: {} m-line(s), ports {:?}", offer.media_sections.len(), offer.media_sections.iter().map(|m| m.port).collect::<Vec<_>>()));
            if s == 1 {
                apply_offer(&rig.n, offer_rw).await?;
            }
        }
        Phase::Checking => {
            rig.proxy.set_both(Gate::DropAll);
            rig.exchange(mode).await?;
            let i = rig.node(s).ice.clone();
            if !wait_until(Duration::from_secs(3), || *i.borrow() == IceConnectionState::Checking).await {
                return Err(format!("subject never showed ICE Checking (now {:?})", *i.borrow()));
            }
        }
        Phase::IceConnected => {
            rig.exchange(mode).await?;
            if mode == Mode::WebRtc {
                let i = rig.node(s).ice.clone();
                if !wait_until(REACH_LIMIT, || ice_up(*i.borrow())).await {
                    return Err(format!("subject never showed ICE Connected (now {:?})", *i.borrow()));
                }
            } else {
                let st = rig.node(s).st.clone();
                if !wait_until(REACH_LIMIT, || *st.borrow() == PeerConnectionState::Connected).await {
                    return Err(format!("subject never Connected (now {:?}, reason {:?})", *st.borrow(), rig.node(s).reason_now()));
                }
            }
        }
        Phase::DtlsHandshaking => {
            match cell.stall_dir {
                1 => rig.proxy.set(1 - s, Gate::DropDtls),
                2 => rig.proxy.set(s, Gate::DropDtls),
                _ => rig.proxy.set_both(Gate::DropDtls),
            }
            rig.exchange(mode).await?;
            let i = rig.node(s).ice.clone();
            if !wait_until(REACH_LIMIT, || ice_up(*i.borrow())).await {
                return Err(format!("subject never showed ICE Connected (now {:?})", *i.borrow()));
            }
            tokio::time::sleep(Duration::from_millis(150)).await;
            if rig.node(s).state() == PeerConnectionState::Connected {
                return Err("DTLS completed although its records were dropped".into());
            }
        }
        Phase::SctpConnecting => {
            match cell.stall_dir {
                1 => rig.proxy.set(1 - s, Gate::DropApp),
                2 => rig.proxy.set(s, Gate::DropApp),
                _ => rig.proxy.set_both(Gate::DropApp),
            }
            rig.exchange(mode).await?;
            let st = rig.node(s).st.clone();
            if !wait_until(REACH_LIMIT, || *st.borrow() == PeerConnectionState::Connected).await {
                return Err(format!("subject never Connected (now {:?}, reason {:?})", *st.borrow(), rig.node(s).reason_now()));
            }
            tokio::time::sleep(Duration::from_millis(100)).await;
            let any_open = rig.node(s).chans.lock().iter().any(|c| c.count(DcEv::Open) > 0);
            if any_open {
                return Err("a channel opened although SCTP packets were dropped".into());
            }
        }
        Phase::DtlsConnected | Phase::ChannelsOpen | Phase::MediaFlowing | Phase::Renegotiating => {
            rig.exchange(mode).await?;
            for side in [0usize, 1] {
                let st = rig.node(side).st.clone();
                if !wait_until(REACH_LIMIT, || *st.borrow() == PeerConnectionState::Connected).await {
                    return Err(format!(
                        "side {side} never Connected (now {:?}, reason {:?})",
                        *st.borrow(),
                        rig.node(side).reason_now()
                    ));
                }
            }
            if with_channels && cell.phase != Phase::DtlsConnected {
                let want = cell.channels as usize;
                for side in [0usize, 1] {
                    let ch = rig.node(side).chans.clone();
                    if !wait_until(REACH_LIMIT, || {
                        let g = ch.lock();
                        g.len() >= want && g.iter().all(|c| c.count(DcEv::Open) > 0)
                    })
                    .await
                    {
                        let g = ch.lock();
                        return Err(format!(
                            "side {side}: channels did not all open: {} known, {} open",
                            g.len(),
                            g.iter().filter(|c| c.count(DcEv::Open) > 0).count()
                        ));
                    }
                }
                // one message each way per channel
                for side in [0usize, 1] {
                    let ids: Vec<u16> = rig.node(side).chans.lock().iter().map(|c| c.id).collect();
                    for id in ids {
                        let pc = rig.node(side).pc();
                        let _ = api(&rig.node(side).h, "send_data", async move { pc.send_data(id, b"hello").await.map_err(|e| format!("{e}")) }).await;
                    }
                }
            }
            if with_media && matches!(cell.phase, Phase::MediaFlowing | Phase::Renegotiating) || (mode != Mode::WebRtc && cell.phase == Phase::MediaFlowing) {
                rig.o.start_feeding();
                let pc = rig.n.pc();
                if !wait_until(REACH_LIMIT, || pc.received_rtp_packets() >= 3).await {
                    return Err(format!("media does not flow: answerer received {} RTP packets", pc.received_rtp_packets()));
                }
            }
            if cell.phase == Phase::Renegotiating {
                // the offerer starts a second offer/answer round; the event lands before the answer
                let t = rig.o.pc().add_transceiver(MediaKind::Video, TransceiverDirection::SendRecv);
                rig.o.transceivers.push(t);
                let offer = make_offer(&rig.o).await?;
                let (offer_rw, adv) = rig.proxy.rewrite(&offer, mode, 0).await?;
                rig.o.note_advertised(adv);
                if cell.fire_delay_ms % 2 == 0 {
                    apply_offer(&rig.n, offer_rw).await?;
                    out.labels.push("reneg:offer-applied".into());
                } else {
                    out.labels.push("reneg:offer-pending".into());
                }
            }
        }
    }
    Ok(rig)
}

// ------------------------------------------------------------------------------------------------
// running one cell

async fn fire_event(ev: Event, cell: &Cell, rig: &mut PairRig, subject: usize, out: &mut Outcome) {
    let peer = 1 - subject;
    match ev {
        Event::Close => {
            let pc = rig.node(subject).pc();
            match rig.node(subject).in_context(cell.caller_ctx(), LOCAL_BOUND, move || pc.close()).await {
                CallRes::Done(_, d) => out.notes.push(format!("close() took {d:?}")),
                CallRes::Hang => out.fail(cell, "close-hangs", true, "close() did not return within 2 s".into()),
                CallRes::Panic(p) => out.fail(cell, "close-panics", false, format!("close() panicked: {p}")),
            }
        }
        Event::DropAll => {
            // release every handle the application holds: pending calls (parked senders included) borrow the
            // handle, so they are cancelled first; what is checked then is that nothing of them stays behind
            let node = rig.node_mut(subject);
            for p in [node.pump.take(), node.wfc.take()].into_iter().flatten().chain(std::mem::take(&mut node.blocked_sends)) {
                p.kill().await;
            }
            if let Some(m) = node.media.as_mut() {
                if let Some(f) = m.feeder.take() {
                    f.abort();
                }
            }
            let pc = node.pc.take();
            let media = node.media.take();
            let trs = std::mem::take(&mut node.transceivers);
            match node
                .in_context(cell.caller_ctx(), LOCAL_BOUND, move || {
                    drop(media);
                    drop(trs);
                    drop(pc);
                })
                .await
            {
                CallRes::Done(_, d) => out.notes.push(format!("drop took {d:?}")),
                CallRes::Hang => out.fail(cell, "drop-hangs", true, "dropping the handles did not return within 2 s".into()),
                CallRes::Panic(p) => out.fail(cell, "drop-panics", false, format!("drop panicked: {p}")),
            }
        }
        Event::PeerClose => {
            let pc = rig.node(peer).pc();
            let _ = call(&rig.node(peer).h, LOCAL_BOUND, async move { pc.close() }).await;
        }
        Event::IceStop => {
            let pc = rig.node(subject).pc();
            match call(&rig.node(subject).h, LOCAL_BOUND, async move { pc.ice_transport().stop() }).await {
                CallRes::Done(_, _) => {}
                CallRes::Hang => out.fail(cell, "ice-stop-hangs", true, "ice_transport().stop() did not return within 2 s".into()),
                CallRes::Panic(p) => out.fail(cell, "ice-stop-panics", false, format!("stop() panicked: {p}")),
            }
        }
        Event::Blackhole => rig.proxy.set_both(Gate::DropAll),
        Event::PeerAbort | Event::PeerShutdown | Event::PeerCloseNotify => unreachable!("low-peer events run on the low-peer rig"),
    }
}

/// The clauses shared by both rigs: observe the subject after the event at `t0`.
struct Observed {
    t_term: Option<Instant>,
}

async fn observe_terminal(cell: &Cell, node: &Node, t0: Instant, bound: Duration, out: &mut Outcome) -> Observed {
    let deadline = t0 + bound;
    let mut prev = node.state();
    let mut last_change = t0;
    let mut t_term: Option<Instant> = None;
    let mut history = vec![format!("{:?}@0ms", prev)];
    loop {
        let now = Instant::now();
        let s = node.state();
        let r = node.reason_now();
        if s != prev {
            history.push(format!("{:?}@{}ms", s, now.duration_since(t0).as_millis()));
            prev = s;
            last_change = now;
        }
        let term = is_terminal(s) && r.is_some();
        if term && t_term.is_none() {
            t_term = Some(now);
        }
        if !term {
            t_term = None;
        }
        if term && last_change > deadline {
            out.notes.push(format!("states {}", history.join(" ")));
            out.fail(cell, "state-changes-after-bound", true, format!("the peer state still changed {} ms after the event (bound {} ms)", last_change.duration_since(t0).as_millis(), bound.as_millis()));
            break;
        }
        if term && now.duration_since(last_change.max(t_term.unwrap_or(now))) >= SETTLE {
            break;
        }
        if !term && now > deadline {
            out.notes.push(format!("states {}", history.join(" ")));
            if !is_terminal(s) {
                out.fail(cell, "no-terminal-state", true, format!("{} ms after the event the peer state is {:?} (reason {:?})", bound.as_millis(), s, r));
            } else {
                out.fail(cell, "no-disconnect-reason", true, format!("peer state {:?} but disconnect_reason() is None {} ms after the event", s, bound.as_millis()));
            }
            break;
        }
        tokio::time::sleep(Duration::from_millis(5)).await;
    }
    if history.len() > 2 {
        out.labels.push("state-path:multi".into());
    }
    out.notes.push(format!("states {} reason {:?} ice {:?} transport {:?}", history.join(" "), node.reason_now(), *node.ice.borrow(), node.pc.as_ref().map(|p| p.ice_transport().state())));
    if let Some(t) = t_term {
        out.notes.push(format!("terminal after {} ms", t.duration_since(t0).as_millis()));
    }
    out.labels.push(format!("final:{:?}", node.state()));
    Observed { t_term }
}

/// every channel that announced Open yields exactly one Close; pending recv() calls return
async fn check_channels(cell: &Cell, node: &Node, t_ref: Instant, out: &mut Outcome, final_stage: bool) {
    let limit = t_ref + LOCAL_BOUND;
    let chans = node.chans.clone();
    // wait until every collector of an opened channel has ended, or the limit passes
    loop {
        let all = {
            let g = chans.lock();
            g.iter().all(|c| c.count(DcEv::Open) == 0 && !final_stage || c.count(DcEv::End) > 0)
        };
        if all || Instant::now() > limit {
            break;
        }
        tokio::time::sleep(Duration::from_millis(5)).await;
    }
    // a little extra so that a duplicate Close would be seen
    tokio::time::sleep(Duration::from_millis(30)).await;
    let g = chans.lock();
    for c in g.iter() {
        let opens = c.count(DcEv::Open);
        let closes = c.count(DcEv::Close);
        let ended = c.count(DcEv::End) > 0;
        if opens > 0 {
            out.labels.push("dc:was-open".into());
            if closes == 0 {
                out.fail(cell, "dc-no-close", true, format!("channel {} announced Open but no Close within 2 s of the terminal state (log {:?})", c.id, c.log.lock().iter().map(|x| x.0).collect::<Vec<_>>()));
            } else if closes > 1 {
                out.fail(cell, "dc-close-twice", false, format!("channel {} saw {} Close events", c.id, closes));
            } else if !ended {
                out.fail(cell, "dc-recv-hangs-after-close", true, format!("channel {}: recv() after the Close event did not return within 2 s", c.id));
            }
        } else {
            out.labels.push("dc:never-open".into());
            if closes > 1 {
                out.fail(cell, "dc-close-twice", false, format!("never-opened channel {} saw {} Close events", c.id, closes));
            }
            if final_stage && !ended && c.late.as_deref() == Some("after-close") {
                out.fail_global(SIG_DC_AFTER_CLOSE, true, format!("data channel {} created on a Closed connection was accepted (state Connecting) but its recv() does not return within 2 s: nothing will ever close it [{}]", c.id, cell.coord()));
            } else if final_stage && !ended && c.late.is_some() {
                out.fail(cell, "late-dc-recv-hangs", true, format!("channel {} created by the application {} never opened; its pending recv() did not return within 2 s of the connection being closed or dropped (log {:?})", c.id, c.late.as_deref().unwrap_or(""), c.log.lock().iter().map(|x| x.0).collect::<Vec<_>>()));
            } else if final_stage && !ended {
                if SKIP_DC_UNOPENED.load(Ordering::Relaxed) {
                    out.skipped.push(SIG_DC_UNOPENED);
                } else {
                    out.fail_global(SIG_DC_UNOPENED, true, format!("channel {} never opened; its pending recv() did not return within 2 s of the connection being closed or dropped [{}]", c.id, cell.coord()));
                }
            }
        }
    }
}

fn pending_check(cell: &Cell, p: &Option<Pending>, clause: &str, t_ref: Instant, out: &mut Outcome) {
    if let Some(p) = p {
        match p.finished() {
            Some((t, r)) => {
                out.notes.push(format!("{} -> {} ({} ms)", p.name, r.chars().take(60).collect::<String>(), t.saturating_duration_since(t_ref).as_millis()));
            }
            None => out.fail(cell, clause, true, format!("{} issued before the event is still pending 2 s after the connection became terminal", p.name)),
        }
    }
}

async fn wait_senders(ps: &[Pending], until: Instant) {
    while ps.iter().any(|p| p.finished().is_none()) && Instant::now() < until {
        tokio::time::sleep(Duration::from_millis(5)).await;
    }
}

/// every parked send_data call must have returned (Ok or Err)
fn senders_check(cell: &Cell, ps: &[Pending], t_ref: Instant, out: &mut Outcome) {
    let hung: Vec<&str> = ps.iter().filter(|p| p.finished().is_none()).map(|p| p.name.as_str()).collect();
    for p in ps {
        if let Some((t, r)) = p.finished() {
            out.notes.push(format!("{} -> {} ({} ms)", p.name, r.chars().take(50).collect::<String>(), t.saturating_duration_since(t_ref).as_millis()));
        }
    }
    if !hung.is_empty() {
        out.fail(
            cell,
            "send_data-blocked-hangs",
            true,
            format!("{} of {} parked send_data call(s) are still pending 2 s after the connection became terminal: {:?}", hung.len(), ps.len(), hung),
        );
    }
}

async fn wait_pending(p: &Option<Pending>, until: Instant) {
    if let Some(p) = p {
        while p.finished().is_none() && Instant::now() < until {
            tokio::time::sleep(Duration::from_millis(5)).await;
        }
    }
}

/// calls issued after the connection became terminal
async fn after_calls(cell: &Cell, node: &Node, out: &mut Outcome, terminal: bool) {
    let Some(pc) = node.pc.clone() else { return };
    let ch = {
        let g = node.chans.lock();
        // prefer a channel the application created late: it has to behave like any other
        g.iter().rev().find(|c| c.late.is_some()).or(g.first()).map(|c| c.id).unwrap_or(0)
    };
    let api = node.api();
    let h = &api;
    let (p1, p2, p3) = (pc.clone(), pc.clone(), pc.clone());
    let a = call(h, LOCAL_BOUND, async move { p1.send_data(ch, b"after").await.map_err(|e| format!("{e}")) });
    let b = call(h, LOCAL_BOUND, async move { p2.create_offer().await.map(|_| ()).map_err(|e| format!("{e}")) });
    let c = call(h, LOCAL_BOUND, async move { p3.wait_for_connected().await.map_err(|e| format!("{e}")) });
    let (a, b, c) = tokio::join!(a, b, c);
    for (name, clause, r) in [("send_data", "send_data-hangs", a), ("create_offer", "create_offer-hangs", b), ("wait_for_connected", "wait_for_connected-hangs", c)] {
        if name == "wait_for_connected" && !terminal && !matches!(r, CallRes::Panic(_)) {
            // the connection never became terminal (reported by its own clause): waiting is then legitimate
            continue;
        }
        if name == "send_data" && matches!(r, CallRes::Hang) && node.blocked_sends.iter().any(|p| p.finished().is_none()) {
            // a parked sender (reported by its own clause) still holds the channel's send lock
            continue;
        }
        match r {
            CallRes::Done(v, d) => out.notes.push(format!("after: {name} -> {} in {d:?}", match v { Ok(()) => "Ok".to_string(), Err(e) => format!("Err({})", e.chars().take(50).collect::<String>()) })),
            CallRes::Hang => out.fail(cell, clause, true, format!("{name}() issued after the connection became terminal (state {:?}) did not return within 2 s", node.state())),
            CallRes::Panic(p) => out.fail(cell, &format!("{name}-panics"), false, format!("{name}() panicked: {p}")),
        }
    }
    if node.state() == PeerConnectionState::Closed {
        api_sweep(cell, node, out, "after the connection reported Closed").await;
    }
    // recv() after the event: only when no earlier recv() is still parked on the event queue
    let pump_done = node.pump.as_ref().map(|p| p.finished().is_some()).unwrap_or(true);
    if pump_done && node.state() == PeerConnectionState::Closed {
        let p4 = pc.clone();
        match call(h, LOCAL_BOUND, async move { p4.recv().await.is_some() }).await {
            CallRes::Done(_, _) => {}
            CallRes::Hang => out.fail(cell, "pc-recv-hangs", true, "recv() issued on a Closed connection did not return within 2 s".into()),
            CallRes::Panic(p) => out.fail(cell, "pc-recv-panics", false, format!("recv() panicked: {p}")),
        }
    }
}

/// Every public API of the PeerConnection and of the handles reachable through it that can wait, issued on
/// a connection that has ended; each must return (Ok or Err) within 2 s.
async fn api_sweep(cell: &Cell, node: &Node, out: &mut Outcome, stage: &str) {
    use rustrtc::media::MediaStreamTrack;
    let Some(pc) = node.pc.clone() else { return };
    let h = node.api();
    let ch = node.chans.lock().first().map(|c| c.id).unwrap_or(0);
    let mut calls: Vec<(String, JoinHandle<()>)> = Vec::new();
    macro_rules! go {
        ($name:expr, $pc:ident, $body:expr) => {{
            let $pc = pc.clone();
            calls.push(($name.to_string(), h.spawn(async move {
                let _ = $body;
            })));
        }};
    }
    go!("wait_for_gathering_complete", p, p.wait_for_gathering_complete().await);
    go!("wait_for_connected", p, p.wait_for_connected().await);
    go!("create_offer", p, p.create_offer().await);
    go!("create_answer", p, p.create_answer().await);
    go!("set_local_description", p, {
        if let Some(d) = p.local_description() {
            let _ = p.set_local_description(d);
        }
    });
    go!("set_remote_description", p, {
        if let Some(d) = p.remote_description() {
            let _ = p.set_remote_description(d).await;
        }
    });
    go!("add_ice_candidate", p, p.add_ice_candidate(rustrtc::IceCandidate::host("127.0.0.1:9".parse().unwrap(), 1)));
    go!("send_data", p, p.send_data(ch, b"sweep").await);
    go!("send_text", p, p.send_text(ch, "sweep").await);
    go!("get_stats", p, p.get_stats().await);
    go!("get_transport_stats", p, p.get_transport_stats().await);
    go!("wait_for_rtp_transport_ready", p, p.wait_for_rtp_transport_ready(Duration::from_millis(100)).await);
    go!("send_raw_rtp", p, p.send_raw_rtp(rustrtc::rtp::RtpPacket::new(rustrtc::rtp::RtpHeader::new(0, 1, 160, 0x1234), vec![0u8; 20])).await);
    go!("sync-getters", p, {
        let _ = (p.sctp_buffered_amount(), p.sctp_diagnostic_info(), p.sctp_link_stats().is_some(), p.signaling_state(), p.local_description().is_some(), p.remote_description().is_some(), p.disconnect_reason(), p.received_rtp_packets(), p.get_transceivers().len());
    });
    go!("create_data_channel", p, p.create_data_channel("sweep", None).map(|_| ()));
    let pump_done = node.pump.as_ref().map(|p| p.finished().is_some()).unwrap_or(true);
    if pump_done {
        go!("recv", p, p.recv().await.is_some());
    }
    for (i, t) in pc.get_transceivers().into_iter().enumerate() {
        if let Some(r) = t.receiver() {
            let (r1, r2, r3) = (r.clone(), r.clone(), r.clone());
            calls.push((format!("transceiver{i}.receiver.track.recv"), h.spawn(async move {
                let _ = r1.track().recv().await;
            })));
            calls.push((format!("transceiver{i}.receiver.request_key_frame"), h.spawn(async move {
                let _ = r2.request_key_frame().await;
            })));
            calls.push((format!("transceiver{i}.receiver.send_nack"), h.spawn(async move {
                let _ = r3.send_nack(vec![1, 2]).await;
            })));
        }
    }
    // a fresh recv() on every channel whose earlier recv() has returned for good
    let ended: Vec<Arc<DataChannel>> = node.chans.lock().iter().filter(|c| c.count(DcEv::End) > 0).map(|c| c.dc.clone()).collect();
    for (i, dc) in ended.into_iter().enumerate() {
        calls.push((format!("channel{i}.recv"), h.spawn(async move {
            let _ = dc.recv().await;
        })));
    }
    let n = calls.len();
    let limit = Instant::now() + LOCAL_BOUND;
    while calls.iter().any(|(_, j)| !j.is_finished()) && Instant::now() < limit {
        tokio::time::sleep(Duration::from_millis(5)).await;
    }
    let mut hung = Vec::new();
    for (name, j) in calls {
        if !j.is_finished() {
            j.abort();
            hung.push(name);
        } else if let Err(e) = j.await {
            if e.is_panic() {
                out.fail(cell, &format!("api-call-panics-after-close:{name}"), false, format!("{name}() panicked on a connection that had ended ({stage})"));
            }
        }
    }
    out.notes.push(format!("api sweep {stage}: {n} calls, {} pending", hung.len()));
    out.labels.push("api-sweep".into());
    for name in hung {
        out.fail(cell, &format!("api-call-hangs-after-close:{name}"), true, format!("{name}() issued {stage} (state {:?}) is still pending after 2 s", node.state()));
    }
}

/// F16: the only thing left is the process-wide shared listener of the single-port range (and its accept task)
fn only_shared_listener(cell: &Cell, ip: Ipv4Addr, socks: &[String], busy: &[String], extra_tasks: usize) -> bool {
    let l = format!("tcp:{}:{}", ip, TCP_SINGLE);
    let b = format!("tcp {}:{}", ip, TCP_SINGLE);
    let c = format!("cannot rebind tcp {}:{}", ip, TCP_SINGLE);
    cell.ice_tcp >= 4 && extra_tasks <= 1 && (!socks.is_empty() || !busy.is_empty()) && socks.iter().all(|s| *s == l || *s == c) && busy.iter().all(|s| *s == b)
}

fn rebind_failures(addrs: &[SocketAddr]) -> Vec<SocketAddr> {
    addrs.iter().copied().filter(|a| std::net::UdpSocket::bind(a).is_err()).collect()
}

/// TCP addresses that cannot be bound (listened on) again
fn tcp_rebind_failures(addrs: &[SocketAddr]) -> Vec<String> {
    addrs.iter().filter(|a| std::net::TcpListener::bind(a).is_err()).map(|a| format!("tcp {a}")).collect()
}

/// tasks of the harness itself that still run on the endpoint's runtime
fn own_tasks(node: &Node) -> usize {
    let pend = [&node.pump, &node.wfc].iter().filter(|p| p.as_ref().map(|p| !p.task.is_finished()).unwrap_or(false)).count();
    let senders = node.blocked_sends.iter().filter(|p| !p.task.is_finished()).count();
    let chans = node.chans.lock().iter().filter(|c| !c.task.is_finished()).count();
    pend + senders + chans
}

/// After close(), while the application still HOLDS its handle (and its tracks / transceivers): every
/// socket of the connection must be gone (no inet socket on the endpoint's address, every port a description
/// advertised can be bound again) and no transport task may be left. What may legitimately stay is one idle
/// loop per RtpReceiver / RtpSender object the application can still reach through the handle.
async fn held_handle_release(cell: &Cell, node: &Node, out: &mut Outcome) {
    let h = node.h.clone();
    let ip = node.ip;
    let adv = node.advertised.clone();
    let Some(pc) = node.pc.clone() else { return };
    // sender / receiver loops only start once a transport is attached: from ICE connected on, or (Rtp / Srtp
    // answerer) as soon as the offer is applied
    let objects = if cell.phase >= Phase::IceConnected || node.transport_started {
        let trs = pc.get_transceivers();
        trs.iter().map(|t| t.receiver().is_some() as usize + t.sender().is_some() as usize).sum::<usize>()
    } else {
        0
    };
    drop(pc);
    let t = Instant::now();
    let tcp = node.tcp_probe.clone();
    let ok = wait_until(LOCAL_BOUND, || {
        sockets_on(ip).is_empty() && rebind_failures(&adv).is_empty() && tcp_rebind_failures(&tcp).is_empty() && h.metrics().num_alive_tasks().saturating_sub(own_tasks(node)) <= objects
    })
    .await;
    let tasks = h.metrics().num_alive_tasks().saturating_sub(own_tasks(node));
    let socks = sockets_on(ip);
    let mut busy: Vec<String> = rebind_failures(&adv).into_iter().map(|a| format!("udp {a}")).collect();
    busy.extend(tcp_rebind_failures(&tcp));
    out.notes.push(format!("held: {} task(s) left ({} sender/receiver object(s)), sockets {:?}, advertised {} port(s), settled in {} ms", tasks, objects, socks, adv.len(), t.elapsed().as_millis()));
    out.labels.push(format!("held-tasks:{}", tasks.min(9)));
    if !ok && only_shared_listener(cell, ip, &socks, &busy, tasks.saturating_sub(objects)) {
        out.fail_global(SIG_F16, true, format!("2 s after close(), with the handle still held, the shared TCP listener of the single-port range is still bound: sockets {socks:?}, cannot bind again {busy:?}, {} extra task(s) [{}]", tasks.saturating_sub(objects), cell.coord()));
    } else if !ok {
        if !socks.is_empty() || !busy.is_empty() {
            out.fail(cell, "sockets-held-after-close", true, format!("2 s after close(), with the handle still held: sockets {socks:?}, addresses that cannot be bound again {busy:?}"));
        }
        if tasks > objects {
            out.fail(cell, "tasks-held-after-close", true, format!("2 s after close(), with the handle still held, {tasks} task(s) of the connection are alive but only {objects} sender/receiver object(s) exist"));
        }
    }
}

/// drop everything the application holds of `node` and wait for its tasks and sockets to go away
async fn release_node(cell: &Cell, mut node: Node, who: &str, out: &mut Outcome) {
    for p in [node.pump.take(), node.wfc.take()].into_iter().flatten().chain(std::mem::take(&mut node.blocked_sends)) {
        p.kill().await;
    }
    if let Some(m) = node.media.as_mut() {
        if let Some(f) = m.feeder.take() {
            f.abort();
        }
    }
    let pc = node.pc.take();
    let media = node.media.take();
    let trs = std::mem::take(&mut node.transceivers);
    let chans: Vec<Chan> = std::mem::take(&mut *node.chans.lock());
    // the final drop happens in the cell's caller context (the peer's always inside its runtime)
    let ctxk = if who.is_empty() { cell.caller_ctx() } else { 0 };
    match node
        .in_context(ctxk, LOCAL_BOUND, move || {
            drop(media);
            drop(trs);
            drop(pc);
        })
        .await
    {
        CallRes::Done(..) => {}
        CallRes::Hang => out.fail(cell, &format!("final-drop-hangs{who}"), true, "dropping the last handles did not return within 2 s".into()),
        CallRes::Panic(p) => out.fail(cell, &format!("final-drop-panics{who}"), false, format!("dropping the last handles panicked: {p}")),
    }
    for c in chans {
        c.task.abort();
        let _ = c.task.await;
        drop(c.dc);
    }
    let h = node.h.clone();
    let ip = node.ip;
    let t = Instant::now();
    let adv = node.advertised.clone();
    let tcp = node.tcp_probe.clone();
    let ok = wait_until(LOCAL_BOUND, || h.metrics().num_alive_tasks() == 0 && sockets_on(ip).is_empty() && rebind_failures(&adv).is_empty() && tcp_rebind_failures(&tcp).is_empty()).await;
    let tasks = h.metrics().num_alive_tasks();
    let mut socks = sockets_on(ip);
    socks.extend(rebind_failures(&adv).into_iter().map(|a| format!("cannot rebind {a}")));
    socks.extend(tcp_rebind_failures(&tcp).into_iter().map(|a| format!("cannot rebind {a}")));
    out.notes.push(format!("{who} released in {} ms", t.elapsed().as_millis()));
    if !ok && std::env::var("C17_DIAG_RELEASE").is_ok() {
        let gone = wait_until(Duration::from_secs(40), || h.metrics().num_alive_tasks() == 0 && sockets_on(ip).is_empty()).await;
        out.notes.push(format!("DIAG {who}: tasks {tasks} sockets {socks:?} at 2 s; all gone={gone} after {} ms", t.elapsed().as_millis()));
    }
    if !ok && only_shared_listener(cell, ip, &socks, &[], tasks) {
        out.fail_global(SIG_F16, true, format!("2 s after close() and the drop of every handle the shared TCP listener of the single-port range is still bound ({socks:?}) and {tasks} task(s) are alive [{}{who}]", cell.coord()));
    } else if !ok {
        if tasks != 0 {
            let m = format!("{tasks} task(s) of the connection are still alive 2 s after close() and the drop of every handle");
            if who.is_empty() {
                out.fail(cell, "tasks-leak", true, m);
            } else {
                // the peer is always ended by a plain close() in this phase, whatever hit the subject
                out.fail_global(&format!("tasks-leak-peer@{}/{}", cell.phase.name(), cell.mode.name()), true, format!("{m} [{}]", cell.coord()));
            }
        }
        if !socks.is_empty() {
            let m = format!("socket(s) still open 2 s after close() and the drop of every handle: {socks:?}");
            if who.is_empty() {
                out.fail(cell, "sockets-leak", true, m);
            } else {
                out.fail_global(&format!("sockets-leak-peer@{}/{}", cell.phase.name(), cell.mode.name()), true, format!("{m} [{}]", cell.coord()));
            }
        }
    }
    if let Some(rt) = node.rt.take() {
        rt.shutdown_background();
    }
}

/// Everything after the event, for the subject: terminal state, channels, pending and later calls,
/// close (again), release of tasks and sockets.
async fn finish_subject(cell: &Cell, mut node: Node, t0: Instant, bound: Duration, detectable: bool, out: &mut Outcome) {
    let mut alive_after_drop = false;
    let mut terminal = true;
    if detectable {
        let obs = observe_terminal(cell, &node, t0, bound, out).await;
        if let Some(tt) = obs.t_term {
            let lim = tt + LOCAL_BOUND;
            wait_pending(&node.wfc, lim).await;
            wait_senders(&node.blocked_sends, lim).await;
            pending_check(cell, &node.wfc, "wait_for_connected-pending-hangs", tt, out);
            senders_check(cell, &node.blocked_sends, tt, out);
            check_channels(cell, &node, tt, out, false).await;
        } else {
            terminal = false;
        }
        if obs.t_term.is_none() && node.pc.is_none() {
            // the handles are gone but the connection lives on: missing Close events and the task /
            // socket leak are the same fact, not reported a second time
            alive_after_drop = true;
        }
    } else {
        // peer loss in a mode without liveness: the connection must simply stay usable
        out.labels.push("undetectable-by-design".into());
        tokio::time::sleep(Duration::from_millis(300)).await;
    }
    if cell.late_channel & 2 != 0 && cell.mode == Mode::WebRtc {
        node.create_late_channel(cell, "after-event", out);
    }
    after_calls(cell, &node, out, terminal && detectable).await;

    // ---- close (again): a second close(), or the application's reaction to the failure
    if node.pc.is_some() {
        let pc = node.pc();
        let tc = Instant::now();
        match node.in_context(cell.caller_ctx(), LOCAL_BOUND, move || pc.close()).await {
            CallRes::Done(_, _) => {}
            CallRes::Hang => out.fail(cell, "second-close-hangs", true, "close() after the event did not return within 2 s".into()),
            CallRes::Panic(p) => out.fail(cell, "second-close-panics", false, format!("close() after the event panicked: {p}")),
        }
        let st = node.st.clone();
        if !wait_until(LOCAL_BOUND, || is_terminal(*st.borrow())).await {
            out.fail(cell, "close-not-terminal", true, format!("2 s after close() the peer state is {:?}", *st.borrow()));
        }
        tokio::time::sleep(Duration::from_millis(50)).await;
        if *st.borrow() != PeerConnectionState::Closed {
            out.labels.push(format!("after-close:{:?}", *st.borrow()));
        }
        if node.reason_now().is_none() {
            out.fail(cell, "no-disconnect-reason", true, "disconnect_reason() is None after close()".into());
        }
        let lim = tc + LOCAL_BOUND;
        wait_pending(&node.pump, lim).await;
        wait_pending(&node.wfc, lim).await;
        wait_senders(&node.blocked_sends, lim).await;
        if SKIP_PC_RECV.load(Ordering::Relaxed) {
            out.skipped.push(SIG_PC_RECV);
        } else if node.pump.as_ref().map(|p| p.finished().is_none()).unwrap_or(false) {
            out.fail_global(SIG_PC_RECV, true, format!("recv() issued before the event is still pending 2 s after close() [{}]", cell.coord()));
        }
        pending_check(cell, &node.wfc, "wait_for_connected-pending-hangs", tc, out);
        senders_check(cell, &node.blocked_sends, tc, out);
        check_channels(cell, &node, tc, out, true).await;
        if !detectable {
            after_calls(cell, &node, out, true).await;
        }
        if node.state() == PeerConnectionState::Closed {
            api_sweep(cell, &node, out, "after the final close()").await;
        }
        if cell.late_channel & 4 != 0 && cell.mode == Mode::WebRtc && SKIP_DC_AFTER_CLOSE.load(Ordering::Relaxed) {
            out.skipped.push(SIG_DC_AFTER_CLOSE);
        } else if cell.late_channel & 4 != 0 && cell.mode == Mode::WebRtc {
            // a channel created on a closed connection: refused, or born closed - never a recv() that hangs
            let before = node.chans.lock().len();
            node.create_late_channel(cell, "after-close", out);
            let chans = node.chans.clone();
            if chans.lock().len() > before {
                let ended = wait_until(LOCAL_BOUND, || chans.lock().last().map(|c| c.count(DcEv::End) > 0).unwrap_or(true)).await;
                if !ended {
                    out.fail_global(SIG_DC_AFTER_CLOSE, true, format!("a data channel created after close() was accepted (state Connecting) but its recv() does not return within 2 s: nothing will ever close it [{}]", cell.coord()));
                }
                let closes = chans.lock().last().map(|c| c.count(DcEv::Close)).unwrap_or(0);
                if closes > 1 {
                    out.fail(cell, "dc-close-twice", false, format!("the channel created after close() saw {closes} Close events"));
                }
                // it has been judged here
                if let Some(c) = chans.lock().last_mut() {
                    c.late = Some("after-close(judged)".into());
                }
            }
        }
        held_handle_release(cell, &node, out).await;
    } else if !alive_after_drop {
        // all handles are gone: channel handles may outlive the connection, their recv() must still return
        check_channels(cell, &node, t0, out, true).await;
    }
    if alive_after_drop {
        // reclaim what we can so that the process does not accumulate zombies: nothing to call, the
        // runtime shutdown below is the only way
        out.labels.push("zombie-after-drop".into());
        for p in [node.pump.take(), node.wfc.take()].into_iter().flatten().chain(std::mem::take(&mut node.blocked_sends)) {
            p.kill().await;
        }
        let chans: Vec<Chan> = std::mem::take(&mut *node.chans.lock());
        for c in chans {
            c.task.abort();
        }
        if let Some(rt) = node.rt.take() {
            rt.shutdown_background();
        }
        return;
    }
    release_node(cell, node, "", out).await;
}

async fn run_pair_cell(cell: Cell) -> Outcome {
    let mut out = Outcome::default();
    let subject = if cell.subject_offerer { 0 } else { 1 };
    let mut rig = match reach_phase(&cell, &mut out).await {
        Ok(r) => r,
        Err(e) => {
            out.fail(&cell, "phase-not-reached", false, e);
            return out;
        }
    };
    out.reached = true;
    out.notes.push(format!("subject={} ice={:?}", if subject == 0 { "offerer" } else { "answerer" }, *rig.node(subject).ice.borrow()));
    out.notes.push(format!(
        "tasks at phase: o={} n={} sockets o={} n={}",
        rig.o.alive_tasks(),
        rig.n.alive_tasks(),
        sockets_on(rig.o.ip).len(),
        sockets_on(rig.n.ip).len()
    ));

    // blocked sender: stall SCTP from the subject and send until a call stays pending
    if cell.blocked {
        rig.proxy.set(subject, Gate::DropApp);
        if let Err(e) = block_senders(&cell, rig.node_mut(subject), &mut out).await {
            out.fail(&cell, "phase-not-reached", false, e);
            return out;
        }
    }

    tokio::time::sleep(Duration::from_millis(cell.fire_delay_ms as u64)).await;
    let detectable = cell.mode == Mode::WebRtc || cell.any_local();
    let bound = if cell.any_local() { LOCAL_BOUND } else { silence_bound() };

    {
        let node = rig.node_mut(subject);
        node.transport_started = node.state() == PeerConnectionState::Connected || ice_up(*node.ice.borrow());
    }
    if cell.late_channel & 1 != 0 && cell.mode == Mode::WebRtc {
        rig.node_mut(subject).create_late_channel(&cell, "phase", &mut out);
    }
    out.labels.push(format!("caller:{}", ["runtime-task", "plain-thread", "plain-thread-after-runtime-shutdown", "spawn_blocking"][cell.caller_ctx() as usize]));
    out.labels.push(if cell.rt_handle { "runtime_handle:some".into() } else { "runtime_handle:none".into() });
    if cell.mode == Mode::WebRtc {
        out.labels.push(format!("ice-tcp:{}", ["none", "range+default-policy", "range+enabled", "range+passive-only", "single-port+default-policy", "single-port+enabled"][(cell.ice_tcp % 6) as usize]));
        out.notes.push(format!("tcp sockets at phase: {:?}", sockets_on(rig.node(subject).ip).iter().filter(|x| x.starts_with("tcp")).collect::<Vec<_>>()));
    }
    if cell.caller_ctx() == 2 {
        // the runtime that created the connection is shut down first
        let node = rig.node_mut(subject);
        node.kill_runtime().await;
        node.after_runtime_death().await;
        out.notes.push(format!("runtime shut down: {} task(s) left on it", node.alive_tasks()));
    }
    // ---- fire
    let t0 = Instant::now();
    if let Some(e2) = cell.second {
        fire_race(cell.event, e2, &cell, &mut rig, subject, &mut out).await;
    } else {
        fire_event(cell.event, &cell, &mut rig, subject, &mut out).await;
    }
    let PairRig { proxy, o, n, _stun_hole } = rig;
    let (subj, peer) = if subject == 0 { (o, n) } else { (n, o) };
    finish_subject(&cell, subj, t0, bound, detectable, &mut out).await;
    // the peer is closed by its application as well
    if let Some(pc) = peer.pc.clone() {
        let _ = call(&peer.h, LOCAL_BOUND, async move { pc.close() }).await;
    }
    release_node(&cell, peer, "-peer", &mut out).await;
    out.notes.push(format!(
        "proxy o->n fwd {} drop {}, n->o fwd {} drop {}",
        proxy.forwarded[0].load(Ordering::Relaxed),
        proxy.dropped[0].load(Ordering::Relaxed),
        proxy.forwarded[1].load(Ordering::Relaxed),
        proxy.dropped[1].load(Ordering::Relaxed)
    ));
    drop(proxy);
    out
}

/// Park `cell.n_senders()` sender tasks, spread over `cell.n_sender_channels()` channels, in send_data.
/// The caller has stalled SCTP from this endpoint, so nothing is acknowledged any more.
async fn block_senders(cell: &Cell, node: &mut Node, out: &mut Outcome) -> Result<(), String> {
    let ids: Vec<u16> = node.chans.lock().iter().filter(|c| c.count(DcEv::Open) > 0).map(|c| c.id).collect();
    let want_ch = cell.n_sender_channels();
    if ids.len() < want_ch {
        return Err(format!("{} open channel(s) but {} wanted for the senders", ids.len(), want_ch));
    }
    let n = cell.n_senders();
    let sent = Arc::new(AtomicU64::new(0));
    let inside = Arc::new(AtomicU64::new(0));
    for k in 0..n {
        let id = ids[k % want_ch];
        let pc = node.pc();
        let s2 = sent.clone();
        let in2 = inside.clone();
        // different message sizes so that the senders do not move in lock step
        let payload = vec![7u8; 4096 + 2048 * (k % 3)];
        let p = spawn_pending(&node.h, &format!("send_data#{k}(ch {id})"), async move {
            loop {
                in2.fetch_add(1, Ordering::SeqCst);
                let r = pc.send_data(id, &payload).await;
                in2.fetch_sub(1, Ordering::SeqCst);
                match r {
                    Ok(()) => {
                        s2.fetch_add(1, Ordering::SeqCst);
                    }
                    Err(e) => return format!("Err({e}) after {} sends in total", s2.load(Ordering::SeqCst)),
                }
            }
        });
        node.blocked_sends.push(p);
    }
    // parked = nobody completes a send any more and every sender is inside a call
    let mut last = u64::MAX;
    let mut stable = 0;
    let t = Instant::now();
    while t.elapsed() < Duration::from_secs(5) {
        tokio::time::sleep(Duration::from_millis(50)).await;
        let v = sent.load(Ordering::SeqCst);
        if v == last && inside.load(Ordering::SeqCst) == n as u64 {
            stable += 1;
            if stable >= 5 {
                break;
            }
        } else {
            stable = 0;
            last = v;
        }
    }
    let done: Vec<String> = node.blocked_sends.iter().filter_map(|p| p.finished().map(|x| format!("{}: {}", p.name, x.1))).collect();
    if stable < 5 || !done.is_empty() {
        return Err(format!("senders never all parked (sent {}, inside {}, returned {:?})", sent.load(Ordering::SeqCst), inside.load(Ordering::SeqCst), done));
    }
    out.notes.push(format!("{} sender(s) on {} channel(s) parked after {} sends", n, want_ch, sent.load(Ordering::SeqCst)));
    out.labels.push(format!("parked-senders:{n}"));
    out.labels.push(format!("parked-channels:{want_ch}"));
    if n >= 2 && want_ch >= 2 {
        out.labels.push("parked:multi-channel".into());
    }
    Ok(())
}

/// two events released by a barrier
async fn fire_race(e1: Event, e2: Event, cell: &Cell, rig: &mut PairRig, subject: usize, out: &mut Outcome) {
    let peer = 1 - subject;
    let mut bundle = None;
    let mut own_clone: Option<PeerConnection> = None;
    if e1 == Event::DropAll || e2 == Event::DropAll {
        let node = rig.node_mut(subject);
        for p in [node.pump.take(), node.wfc.take()].into_iter().flatten().chain(std::mem::take(&mut node.blocked_sends)) {
            p.kill().await;
        }
        if let Some(m) = node.media.as_mut() {
            if let Some(f) = m.feeder.take() {
                f.abort();
            }
        }
        // when close()/stop() races with the drop, the closing task owns a clone and drops it afterwards
        let pc = node.pc.take();
        own_clone = pc.clone();
        bundle = Some((pc, node.media.take(), std::mem::take(&mut node.transceivers)));
    }
    let barrier = Arc::new(tokio::sync::Barrier::new(2));
    let mut handles: Vec<JoinHandle<Option<(&'static str, bool, String)>>> = Vec::new();
    for ev in [e1, e2] {
        let b = barrier.clone();
        let h_s = rig.node(subject).h.clone();
        let h_p = rig.node(peer).h.clone();
        let pc_s = rig.node(subject).pc.clone().or_else(|| own_clone.clone());
        let pc_p = rig.node(peer).pc.clone();
        let gates = rig.proxy.gate.clone();
        let bun = if ev == Event::DropAll { bundle.take() } else { None };
        handles.push(infra().spawn(async move {
            match ev {
                Event::Close => {
                    let Some(pc) = pc_s else {
                        b.wait().await;
                        return None;
                    };
                    let r = call(&h_s, LOCAL_BOUND + Duration::from_secs(1), async move {
                        b.wait().await;
                        pc.close();
                    })
                    .await;
                    match r {
                        CallRes::Done(..) => None,
                        CallRes::Hang => Some(("close-hangs", true, "close() did not return within 2 s".to_string())),
                        CallRes::Panic(p) => Some(("close-panics", false, p)),
                    }
                }
                Event::IceStop => {
                    let Some(pc) = pc_s else {
                        b.wait().await;
                        return None;
                    };
                    let r = call(&h_s, LOCAL_BOUND + Duration::from_secs(1), async move {
                        b.wait().await;
                        pc.ice_transport().stop();
                    })
                    .await;
                    match r {
                        CallRes::Done(..) => None,
                        CallRes::Hang => Some(("ice-stop-hangs", true, "stop() did not return within 2 s".to_string())),
                        CallRes::Panic(p) => Some(("ice-stop-panics", false, p)),
                    }
                }
                Event::DropAll => {
                    drop(pc_s);
                    let r = call(&h_s, LOCAL_BOUND + Duration::from_secs(1), async move {
                        b.wait().await;
                        drop(bun);
                    })
                    .await;
                    match r {
                        CallRes::Done(..) => None,
                        CallRes::Hang => Some(("drop-hangs", true, "drop did not return within 2 s".to_string())),
                        CallRes::Panic(p) => Some(("drop-panics", false, p)),
                    }
                }
                Event::PeerClose => {
                    drop(pc_s);
                    let Some(pc) = pc_p else {
                        b.wait().await;
                        return None;
                    };
                    let _ = call(&h_p, LOCAL_BOUND + Duration::from_secs(1), async move {
                        b.wait().await;
                        pc.close();
                    })
                    .await;
                    None
                }
                Event::Blackhole => {
                    drop(pc_s);
                    b.wait().await;
                    gates[0].store(Gate::DropAll as u8, Ordering::SeqCst);
                    gates[1].store(Gate::DropAll as u8, Ordering::SeqCst);
                    None
                }
                _ => {
                    b.wait().await;
                    None
                }
            }
        }));
    }
    drop(own_clone);
    for h in handles {
        if let Ok(Some((clause, timing, msg))) = h.await {
            out.fail(cell, clause, timing, msg);
        }
    }
}

// ------------------------------------------------------------------------------------------------
// the low-level peer: answers STUN checks, runs rustrtc's DTLS and SCTP transports directly, and lets the
// harness put hand-made SCTP packets (ABORT, SHUTDOWN) into the DTLS association

#[derive(Default)]
struct LowTags {
    /// initiate tag of the subject = verification tag of packets sent to it
    subject_tag: Option<u32>,
    highest_tsn: Option<u32>,
    chunk_types: Vec<u8>,
    shutdown_acks: u32,
}

struct LowPeer {
    addr: SocketAddr,
    dtls: Arc<DtlsTransport>,
    sctp: Arc<SctpTransport>,
    tags: Arc<Mutex<LowTags>>,
    hold_sctp: Arc<AtomicBool>,
    dead: Arc<AtomicBool>,
    rtp_seen: Arc<AtomicU64>,
    tasks: Vec<JoinHandle<()>>,
    _keep: Arc<Mutex<Vec<Arc<DataChannel>>>>,
    _chans: Arc<Mutex<Vec<Weak<DataChannel>>>>,
    _sock_tx: watch::Sender<Option<IceSocketWrapper>>,
    ufrag: String,
    pwd: String,
    fingerprint: String,
}

fn stun_success_response(req: &[u8], src: SocketAddr, pwd: &str) -> Option<Vec<u8>> {
    if req.len() < 20 || req[0] & 0xC0 != 0 {
        return None;
    }
    let mtype = u16::from_be_bytes([req[0], req[1]]);
    if u32::from_be_bytes([req[4], req[5], req[6], req[7]]) != stunwire::MAGIC {
        return None;
    }
    // binding request only (class bits 0)
    if mtype != 0x0001 {
        return None;
    }
    let mut txid = [0u8; 12];
    txid.copy_from_slice(&req[8..20]);
    let mut m = vec![0x01, 0x01, 0, 0];
    m.extend_from_slice(&stunwire::MAGIC.to_be_bytes());
    m.extend_from_slice(&txid);
    let xa = stunwire::xor_addr_value(&src, &txid);
    m.extend_from_slice(&0x0020u16.to_be_bytes());
    m.extend_from_slice(&(xa.len() as u16).to_be_bytes());
    m.extend_from_slice(&xa);
    while m.len() % 4 != 0 {
        m.push(0);
    }
    let mi_off = m.len();
    let mi = stunwire::expected_integrity(&m, mi_off, pwd.as_bytes());
    m.extend_from_slice(&0x0008u16.to_be_bytes());
    m.extend_from_slice(&20u16.to_be_bytes());
    m.extend_from_slice(&mi);
    let fp_off = m.len();
    // the length must already cover the fingerprint when it is computed; expected_fingerprint does that
    let fp = stunwire::expected_fingerprint(&m, fp_off);
    m.extend_from_slice(&0x8028u16.to_be_bytes());
    m.extend_from_slice(&4u16.to_be_bytes());
    m.extend_from_slice(&fp.to_be_bytes());
    let l = (m.len() - 20) as u16;
    m[2..4].copy_from_slice(&l.to_be_bytes());
    Some(m)
}

impl LowPeer {
    async fn new(subject_addr: SocketAddr, subject_fp: Option<String>, hold_sctp: bool) -> Result<LowPeer, String> {
        let sock = Arc::new(UdpSocket::bind("127.0.0.1:0").await.map_err(|e| format!("bind: {e}"))?);
        let addr = sock.local_addr().map_err(|e| format!("{e}"))?;
        let (stx, srx) = watch::channel(Some(IceSocketWrapper::Udp(sock.clone())));
        let conn = IceConn::new(srx, subject_addr, Some("low".into()));
        let n = INSTANCE.fetch_add(1, Ordering::SeqCst) as usize;
        let cert = rig::cert(n);
        let fingerprint = dtls::fingerprint(&cert);
        let (dtls_t, app_rx, dtls_run) = DtlsTransport::new(conn.clone(), cert, false, 2048, subject_fp)
            .await
            .map_err(|e| format!("DtlsTransport::new: {e}"))?;
        let chans: Arc<Mutex<Vec<Weak<DataChannel>>>> = Arc::new(Mutex::new(Vec::new()));
        let (in_tx, in_rx) = mpsc::unbounded_channel::<Bytes>();
        let (ndc_tx, mut ndc_rx) = mpsc::unbounded_channel();
        let cfg = RtcConfiguration::default();
        let (sctp, sctp_run) = SctpTransport::new(dtls_t.clone(), in_rx, chans.clone(), 5000, 5000, Some(ndc_tx), false, &cfg);
        let tags = Arc::new(Mutex::new(LowTags::default()));
        let hold = Arc::new(AtomicBool::new(hold_sctp));
        let dead = Arc::new(AtomicBool::new(false));
        let rtp_seen = Arc::new(AtomicU64::new(0));
        let keep: Arc<Mutex<Vec<Arc<DataChannel>>>> = Arc::new(Mutex::new(Vec::new()));
        let ufrag = format!("low{:013x}", n as u64 * 7919 + 1);
        let pwd = format!("lowpeerpassword{:017x}", n as u64 * 104729 + 3);
        let mut tasks = Vec::new();
        tasks.push(infra().spawn(dtls_run));
        tasks.push(infra().spawn(sctp_run));
        {
            let keep = keep.clone();
            tasks.push(infra().spawn(async move {
                while let Some(dc) = ndc_rx.recv().await {
                    keep.lock().push(dc);
                }
            }));
        }
        // socket reader: STUN is answered here, everything else goes to the IceConn
        {
            let sock = sock.clone();
            let conn = conn.clone();
            let pwd = pwd.clone();
            let rtp_seen = rtp_seen.clone();
            tasks.push(infra().spawn(async move {
                let mut buf = vec![0u8; 65536];
                let mut scratch = Vec::new();
                loop {
                    let Ok((n, src)) = sock.recv_from(&mut buf).await else { break };
                    if n == 0 {
                        continue;
                    }
                    let b0 = buf[0];
                    if b0 < 4 {
                        if let Some(resp) = stun_success_response(&buf[..n], src, &pwd) {
                            let _ = sock.send_to(&resp, src).await;
                        }
                        continue;
                    }
                    if (128..192).contains(&b0) {
                        rtp_seen.fetch_add(1, Ordering::Relaxed);
                        continue;
                    }
                    conn.receive(Bytes::copy_from_slice(&buf[..n]), src, &mut scratch).await;
                }
            }));
        }
        // plaintext pump between DTLS and the local SCTP transport
        {
            let tags = tags.clone();
            let hold = hold.clone();
            let dead = dead.clone();
            let dtls_t = dtls_t.clone();
            let mut app_rx = app_rx;
            tasks.push(infra().spawn(async move {
                while let Some(b) = app_rx.recv().await {
                    let mut complete = None;
                    if let Some(p) = wire::sctp_parse(&b) {
                        let mut t = tags.lock();
                        for c in &p.chunks {
                            t.chunk_types.push(c.ctype);
                            if c.ctype == wire::CT_INIT {
                                if let Some((tag, _, tsn)) = c.as_init() {
                                    t.subject_tag = Some(tag);
                                    t.highest_tsn = Some(tsn.wrapping_sub(1));
                                }
                            }
                            if let Some(d) = c.as_data() {
                                t.highest_tsn = Some(d.tsn);
                            }
                            if c.ctype == wire::CT_SHUTDOWN_ACK {
                                t.shutdown_acks += 1;
                                complete = t.subject_tag;
                            }
                        }
                    }
                    if let Some(tag) = complete {
                        // SHUTDOWN COMPLETE (RFC 4960 3.3.13)
                        let pkt = wire::sctp_build(5000, 5000, tag, &[(14, 0, vec![])]);
                        let _ = dtls_t.send(Bytes::from(pkt)).await;
                    }
                    if !hold.load(Ordering::SeqCst) && !dead.load(Ordering::SeqCst) {
                        let _ = in_tx.send(b);
                    }
                }
            }));
        }
        Ok(LowPeer {
            addr,
            dtls: dtls_t,
            sctp,
            tags,
            hold_sctp: hold,
            dead,
            rtp_seen,
            tasks,
            _keep: keep,
            _chans: chans,
            _sock_tx: stx,
            ufrag,
            pwd,
            fingerprint,
        })
    }

    /// the answer to `offer`, written by hand from the offer text
    fn answer_for(&self, offer: &SessionDescription) -> Result<SessionDescription, String> {
        let mut out = String::new();
        for line in offer.to_sdp_string().lines() {
            let line = line.trim_end_matches('\r');
            let l = if line.starts_with("a=ice-ufrag:") {
                format!("a=ice-ufrag:{}", self.ufrag)
            } else if line.starts_with("a=ice-pwd:") {
                format!("a=ice-pwd:{}", self.pwd)
            } else if line.starts_with("a=candidate:") {
                format!("a=candidate:1 1 udp 2130706431 {} {} typ host", self.addr.ip(), self.addr.port())
            } else if line.starts_with("a=fingerprint:") {
                format!("a=fingerprint:sha-256 {}", self.fingerprint)
            } else if line.starts_with("a=setup:") {
                "a=setup:passive".to_string()
            } else if line.starts_with("a=ssrc:") || line.starts_with("a=msid:") {
                continue;
            } else if line == "a=sendrecv" || line == "a=sendonly" {
                // data section keeps sendrecv; media is received only
                line.to_string()
            } else {
                line.to_string()
            };
            out.push_str(&l);
            out.push_str("\r\n");
        }
        SessionDescription::parse(SdpType::Answer, &out).map_err(|e| format!("hand-made answer does not parse: {e:?}\n{out}"))
    }

    async fn inject(&self, chunk_type: u8, value: Vec<u8>) -> Result<(), String> {
        let tag = self.tags.lock().subject_tag.ok_or("the subject's INIT was never seen")?;
        let pkt = wire::sctp_build(5000, 5000, tag, &[(chunk_type, 0, value)]);
        self.dtls.send(Bytes::from(pkt)).await.map_err(|e| format!("dtls send: {e}"))
    }
}

impl Drop for LowPeer {
    fn drop(&mut self) {
        self.sctp.close();
        self.dtls.close();
        for t in &self.tasks {
            t.abort();
        }
    }
}

fn subject_addr_and_fp(offer: &SessionDescription) -> Result<(SocketAddr, Option<String>), String> {
    let mut addr = None;
    let mut fp = None;
    for line in offer.to_sdp_string().lines() {
        let line = line.trim_end_matches('\r');
        if let Some(rest) = line.strip_prefix("a=candidate:") {
            let tok: Vec<&str> = rest.split_whitespace().collect();
            if tok.len() >= 6 && !tok[2].eq_ignore_ascii_case("tcp") {
                if let (Ok(ip), Ok(port)) = (tok[4].parse::<IpAddr>(), tok[5].parse::<u16>()) {
                    addr = Some(SocketAddr::new(ip, port));
                }
            }
        }
        if let Some(rest) = line.strip_prefix("a=fingerprint:sha-256 ") {
            fp = Some(rest.trim().to_string());
        }
    }
    Ok((addr.ok_or("offer without candidate")?, fp))
}

async fn run_low_cell(cell: Cell) -> Outcome {
    let mut out = Outcome::default();
    let mut s = match Node::new_opts(0, Mode::WebRtc, None, NodeOpts { blocked: cell.blocked, legacy_sip: false, rt_handle: cell.rt_handle, ice_tcp: cell.ice_tcp }).await {
        Ok(n) => n,
        Err(e) => {
            out.fail(&cell, "phase-not-reached", false, e);
            return out;
        }
    };
    let r: Result<LowPeer, String> = async {
        for i in 0..cell.channels.max(1) {
            s.create_channel(&format!("ch{i}"), None)?;
        }
        if cell.phase == Phase::MediaFlowing {
            s.add_audio_sender()?;
        }
        s.start_pump();
        if cell.phase == Phase::SctpConnecting {
            // not pending in the later phases: it has returned by then
        }
        let offer = make_offer(&s).await?;
        let (addr, fp) = subject_addr_and_fp(&offer)?;
        let low = LowPeer::new(addr, fp, cell.phase == Phase::SctpConnecting).await?;
        let answer = low.answer_for(&offer)?;
        apply_answer(&s, answer).await?;
        let st = s.st.clone();
        if !wait_until(REACH_LIMIT, || *st.borrow() == PeerConnectionState::Connected).await {
            return Err(format!("subject never Connected to the low-level peer (state {:?}, ice {:?}, reason {:?})", *st.borrow(), *s.ice.borrow(), s.reason_now()));
        }
        if cell.phase == Phase::SctpConnecting {
            let tags = low.tags.clone();
            if !wait_until(REACH_LIMIT, || tags.lock().subject_tag.is_some()).await {
                return Err("the subject's INIT never arrived".into());
            }
        } else {
            let ch = s.chans.clone();
            if !wait_until(REACH_LIMIT, || ch.lock().iter().all(|c| c.count(DcEv::Open) > 0)).await {
                return Err(format!("channels did not open towards the low-level peer (chunk types seen {:?})", low.tags.lock().chunk_types));
            }
            let ids: Vec<u16> = s.chans.lock().iter().map(|c| c.id).collect();
            for id in ids {
                let pc = s.pc();
                let _ = api(&s.h, "send_data", async move { pc.send_data(id, b"hello").await.map_err(|e| format!("{e}")) }).await;
            }
        }
        if cell.phase == Phase::MediaFlowing {
            s.start_feeding();
            let seen = low.rtp_seen.clone();
            if !wait_until(REACH_LIMIT, || seen.load(Ordering::Relaxed) >= 3).await {
                return Err("no media reached the low-level peer".into());
            }
        }
        if cell.phase == Phase::Renegotiating {
            let t = s.pc().add_transceiver(MediaKind::Video, TransceiverDirection::SendRecv);
            s.transceivers.push(t);
            let _ = make_offer(&s).await?;
        }
        Ok(low)
    }
    .await;
    let low = match r {
        Ok(l) => l,
        Err(e) => {
            out.fail(&cell, "phase-not-reached", false, e);
            release_node(&cell, s, "", &mut Outcome::default()).await;
            return out;
        }
    };
    out.reached = true;
    out.notes.push(format!("tasks at phase: {} sockets {}", s.alive_tasks(), sockets_on(s.ip).len()));
    if cell.blocked {
        // the peer's SCTP goes deaf: nothing the subject sends is acknowledged any more
        low.hold_sctp.store(true, Ordering::SeqCst);
        if let Err(e) = block_senders(&cell, &mut s, &mut out).await {
            out.fail(&cell, "phase-not-reached", false, e);
            drop(low);
            release_node(&cell, s, "", &mut Outcome::default()).await;
            return out;
        }
    }
    tokio::time::sleep(Duration::from_millis(cell.fire_delay_ms as u64)).await;
    if cell.late_channel & 1 != 0 {
        s.create_late_channel(&cell, "phase", &mut out);
    }
    out.labels.push(format!("caller:{}", ["runtime-task", "plain-thread", "plain-thread-after-runtime-shutdown", "spawn_blocking"][cell.caller_ctx() as usize]));
    out.labels.push(if cell.rt_handle { "runtime_handle:some".into() } else { "runtime_handle:none".into() });

    // ---- fire: the remote SCTP event, possibly racing with a local one
    let t0 = Instant::now();
    let remote = if cell.event.needs_low_peer() { cell.event } else { cell.second.unwrap_or(Event::PeerAbort) };
    let local = if cell.event.needs_low_peer() { cell.second } else { Some(cell.event) };
    let barrier = Arc::new(tokio::sync::Barrier::new(if local.is_some() { 2 } else { 1 }));
    let inj = {
        let b = barrier.clone();
        let low_ref = &low;
        async move {
            b.wait().await;
            match remote {
                Event::PeerAbort => low_ref.inject(wire::CT_ABORT, vec![]).await,
                Event::PeerCloseNotify => {
                    // DtlsTransport::close() sends the close_notify alert; the socket and STUN stay up
                    low_ref.dead.store(true, Ordering::SeqCst);
                    low_ref.sctp.close();
                    low_ref.dtls.close();
                    Ok(())
                }
                _ => {
                    let tsn = low_ref.tags.lock().highest_tsn.unwrap_or(0);
                    let r = low_ref.inject(wire::CT_SHUTDOWN, tsn.to_be_bytes().to_vec()).await;
                    // from here on the peer's association is gone: it no longer acks or sends anything
                    low_ref.dead.store(true, Ordering::SeqCst);
                    low_ref.sctp.close();
                    r
                }
            }
        }
    };
    let mut local_fail = None;
    let loc = async {
        if let Some(ev) = local {
            match ev {
                Event::Close => {
                    let pc = s.pc();
                    let b = barrier.clone();
                    if let CallRes::Hang = call(&s.h, LOCAL_BOUND + Duration::from_secs(1), async move {
                        b.wait().await;
                        pc.close()
                    })
                    .await
                    {
                        local_fail = Some("close-hangs");
                    }
                }
                Event::IceStop => {
                    let pc = s.pc();
                    let b = barrier.clone();
                    if let CallRes::Hang = call(&s.h, LOCAL_BOUND + Duration::from_secs(1), async move {
                        b.wait().await;
                        pc.ice_transport().stop()
                    })
                    .await
                    {
                        local_fail = Some("ice-stop-hangs");
                    }
                }
                Event::DropAll => {
                    for p in [s.pump.take(), s.wfc.take()].into_iter().flatten().chain(std::mem::take(&mut s.blocked_sends)) {
                        p.kill().await;
                    }
                    if let Some(m) = s.media.as_mut() {
                        if let Some(f) = m.feeder.take() {
                            f.abort();
                        }
                    }
                    let bun = (s.pc.take(), s.media.take(), std::mem::take(&mut s.transceivers));
                    let b = barrier.clone();
                    if let CallRes::Hang = call(&s.h, LOCAL_BOUND + Duration::from_secs(1), async move {
                        b.wait().await;
                        drop(bun)
                    })
                    .await
                    {
                        local_fail = Some("drop-hangs");
                    }
                }
                _ => {
                    barrier.wait().await;
                }
            }
        }
    };
    let (ir, _) = tokio::join!(inj, loc);
    if let Some(c) = local_fail {
        out.fail(&cell, c, true, "the local event did not return within 2 s".into());
    }
    if let Err(e) = ir {
        if local.is_none() {
            out.fail(&cell, "phase-not-reached", false, format!("could not inject: {e}"));
        } else {
            out.notes.push(format!("inject: {e}"));
        }
    }
    // a remote ABORT / SHUTDOWN arrives as a packet: the 2 s bound applies
    finish_subject(&cell, s, t0, LOCAL_BOUND, true, &mut out).await;
    out.notes.push(format!("peer saw chunk types {:?}, shutdown acks {}", {
        let t = low.tags.lock();
        let mut v = t.chunk_types.clone();
        v.dedup();
        v.truncate(40);
        v
    }, low.tags.lock().shutdown_acks));
    let _ = low.hold_sctp.load(Ordering::Relaxed);
    drop(low);
    out
}

// ------------------------------------------------------------------------------------------------
// entry point

/// signatures of defects that hit (nearly) every cell; once they are known findings the clause is left out
/// by construction and counted
const SIG_PC_RECV: &str = "pc-recv-never-returns-after-close";
const SIG_SRTP_RACE: &str = "srtp-transport-start-races-with-descriptions";
const SIG_F13: &str = "tasks-leak@dtls-handshaking/close/webrtc";
const SIG_DC_UNOPENED: &str = "dc-recv-never-returns-for-unopened-channel";
const SIG_DC_AFTER_CLOSE: &str = "create_data_channel-after-close-recv-never-returns";
static SKIP_DC_AFTER_CLOSE: AtomicBool = AtomicBool::new(false);
const SIG_F16: &str = "shared-tcp-listener-outlives-its-last-connection";
static SKIP_F16: AtomicBool = AtomicBool::new(false);
static SKIP_PC_RECV: AtomicBool = AtomicBool::new(false);
static SKIP_DC_UNOPENED: AtomicBool = AtomicBool::new(false);

fn knobs() -> impl Strategy<Value = (bool, u8, bool, u8, u8)> {
    (any::<bool>(), 0u8..=3, any::<bool>(), 0u8..40, 0u8..3)
}

fn matrix_coords() -> Vec<(Phase, Event, Mode, bool)> {
    let mut coords = Vec::new();
    for m in MODES {
        for p in PHASES {
            for e in EVENTS {
                if applicable(p, e, m, false) {
                    coords.push((p, e, m, false));
                }
            }
            for e in [Event::Close, Event::DropAll, Event::PeerClose, Event::Blackhole, Event::PeerAbort] {
                if applicable(p, e, m, true) {
                    coords.push((p, e, m, true));
                }
            }
        }
    }
    coords
}

/// 0 channels = media-only session. Phases that are about SCTP need a channel; a media-only session closed
/// during the DTLS handshake leaks deterministically (F13) and is left out once that is a known finding.
fn clamp_channels(ctx: &Ctx, ch: u8, p: Phase, m: Mode, needs: bool) -> u8 {
    if m != Mode::WebRtc {
        return 0;
    }
    if ch > 0 {
        return ch;
    }
    if needs || matches!(p, Phase::SctpConnecting | Phase::ChannelsOpen) {
        return 1;
    }
    if p == Phase::DtlsHandshaking && ctx.is_known(SIG_F13) {
        ctx.note_excluded(SIG_F13, 1);
        return 1;
    }
    0
}

fn matrix(ctx: &Ctx) -> Vec<Cell> {
    let thorough = ctx.thorough();
    let mut coords = matrix_coords();
    if !thorough {
        // one pass in WebRtc mode, a diagonal in the other modes
        // (the Srtp and Rtp halves complement each other: every (phase, event) runs in one of the two)
        let mut k = [0usize; 3];
        coords.retain(|(_, _, m, _)| match m {
            Mode::WebRtc => true,
            Mode::Srtp => {
                k[1] += 1;
                (k[1] + ctx.seed as usize) % 2 == 0
            }
            Mode::Rtp => {
                k[2] += 1;
                (k[2] + ctx.seed as usize) % 2 == 1
            }
        });
    }
    let reps = if thorough { 5 } else { 1 };
    let n = coords.len() * reps;
    let trees = ctx.draw("matrix", n, &knobs());
    // parked senders: 1-4 tasks over 1-3 channels (own stream, so the other knobs keep their values)
    let sender_trees = ctx.draw("matrix-senders", n, &(1u8..=4, 1u8..=3));
    // Rtp / Srtp: media mix x SDP compatibility (own stream)
    let media_trees = ctx.draw("matrix-media", n, &(0u8..3, any::<bool>()));
    // orthogonal application ops (own stream): late data channel points, caller context, runtime_handle
    let op_trees = ctx.draw("matrix-ops", n, &(0u8..8, any::<bool>(), 0u8..4, any::<bool>()));
    // ICE TCP configuration (own stream)
    let tcp_trees = ctx.draw("matrix-icetcp", n, &(0u8..6));
    let mut out = Vec::new();
    for r in 0..reps {
        for (i, (p, e, m, blocked)) in coords.iter().enumerate() {
            let (so, ch, neg, delay, stall) = trees[r * coords.len() + i].current();
            let mut subject_offerer = so;
            if *p == Phase::Gathering || e.needs_low_peer() {
                subject_offerer = true;
            }
            if *m == Mode::Srtp && *p == Phase::OfferMade && !subject_offerer {
                // an Srtp answerer that has only the offer goes Failed by itself (start race)
                subject_offerer = true;
                ctx.note_excluded(SIG_SRTP_RACE, 1);
            }
            match std::env::var("C17_SUBJECT").as_deref() {
                Ok("o") => subject_offerer = true,
                Ok("n") if *p != Phase::Gathering && !e.needs_low_peer() => subject_offerer = false,
                _ => {}
            }
            let ch = std::env::var("C17_CHANNELS").ok().and_then(|s| s.parse().ok()).unwrap_or(ch);
            let mut ch = clamp_channels(ctx, ch, *p, *m, *blocked || e.needs_low_peer());
            let (mut senders, mut sender_channels) = (0u8, 0u8);
            if *blocked {
                let (sn, sc) = sender_trees[r * coords.len() + i].current();
                senders = sn;
                sender_channels = sc;
                if *p == Phase::ChannelsOpen && r == 0 {
                    // boundary shape present in every run: several senders parked on different channels
                    senders = senders.max(2);
                    sender_channels = sender_channels.max(2);
                }
                sender_channels = sender_channels.min(senders);
                ch = ch.max(sender_channels);
            }
            let (mut media_mix, mut legacy_sip) = (0u8, false);
            if *m != Mode::WebRtc {
                let (mx, ls) = media_trees[r * coords.len() + i].current();
                media_mix = mx;
                legacy_sip = ls;
                if r == 0 && matches!(*p, Phase::Created | Phase::OfferMade) {
                    // boundary shape present in every run: several unbundled m-lines (own RTP and RTCP
                    // sockets and runner each) before any answer exists, seen from the side that made them
                    media_mix = media_mix.max(1);
                    legacy_sip = true;
                    if *p == Phase::OfferMade && std::env::var("C17_SUBJECT").is_err() {
                        subject_offerer = true;
                    }
                }
            }
            let (mut late_channel, late_negotiated, mut caller, rt_handle) = op_trees[r * coords.len() + i].current();
            if r == 0 {
                // first pass: the caller contexts are spread evenly over the cells, and the late-channel points
                // that only exist for some events are always taken (after a remote end event, after close())
                caller = ((i as u64 + ctx.seed) % 4) as u8;
                if !e.local() {
                    late_channel |= 2;
                }
                if *e == Event::Close {
                    late_channel |= 4;
                }
            }
            if *m != Mode::WebRtc {
                late_channel = 0;
            }
            let mut ice_tcp = tcp_trees[r * coords.len() + i].current();
            if r == 0 {
                // first pass: the six TCP configurations are spread evenly over the cells
                ice_tcp = ((i as u64 + ctx.seed / 4) % 6) as u8;
            }
            if *m != Mode::WebRtc {
                ice_tcp = 0;
            }
            if ice_tcp >= 4 && ctx.is_known(SIG_F16) {
                // the single-port (shared listener) shape leaks in every cell while F16 is open: use the
                // multi-port range with the same policy instead and count it
                ctx.note_excluded(SIG_F16, 1);
                ice_tcp -= 3;
            }
            out.push(Cell {
                phase: *p,
                event: *e,
                second: None,
                mode: *m,
                blocked: *blocked,
                senders,
                sender_channels,
                late_channel,
                late_negotiated,
                caller,
                rt_handle,
                ice_tcp,
                media_mix,
                legacy_sip,
                subject_offerer,
                channels: if *m == Mode::WebRtc { ch } else { 0 },
                negotiated: neg && !e.needs_low_peer(),
                fire_delay_ms: delay,
                stall_dir: stall,
            });
        }
    }
    out
}

/// racing pairs: (phase, two events, mode)
fn race_strategy() -> impl Strategy<Value = Cell> {
    let phases = [
        Phase::Checking,
        Phase::IceConnected,
        Phase::DtlsHandshaking,
        Phase::DtlsConnected,
        Phase::SctpConnecting,
        Phase::ChannelsOpen,
        Phase::MediaFlowing,
        Phase::Renegotiating,
    ];
    (any::<u16>(), any::<u16>(), any::<u16>(), 0u8..10, knobs()).prop_map(move |(pi, e1, e2, mi, (so, ch, neg, delay, stall))| {
        let mode = match mi {
            0 => Mode::Rtp,
            1 => Mode::Srtp,
            _ => Mode::WebRtc,
        };
        let mut phase = phases[engine::pick(pi, phases.len())];
        if mode != Mode::WebRtc {
            phase = match phase {
                Phase::Checking | Phase::IceConnected | Phase::DtlsHandshaking | Phase::DtlsConnected => Phase::IceConnected,
                Phase::SctpConnecting | Phase::ChannelsOpen | Phase::MediaFlowing => Phase::MediaFlowing,
                _ => Phase::Renegotiating,
            };
        }
        let pool: Vec<Event> = EVENTS.iter().copied().filter(|e| applicable(phase, *e, mode, false)).collect();
        let a = pool[engine::pick(e1, pool.len())];
        // the second event differs from the first; two remote SCTP events do not combine
        let rest: Vec<Event> = pool.iter().copied().filter(|e| *e != a && !(a.needs_low_peer() && !e.local()) && !(e.needs_low_peer() && !a.local())).collect();
        let b = if rest.is_empty() { Event::Close } else { rest[engine::pick(e2, rest.len())] };
        let low = a.needs_low_peer() || b.needs_low_peer();
        Cell {
            phase,
            event: a,
            second: Some(b),
            mode,
            blocked: false,
            senders: 0,
            sender_channels: 0,
            late_channel: 0,
            late_negotiated: false,
            caller: 0,
            rt_handle: false,
            ice_tcp: if mode == Mode::WebRtc { (delay % 12).min(6) % 6 } else { 0 },
            media_mix: if mode == Mode::WebRtc { 0 } else { stall % 3 },
            legacy_sip: mode != Mode::WebRtc && delay % 2 == 1,
            subject_offerer: so || low,
            channels: if mode == Mode::WebRtc { ch } else { 0 },
            negotiated: neg && !low,
            fire_delay_ms: delay,
            stall_dir: stall,
        }
    })
}

async fn run_cell(cell: Cell) -> Outcome {
    if cell.low_peer() { run_low_cell(cell).await } else { run_pair_cell(cell).await }
}

fn progress_line(c: &Cell, t: Instant, o: &Outcome, tag: &str) {
    if engine::progress() {
        eprintln!(
            "[{}{}] {:.2}s {} :: {}",
            tag,
            c.coord(),
            t.elapsed().as_secs_f64(),
            if o.fails.is_empty() { "ok".to_string() } else { o.fails.iter().map(|f| format!("{}{}", f.signature, if f.timing { "(t)" } else { "" })).collect::<Vec<_>>().join(" ") },
            o.notes.join("; ").chars().take(1100).collect::<String>()
        );
    }
}

fn run_batch(cells: Vec<Cell>, conc: usize) -> Vec<(Cell, Outcome)> {
    infra().block_on(async {
        let sem = Arc::new(tokio::sync::Semaphore::new(conc.max(1)));
        let mut hs = Vec::new();
        for c in cells {
            let sem = sem.clone();
            let c2 = c.clone();
            hs.push((
                c2,
                infra().spawn(async move {
                    let _p = sem.acquire_owned().await.unwrap();
                    let t = Instant::now();
                    let o = run_cell(c.clone()).await;
                    progress_line(&c, t, &o, "");
                    o
                }),
            ));
        }
        let mut v = Vec::new();
        for (c, h) in hs {
            match h.await {
                Ok(o) => v.push((c, o)),
                Err(e) => {
                    let mut o = Outcome::default();
                    o.fails.push(Fail::new(c.sig("harness-task-panic"), format!("case task failed: {e}")));
                    v.push((c, o));
                }
            }
        }
        v
    })
}

fn run_alone(c: &Cell) -> Outcome {
    let t = Instant::now();
    let o = infra().block_on(run_cell(c.clone()));
    progress_line(c, t, &o, "solo ");
    o
}

/// first failure that is not a known finding; known ones are counted
fn verdict(ctx: &Ctx, o: &Outcome) -> Check {
    let mut res: Check = Ok(());
    let mut seen = HashSet::new();
    for f in &o.fails {
        if ctx.is_known(&f.signature) {
            if seen.insert(f.signature.clone()) {
                ctx.note_excluded(&f.signature, 1);
            }
        } else if res.is_ok() {
            res = Err(f.clone());
        }
    }
    res
}

fn unknown_failure(ctx: &Ctx, o: &Outcome) -> Option<Fail> {
    o.fails.iter().find(|f| !ctx.is_known(&f.signature)).cloned()
}

/// judge one batch: failures are re-run alone (time-bounded clauses: must fail three times alone)
fn judge(ctx: &Ctx, sub: &str, results: Vec<(Cell, Outcome)>) {
    for (c, mut o) in results {
        let rec = CaseRec::default();
        if let Some(f) = unknown_failure(ctx, &o) {
            // reproduce alone
            let mut confirmed = false;
            let tries = if f.timing { 3 } else { 1 };
            for _ in 0..tries {
                let o2 = run_alone(&c);
                match unknown_failure(ctx, &o2) {
                    None => {
                        o = o2;
                        confirmed = false;
                        break;
                    }
                    Some(f2) => {
                        let stop = !f2.timing;
                        o = o2;
                        confirmed = true;
                        if stop {
                            break;
                        }
                    }
                }
            }
            if !confirmed {
                rec.inconclusive_timing();
            }
        }
        for l in &o.labels {
            rec.label(l.clone());
        }
        for s in &o.skipped {
            ctx.note_excluded(s, 1);
        }
        rec.label(format!("phase:{}", c.phase.name()));
        rec.label(format!("event:{}", c.event_name()));
        rec.label(format!("mode:{}", c.mode.name()));
        rec.label(if c.subject_offerer { "subject:offerer" } else { "subject:answerer" });
        if o.reached {
            rec.label("reached");
        }
        rec.set_nontrivial(o.reached && !(c.phase == Phase::Created && c.event == Event::Close && c.second.is_none()));
        let v = serde_json::to_value(&c).unwrap();
        let res = verdict(ctx, &o);
        if let Err(f) = ctx.record(sub, &v, &rec, &res) {
            ctx.violation(sub, &v, &f);
        }
    }
}

// A panic inside a destructor of the code under test while another panic unwinds ("panic in a destructor
// during cleanup") aborts the whole process. That is itself a violation of "close / drop is harmless"; make
// sure it is reported as one (exit code 1) instead of a bare SIGABRT. libc is linked by std; only
// async-signal-safe calls are made in the handler.
unsafe extern "C" {
    fn signal(signum: i32, handler: usize) -> usize;
    fn write(fd: i32, buf: *const u8, count: usize) -> isize;
    fn _exit(code: i32) -> !;
}

extern "C" fn on_abort(_sig: i32) {
    const MSG: &[u8] = b"\nVIOLATION property=C17 replay=none\n  sub=matrix signature=process-abort\n  the process was aborted by a non-unwinding panic (a destructor of the code under test panicked during cleanup) while a C17 case was running; see the [panic] lines above (VERIF_VERBOSE=1)\n";
    unsafe {
        let _ = write(1, MSG.as_ptr(), MSG.len());
        _exit(1);
    }
}

fn install_abort_reporter() {
    const SIGABRT: i32 = 6;
    unsafe {
        let _ = signal(SIGABRT, on_abort as *const () as usize);
    }
}

pub fn run(ctx: &mut Ctx) {
    install_abort_reporter();
    ctx.level = "fault_enumeration";
    ctx.rule = "matrix: one case per applicable (phase, terminating event, transport mode) cell on two real PeerConnections joined by a harness UDP proxy (peer SCTP ABORT/SHUTDOWN: against a low-level peer that speaks STUN/DTLS/SCTP and injects hand-made chunks), knobs (subject side, channel count, in-band vs negotiated channels, firing delay, stall direction) drawn from the seed; race: two events released by a barrier. Non-trivial = the case reached its phase and is not (created, close); distinct = distinct (cell, knobs).".into();
    ctx.assumptions = vec![
        "both endpoints run in this process on loopback; each endpoint has a dedicated tokio runtime and a unique 127.x.y.z bind address, so task and socket counts are attributed per connection".into(),
        format!(
            "liveness timers of the runs: ice_disconnect_threshold {} ms, ice_disconnect_grace {} ms, ice_connection_timeout {} ms, stun/nomination timeout {} ms; bound for local events and API calls 2 s, for events only detectable by silence max(threshold+grace, connection_timeout)+2 s = {} ms",
            ICE_DISCONNECT_THRESHOLD.as_millis(),
            ICE_DISCONNECT_GRACE.as_millis(),
            ICE_CONNECTION_TIMEOUT.as_millis(),
            STUN_TIMEOUT.as_millis(),
            silence_bound().as_millis()
        ),
        "racing events are sampled by repetition under the OS scheduler (barrier release on two tasks), not enumerated".into(),
        "a state in {Closed, Failed, Disconnected} together with disconnect_reason()=Some counts as terminal once it has not changed for 0.9 s".into(),
        "Rtp / Srtp modes have no ICE, DTLS or SCTP liveness: peer close and blackhole are undetectable by design there; those cells check that the connection stays usable and that a later close() is clean".into(),
        "time-bounded clauses follow the re-run rule: a failure must repeat three times with the case running alone".into(),
    ];
    SKIP_PC_RECV.store(ctx.is_known(SIG_PC_RECV), Ordering::Relaxed);
    SKIP_DC_UNOPENED.store(ctx.is_known(SIG_DC_UNOPENED), Ordering::Relaxed);
    SKIP_DC_AFTER_CLOSE.store(ctx.is_known(SIG_DC_AFTER_CLOSE), Ordering::Relaxed);
    SKIP_F16.store(ctx.is_known(SIG_F16), Ordering::Relaxed);
    let conc: usize = std::env::var("C17_CONC").ok().and_then(|s| s.parse().ok()).unwrap_or(16);
    let only = std::env::var("C17_ONLY").ok();
    let keep = |c: &Cell| only.as_ref().map(|o| c.coord().contains(o.as_str())).unwrap_or(true);

    // replay mode
    for sub in ["matrix", "race"] {
        if let Some(c) = ctx.replay_case::<Cell>(sub) {
            let o = run_alone(&c);
            judge(ctx, sub, vec![(c, o)]);
            if !ctx.has_violation() {
                println!("replay: property={} sub={} PASS", ctx.prop, sub);
            }
            return;
        }
    }
    if ctx.is_replay() {
        return;
    }
    // committed replays first
    for sub in ["matrix", "race"] {
        let cases = ctx.regression_cases::<Cell>(sub);
        if !cases.is_empty() {
            let r = run_batch(cases, conc);
            judge(ctx, sub, r);
        }
    }

    let cells: Vec<Cell> = matrix(ctx).into_iter().filter(|c| keep(c)).collect();
    ctx.set_extra("matrix_cells_applicable", serde_json::json!(matrix_coords().len()));
    ctx.set_extra("matrix_cases_run", serde_json::json!(cells.len()));
    let r = run_batch(cells, conc);
    judge(ctx, "matrix", r);

    let n_race = if std::env::var("C17_NO_RACE").is_ok() { 0 } else { ctx.scale(20usize, 300usize) };
    if n_race > 0 {
        let trees = ctx.draw("race", n_race, &race_strategy());
        let mut cells: Vec<Cell> = trees.iter().map(|t| t.current()).filter(|c| keep(c)).collect();
        for c in cells.iter_mut() {
            c.channels = clamp_channels(ctx, c.channels, c.phase, c.mode, c.low_peer());
            if c.ice_tcp >= 4 && ctx.is_known(SIG_F16) {
                ctx.note_excluded(SIG_F16, 1);
                c.ice_tcp -= 3;
            }
        }
        // A pair in which no event can end the connection on the current tree (each one is a known
        // "no terminal state" cell, or a remote event next to such a local one) fails the same way as the
        // single cells: steer away from it and count it under the known signature.
        let before = cells.len();
        cells.retain(|c| {
            let evs = [c.event, c.second.unwrap_or(c.event)];
            let known_sig = |e: Event| format!("no-terminal-state@{}/{}/{}", c.phase.name(), e.name(), c.mode.name());
            let effective_local = evs.iter().any(|e| e.local() && !ctx.is_known(&known_sig(*e)));
            if effective_local {
                return true;
            }
            match evs.iter().find(|e| ctx.is_known(&known_sig(**e))) {
                Some(e) => {
                    ctx.note_excluded(&known_sig(*e), 1);
                    false
                }
                None => true,
            }
        });
        ctx.add_extra_count("race_cases_steered_away", (before - cells.len()) as u64);
        let r = run_batch(cells, conc);
        judge(ctx, "race", r);
    }
}
