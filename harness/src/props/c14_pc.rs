//! C14 Engine 2: two real PeerConnections in an SRTP-mandatory mode, joined by a harness UDP proxy
//! that sees (and judges) every datagram.
//!
//! * `TransportMode::Srtp` (SDES): the proxy forwards; the session keys are the `a=crypto` inline keys
//!   of the two descriptions.
//! * `TransportMode::WebRtc` (DTLS-SRTP): the public API does not expose the DTLS transport of a
//!   PeerConnection, so the harness, which owns the signalling channel, terminates DTLS itself: the
//!   `a=fingerprint` of each relayed description is replaced by the harness certificate's, STUN is
//!   forwarded untouched, DTLS records go to a harness `DtlsTransport` per side (whose
//!   `export_keying_material("EXTRACTOR-dtls_srtp")` yields the keys of that leg, split per RFC 5764
//!   4.2), and media is opened with the independent SRTP model under the sender leg's keys and
//!   re-protected with the model under the receiver leg's keys.
//!
//! Oracle: every datagram whose first byte is in 128..=191 that either PeerConnection sends must open
//! under the reference SRTP/SRTCP context of the sender's tx key of that leg. Datagrams seen before
//! the harness' own handshake completed are judged once the keys exist; if the keys never exist any
//! such datagram is a violation.

use crate::engine::{AsyncCheck, CaseRec, Check, Ctx, Fail, hex};
use crate::refimpl::srtp::{self as rs, Profile, Receiver, Srtp};
use bytes::Bytes;
use parking_lot::Mutex;
use proptest::prelude::*;
use rustrtc::media::MediaStreamTrack;
use rustrtc::media::frame::{AudioFrame, MediaSample, VideoFrame};
use rustrtc::transports::PacketReceiver;
use rustrtc::transports::dtls::{self, DtlsState, DtlsTransport};
use rustrtc::transports::ice::IceSocketWrapper;
use rustrtc::transports::ice::conn::IceConn;
use rustrtc::{
    MediaKind, PeerConnection, RtcConfiguration, RtpCodecParameters, SdpType, SessionDescription, TransceiverDirection,
    TransportMode,
};
use serde::{Deserialize, Serialize};
use std::net::SocketAddr;
use std::sync::Arc;
use std::sync::atomic::{AtomicBool, Ordering};
use std::time::Duration;
use tokio::net::UdpSocket;
use tokio::sync::watch;

#[derive(Clone, Copy, Debug, PartialEq, Eq, Serialize, Deserialize)]
pub enum Mode {
    WebRtc,
    Sdes,
}

#[derive(Clone, Debug, Serialize, Deserialize)]
pub struct PcCase {
    pub mode: Mode,
    pub video: bool,
    /// B sends a track as well
    pub both_send: bool,
    pub frames: u8,
    pub payload_len: u16,
    /// ordinals (0-based, among RTP datagrams A->B that were forwarded or dropped) the proxy drops
    pub drops: Vec<u8>,
    /// the track source is fed before negotiation starts (packets queue up before keys exist)
    pub early_media: bool,
    pub pli: bool,
    /// 0: A closes, 1: B closes, 2: both
    pub closer: u8,
    /// milliseconds between frames
    pub pace_ms: u8,
    /// offer RTX (RFC 4588) for video
    pub rtx: bool,
    /// frames carry application sequence numbers (the stack then numbers packets contiguously)
    pub app_seq: bool,
    /// time between the last frame and close()
    pub linger_ms: u16,
    /// mid-stream the harness sends cleartext / wrongly keyed RTP and RTCP to both PeerConnections
    #[serde(default)]
    pub inject: bool,
    /// the same right after the descriptions are set (before any keys can exist)
    #[serde(default)]
    pub early_inject: bool,
    /// PeerConnection::send_raw_rtp before negotiation and mid-stream
    #[serde(default)]
    pub raw_send: bool,
}

#[derive(Clone, Copy, PartialEq, Eq, Debug)]
enum Dir {
    AtoB,
    BtoA,
}

#[derive(Clone)]
struct Seen {
    dir: Dir,
    bytes: Vec<u8>,
}

fn is_media(b: &[u8]) -> bool {
    !b.is_empty() && (128..=191).contains(&b[0])
}

fn is_dtls(b: &[u8]) -> bool {
    !b.is_empty() && (20..=63).contains(&b[0])
}

// ---------------------------------------------------------------------------------------------
// SDP surgery (string level)
// ---------------------------------------------------------------------------------------------

fn lines(s: &str) -> Vec<String> {
    s.split('\n').map(|l| l.trim_end_matches('\r').to_string()).filter(|l| !l.is_empty()).collect()
}

fn join(ls: &[String]) -> String {
    let mut s = ls.join("\r\n");
    s.push_str("\r\n");
    s
}

struct SdpFacts {
    /// address the description advertises for media
    media_addr: Option<SocketAddr>,
    setup: Option<String>,
    crypto: Vec<(String, Vec<u8>)>,
    rtcp_mux: bool,
}

fn b64(s: &str) -> Vec<u8> {
    let mut out = Vec::new();
    let (mut acc, mut bits) = (0u32, 0);
    for c in s.bytes() {
        let v = match c {
            b'A'..=b'Z' => c - b'A',
            b'a'..=b'z' => c - b'a' + 26,
            b'0'..=b'9' => c - b'0' + 52,
            b'+' => 62,
            b'/' => 63,
            _ => continue,
        } as u32;
        acc = (acc << 6) | v;
        bits += 6;
        if bits >= 8 {
            bits -= 8;
            out.push((acc >> bits) as u8);
            acc &= (1 << bits) - 1;
        }
    }
    out
}

fn facts(sdp: &str) -> SdpFacts {
    let mut f = SdpFacts { media_addr: None, setup: None, crypto: vec![], rtcp_mux: false };
    let mut ip: Option<String> = None;
    let mut port: Option<u16> = None;
    let mut cand: Option<SocketAddr> = None;
    for l in lines(sdp) {
        if let Some(r) = l.strip_prefix("c=IN IP4 ") {
            ip = Some(r.split('/').next().unwrap_or("").trim().to_string());
        } else if l.starts_with("m=") && port.is_none() {
            port = l.split_whitespace().nth(1).and_then(|p| p.parse().ok());
        } else if let Some(r) = l.strip_prefix("a=candidate:") {
            let p: Vec<&str> = r.split_whitespace().collect();
            if p.len() >= 8 && p[2].eq_ignore_ascii_case("udp") && p[7] == "host" && cand.is_none() {
                if let (Ok(i), Ok(pt)) = (p[4].parse::<std::net::IpAddr>(), p[5].parse::<u16>()) {
                    cand = Some(SocketAddr::new(i, pt));
                }
            }
        } else if let Some(r) = l.strip_prefix("a=setup:") {
            f.setup = Some(r.trim().to_string());
        } else if let Some(r) = l.strip_prefix("a=crypto:") {
            let p: Vec<&str> = r.split_whitespace().collect();
            if p.len() >= 3 {
                if let Some(k) = p[2].strip_prefix("inline:") {
                    let k = k.split('|').next().unwrap_or("");
                    f.crypto.push((p[1].to_string(), b64(k)));
                }
            }
        } else if l == "a=rtcp-mux" {
            f.rtcp_mux = true;
        }
    }
    f.media_addr = cand.or_else(|| match (ip, port) {
        (Some(i), Some(p)) if p != 0 => i.parse::<std::net::IpAddr>().ok().map(|i| SocketAddr::new(i, p)),
        _ => None,
    });
    f
}

/// Point every address of the description at `proxy` and (WebRTC) swap the fingerprint.
fn retarget(sdp: &str, proxy: SocketAddr, new_fp: Option<&str>) -> String {
    let mut out = Vec::new();
    let mut one_cand = false;
    for l in lines(sdp) {
        if l.starts_with("m=") {
            let mut p: Vec<String> = l.split_whitespace().map(|x| x.to_string()).collect();
            if p.len() > 1 && p[1] != "0" {
                p[1] = proxy.port().to_string();
            }
            out.push(p.join(" "));
        } else if l.starts_with("c=IN IP4 ") {
            out.push(format!("c=IN IP4 {}", proxy.ip()));
        } else if let Some(r) = l.strip_prefix("a=candidate:") {
            let mut p: Vec<String> = r.split_whitespace().map(|x| x.to_string()).collect();
            if p.len() >= 8 && p[2].eq_ignore_ascii_case("udp") && p[7] == "host" && !one_cand {
                one_cand = true;
                p[4] = proxy.ip().to_string();
                p[5] = proxy.port().to_string();
                out.push(format!("a=candidate:{}", p.join(" ")));
            }
            // every other candidate is withheld: the proxy is the only path
        } else if l.starts_with("a=rtcp:") {
            out.push(format!("a=rtcp:{} IN IP4 {}", proxy.port(), proxy.ip()));
        } else if l.starts_with("a=fingerprint:") {
            match new_fp {
                Some(fp) => out.push(format!("a=fingerprint:sha-256 {}", fp)),
                None => out.push(l),
            }
        } else {
            out.push(l);
        }
    }
    join(&out)
}

// ---------------------------------------------------------------------------------------------
// keys
// ---------------------------------------------------------------------------------------------

fn profile_of_suite(s: &str) -> Option<Profile> {
    match s {
        "AES_CM_128_HMAC_SHA1_80" => Some(Profile::AesCm128HmacSha1_80),
        "AES_CM_128_HMAC_SHA1_32" => Some(Profile::AesCm128HmacSha1_32),
        "AEAD_AES_128_GCM" => Some(Profile::AeadAes128Gcm),
        _ => None,
    }
}

fn profile_of_dtls(id: Option<u16>) -> Profile {
    match id {
        Some(0x0002) => Profile::AesCm128HmacSha1_32,
        Some(0x0007) => Profile::AeadAes128Gcm,
        _ => Profile::AesCm128HmacSha1_80,
    }
}

/// RFC 5764 4.2: client_write_key | server_write_key | client_write_salt | server_write_salt.
fn split_dtls_srtp(mat: &[u8], p: Profile) -> Option<(Srtp, Srtp)> {
    let (k, s) = (16usize, p.salt_len());
    if mat.len() < 2 * (k + s) {
        return None;
    }
    let client = Srtp::new(p, &mat[0..k], &mat[2 * k..2 * k + s]).ok()?;
    let server = Srtp::new(p, &mat[k..2 * k], &mat[2 * k + s..2 * k + 2 * s]).ok()?;
    Some((client, server))
}

/// One DTLS leg terminated by the harness (facing one PeerConnection).
struct Leg {
    conn: Arc<IceConn>,
    dtls: Arc<DtlsTransport>,
    /// the harness is the DTLS client on this leg
    harness_is_client: bool,
    _sock_tx: watch::Sender<Option<IceSocketWrapper>>,
    task: tokio::task::JoinHandle<()>,
    watcher: tokio::task::JoinHandle<()>,
    /// captured as soon as the leg's handshake completes (a later close_notify must not lose them)
    captured: Arc<Mutex<Option<(Srtp, Srtp, Profile)>>>,
}

fn leg_keys(dtls: &DtlsTransport, harness_is_client: bool) -> Option<(Srtp, Srtp, Profile)> {
    let DtlsState::Connected(_, prof) = dtls.get_state() else {
        return None;
    };
    let p = profile_of_dtls(prof);
    let mat = dtls.export_keying_material("EXTRACTOR-dtls_srtp", 2 * (16 + p.salt_len())).ok()?;
    let (client, server) = split_dtls_srtp(&mat, p)?;
    if harness_is_client {
        // the PeerConnection is the server: it writes with the server key
        Some((server, client, p))
    } else {
        Some((client, server, p))
    }
}

impl Leg {
    async fn new(sock: Arc<UdpSocket>, peer: SocketAddr, cert_ix: usize, harness_is_client: bool, label: &str) -> anyhow::Result<Leg> {
        let (tx, rx) = watch::channel(Some(IceSocketWrapper::Udp(sock)));
        let conn = IceConn::new(rx, peer, Some(label.to_string()));
        let (dtls, _app, runner) = DtlsTransport::new(conn.clone(), crate::net::rig::cert(cert_ix), harness_is_client, 2048, None).await?;
        let task = tokio::spawn(async move {
            let _app = _app;
            runner.await
        });
        let captured = Arc::new(Mutex::new(None));
        let (cap, d2) = (captured.clone(), dtls.clone());
        let watcher = tokio::spawn(async move {
            let mut rx = d2.subscribe_state();
            loop {
                if let Some(k) = leg_keys(&d2, harness_is_client) {
                    *cap.lock() = Some(k);
                    return;
                }
                if rx.changed().await.is_err() {
                    return;
                }
            }
        });
        Ok(Leg { conn, dtls, harness_is_client, _sock_tx: tx, task, watcher, captured })
    }

    /// (context the PeerConnection protects with, context the harness must protect with towards it)
    fn keys(&self) -> Option<(Srtp, Srtp, Profile)> {
        if let Some(k) = self.captured.lock().clone() {
            return Some(k);
        }
        let k = leg_keys(&self.dtls, self.harness_is_client);
        if k.is_some() {
            *self.captured.lock() = k.clone();
        }
        k
    }
}

impl Drop for Leg {
    fn drop(&mut self) {
        self.dtls.close();
        self.task.abort();
        self.watcher.abort();
    }
}

// ---------------------------------------------------------------------------------------------
// proxy
// ---------------------------------------------------------------------------------------------

struct Shared {
    seen: Mutex<Vec<Seen>>,
    /// ordinals of A->B RTP datagrams to drop
    drops: Vec<u8>,
    rtp_ab: Mutex<u32>,
    dropped: Mutex<u32>,
    /// RTP datagrams the proxy handed on to B / to A
    fwd_rtp_to_b: Mutex<u64>,
    fwd_rtp_to_a: Mutex<u64>,
    stop: AtomicBool,
}

/// Translating state of one direction in MITM mode.
struct Xlate {
    from: Receiver,
    to: Srtp,
}

struct Proxy {
    shared: Arc<Shared>,
    tasks: Vec<tokio::task::JoinHandle<()>>,
}

impl Drop for Proxy {
    fn drop(&mut self) {
        self.shared.stop.store(true, Ordering::Relaxed);
        for t in &self.tasks {
            t.abort();
        }
    }
}

/// `face_a` is the socket PeerConnection A talks to, `face_b` the one B talks to.
/// `legs`: Some((leg_a, leg_b)) in DTLS-terminating mode.
fn start_proxy(
    face_a: Arc<UdpSocket>,
    face_b: Arc<UdpSocket>,
    addr_a: SocketAddr,
    addr_b: SocketAddr,
    legs: Option<(Arc<Leg>, Arc<Leg>)>,
    drops: Vec<u8>,
) -> Proxy {
    let shared = Arc::new(Shared { seen: Mutex::new(vec![]), drops, rtp_ab: Mutex::new(0), dropped: Mutex::new(0), fwd_rtp_to_b: Mutex::new(0), fwd_rtp_to_a: Mutex::new(0), stop: AtomicBool::new(false) });
    let mut tasks = Vec::new();
    for dir in [Dir::AtoB, Dir::BtoA] {
        let (inp, out, out_addr, in_addr) = match dir {
            Dir::AtoB => (face_a.clone(), face_b.clone(), addr_b, addr_a),
            Dir::BtoA => (face_b.clone(), face_a.clone(), addr_a, addr_b),
        };
        let legs = legs.clone();
        let shared = shared.clone();
        tasks.push(tokio::spawn(async move {
            let mut buf = vec![0u8; 65536];
            let mut scratch = Vec::new();
            let mut xl: Option<Xlate> = None;
            loop {
                let Ok((n, src)) = inp.recv_from(&mut buf).await else { break };
                if shared.stop.load(Ordering::Relaxed) {
                    break;
                }
                if src != in_addr {
                    // a foreign process hitting a recycled ephemeral port: neither judged nor forwarded
                    continue;
                }
                let d = buf[..n].to_vec();
                if is_media(&d) {
                    shared.seen.lock().push(Seen { dir, bytes: d.clone() });
                    let is_rtp = !rs::looks_like_rtcp(&d);
                    if dir == Dir::AtoB && is_rtp {
                        let ord = {
                            let mut c = shared.rtp_ab.lock();
                            let o = *c;
                            *c += 1;
                            o
                        };
                        if ord < 256 && shared.drops.contains(&(ord as u8)) {
                            *shared.dropped.lock() += 1;
                            continue;
                        }
                    }
                    let count_fwd = |shared: &Shared| {
                        if is_rtp {
                            *(if dir == Dir::AtoB { shared.fwd_rtp_to_b.lock() } else { shared.fwd_rtp_to_a.lock() }) += 1;
                        }
                    };
                    match &legs {
                        None => {
                            if out.send_to(&d, out_addr).await.is_ok() {
                                count_fwd(&shared);
                            }
                        }
                        Some((la, lb)) => {
                            let (lin, lout) = if dir == Dir::AtoB { (la, lb) } else { (lb, la) };
                            if xl.is_none() {
                                if let (Some((pc_tx, _, _)), Some((_, harness_tx, _))) = (lin.keys(), lout.keys()) {
                                    xl = Some(Xlate { from: Receiver::new(pc_tx), to: harness_tx });
                                }
                            }
                            if let Some(x) = xl.as_mut() {
                                // open with the model under the sender leg, re-protect under the receiver leg
                                let re = match x.from.receive(&d) {
                                    Ok(rs::Received::Rtp { plain, roc }) => x.to.protect_rtp(&plain, roc).ok(),
                                    Ok(rs::Received::Rtcp(r)) => x.to.protect_rtcp(&r.packet, r.index, r.encrypted).ok(),
                                    Err(_) => None,
                                };
                                if let Some(re) = re {
                                    if out.send_to(&re, out_addr).await.is_ok() {
                                        count_fwd(&shared);
                                    }
                                }
                            }
                        }
                    }
                } else if is_dtls(&d) {
                    match &legs {
                        None => {
                            let _ = out.send_to(&d, out_addr).await;
                        }
                        Some((la, lb)) => {
                            let l = if dir == Dir::AtoB { la } else { lb };
                            l.conn.receive(Bytes::from(d), src, &mut scratch).await;
                        }
                    }
                } else {
                    // STUN and anything else: forwarded untouched
                    let _ = out.send_to(&d, out_addr).await;
                }
            }
        }));
    }
    Proxy { shared, tasks }
}

// ---------------------------------------------------------------------------------------------
// one run
// ---------------------------------------------------------------------------------------------

fn config(mode: Mode) -> RtcConfiguration {
    let mut c = RtcConfiguration::default();
    c.transport_mode = match mode {
        Mode::WebRtc => TransportMode::WebRtc,
        Mode::Sdes => TransportMode::Srtp,
    };
    c.bind_ip = Some("127.0.0.1".into());
    c.disable_ipv6 = true;
    c
}

fn sample(case: &PcCase, i: u32) -> MediaSample {
    let (video, len) = (case.video, case.payload_len as usize);
    let seq = if case.app_seq { Some(i as u16) } else { None };
    let mut data = vec![0u8; len.max(8)];
    // recognisable plaintext: would be visible on the wire if anything left in clear
    for (k, b) in data.iter_mut().enumerate() {
        *b = b"C14-PLAINTEXT-"[k % 14];
    }
    data[0] = i as u8;
    if video {
        MediaSample::Video(VideoFrame { rtp_timestamp: i * 3000, data: Bytes::from(data), is_last_packet: true, sequence_number: seq, ..Default::default() })
    } else {
        MediaSample::Audio(AudioFrame { rtp_timestamp: i * 960, clock_rate: 48000, data: Bytes::from(data), sequence_number: seq, ..Default::default() })
    }
}

fn fail(sig: &str, msg: impl Into<String>) -> Fail {
    Fail::new(sig, msg)
}

fn setup_fail(step: &str, e: impl std::fmt::Display) -> Fail {
    // a pair that cannot be set up says nothing about C14: reported as timing-inconclusive
    Fail::timing("pc-setup-failed", format!("{step}: {e}"))
}

struct Verdict {
    media_ab: u32,
    media_ba: u32,
    rtcp: u32,
    nack: u32,
    bye: u32,
    rtx_like: u32,
    retrans: u32,
    sr_rr: u32,
    /// (index in `seen`, ssrc, seq, payload type, first payload byte) of every repeated (ssrc, seq) A -> B
    dups: Vec<(usize, u32, u16, u8, u8)>,
}

/// Judge every media-looking datagram the proxy saw.
fn judge_all(seen: &[Seen], tx_a: Option<Srtp>, tx_b: Option<Srtp>, main_ssrc_a: Option<u32>) -> Result<Verdict, Fail> {
    let mut v = Verdict { media_ab: 0, media_ba: 0, rtcp: 0, nack: 0, bye: 0, rtx_like: 0, retrans: 0, sr_rr: 0, dups: Vec::new() };
    let mut seqs_ab: std::collections::HashSet<(u32, u16)> = std::collections::HashSet::new();
    let mut ra = tx_a.map(Receiver::new);
    let mut rb = tx_b.map(Receiver::new);
    for (i, s) in seen.iter().enumerate() {
        let (who, r) = match s.dir {
            Dir::AtoB => ("A", ra.as_mut()),
            Dir::BtoA => ("B", rb.as_mut()),
        };
        let kind = if rs::looks_like_rtcp(&s.bytes) { "rtcp" } else { "rtp" };
        let clear = s.bytes.windows(8).any(|w| w == b"14-PLAIN") || (kind == "rtcp" && looks_plain_rtcp(&s.bytes));
        let Some(r) = r else {
            return Err(fail(
                &format!("{}-emitted:pc-{kind}-without-keys", if clear { "cleartext" } else { "unverifiable" }),
                format!("{who} sent datagram #{i} ({} bytes, {kind}) but no session keys ever existed for that leg: {}", s.bytes.len(), hex(&s.bytes[..s.bytes.len().min(64)])),
            ));
        };
        // RTX / out-of-order retransmissions: try the estimate first, then neighbouring ROCs
        let opened = match r.receive(&s.bytes) {
            Ok(x) => Some(x),
            Err(_) if kind == "rtp" => {
                let est = r.estimate(&s.bytes).unwrap_or(0);
                r.srtp
                    .unprotect_rtp_any_roc(&s.bytes, [est.wrapping_sub(1), est.wrapping_add(1), 0, 1])
                    .map(|(roc, plain)| rs::Received::Rtp { plain, roc })
            }
            Err(_) => None,
        };
        match opened {
            Some(rs::Received::Rtp { plain, .. }) => {
                if s.dir == Dir::AtoB {
                    v.media_ab += 1;
                    // the harness' own send_raw_rtp packets (seq 1/2 on A's SSRC) may share a sequence
                    // number with a media packet: they are not retransmissions
                    let raw = plain.windows(8).any(|w| w == b"RAW-DTMF");
                    if std::env::var("C14_DUMP").is_ok() {
                        eprintln!("  A->B #{i} ssrc={:08x} seq={} pt={} raw={raw}", rs::rtp_ssrc(&plain), rs::rtp_seq(&plain), plain[1] & 0x7f);
                    }
                    if !raw && !seqs_ab.insert((rs::rtp_ssrc(&plain), rs::rtp_seq(&plain))) {
                        v.retrans += 1;
                        v.dups.push((i, rs::rtp_ssrc(&plain), rs::rtp_seq(&plain), plain[1] & 0x7f, plain.get(12).copied().unwrap_or(0)));
                    }
                    if let Some(m) = main_ssrc_a {
                        if rs::rtp_ssrc(&plain) != m {
                            v.rtx_like += 1;
                        }
                    }
                } else {
                    v.media_ba += 1;
                }
            }
            Some(rs::Received::Rtcp(p)) => {
                v.rtcp += 1;
                if let Some(parts) = crate::refimpl::rtpwire::rtcp_split(&p.packet) {
                    for part in parts {
                        match part.get(1) {
                            Some(205) => v.nack += 1,
                            Some(203) => v.bye += 1,
                            Some(200) | Some(201) => v.sr_rr += 1,
                            _ => {}
                        }
                    }
                }
            }
            None => {
                let class = if clear { "cleartext" } else { "unauthenticated" };
                let what = if kind == "rtcp" { rtcp_pt_name(&s.bytes) } else { "rtp" };
                return Err(fail(
                    &format!("{class}-emitted:pc-{what}"),
                    format!(
                        "{who} sent datagram #{i} ({} bytes) that does not open under its session tx key ({class}): {}",
                        s.bytes.len(),
                        hex(&s.bytes[..s.bytes.len().min(96)])
                    ),
                ));
            }
        }
    }
    Ok(v)
}

/// A datagram that parses as a complete plain RTCP compound (lengths add up exactly).
fn looks_plain_rtcp(b: &[u8]) -> bool {
    let mut off = 0;
    let mut n = 0;
    while off + 4 <= b.len() {
        if b[off] >> 6 != 2 {
            return false;
        }
        let words = u16::from_be_bytes([b[off + 2], b[off + 3]]) as usize;
        off += 4 * (words + 1);
        n += 1;
    }
    n > 0 && off == b.len()
}

fn rtcp_pt_name(b: &[u8]) -> &'static str {
    match b.get(1) {
        Some(200) => "rtcp-sr",
        Some(201) => "rtcp-rr",
        Some(202) => "rtcp-sdes",
        Some(203) => "rtcp-bye",
        Some(205) => "rtcp-rtpfb",
        Some(206) => "rtcp-psfb",
        _ => "rtcp",
    }
}

async fn run_pc_case(case: PcCase) -> (CaseRec, Check) {
    let rec = CaseRec::default();
    rec.label(format!("pc-mode={:?}", case.mode));
    let res = run_pc_inner(&case, &rec).await;
    (rec, res)
}

struct Negotiated {
    proxy: Proxy,
    legs: Option<(Arc<Leg>, Arc<Leg>)>,
    /// SDES: (A's tx context, B's tx context) from the a=crypto lines
    sdes: Option<(Option<Srtp>, Option<Srtp>)>,
    face_a: Arc<UdpSocket>,
    face_b: Arc<UdpSocket>,
    addr_a: SocketAddr,
    addr_b: SocketAddr,
}

impl Negotiated {
    fn tx_keys(&self) -> (Option<Srtp>, Option<Srtp>) {
        match (&self.legs, &self.sdes) {
            (Some((la, lb)), _) => (la.keys().map(|k| k.0), lb.keys().map(|k| k.0)),
            (None, Some((ka, kb))) => (ka.clone(), kb.clone()),
            _ => (None, None),
        }
    }
}

const INJ: &[u8] = b"C14-INJECTED-";

fn unrelated(p: Profile) -> Srtp {
    Srtp::new(p, &[0x5a; 16], &vec![0xa5; p.salt_len()]).expect("unrelated key")
}

fn nack_bytes(sender: u32, media: u32, pid: u16) -> Vec<u8> {
    let mut b = vec![0x81, 205, 0, 3];
    b.extend_from_slice(&sender.to_be_bytes());
    b.extend_from_slice(&media.to_be_bytes());
    b.extend_from_slice(&pid.to_be_bytes());
    b.extend_from_slice(&0u16.to_be_bytes());
    b
}

fn rr_bytes(sender: u32) -> Vec<u8> {
    let mut b = vec![0x80, 201, 0, 1];
    b.extend_from_slice(&sender.to_be_bytes());
    b
}

fn bye_bytes(ssrc: u32) -> Vec<u8> {
    let mut b = vec![0x81, 203, 0, 1];
    b.extend_from_slice(&ssrc.to_be_bytes());
    b
}

fn inj_rtp(ssrc: u32, pt: u8, seq: u16, ts: u32, what: &[u8]) -> Vec<u8> {
    let mut payload = INJ.to_vec();
    payload.extend_from_slice(what);
    payload.extend_from_slice(&[0x33; 24]);
    crate::refimpl::rtpwire::rtp_packet(&crate::refimpl::rtpwire::RtpFields {
        marker: true,
        pt,
        seq,
        ts,
        ssrc,
        csrcs: &[],
        ext: None,
        payload: &payload,
        padding: 0,
        pad_fill: 0,
    })
}

/// What the harness throws at both PeerConnections: nothing of it may be delivered anywhere.
/// `known`: (ssrc, a sequence number A really sent, profile) when the keys are known already.
async fn inject(neg: &Negotiated, known: Option<(u32, u16, Profile)>, pt: u8, tag: &[u8]) -> u32 {
    let (ssrc, seq, prof) = known.unwrap_or((10000, 7, Profile::AesCm128HmacSha1_80));
    let other = unrelated(prof);
    let mut n = 0;
    let mut to_b: Vec<Vec<u8>> = Vec::new();
    let mut to_a: Vec<Vec<u8>> = Vec::new();
    // towards B, pretending to be A: media on A's SSRC, in clear and under an unrelated key
    let clear = inj_rtp(ssrc, pt, seq.wrapping_add(40), 0x1000, tag);
    to_b.push(clear.clone());
    if let Ok(p) = other.protect_rtp(&inj_rtp(ssrc, pt, seq.wrapping_add(41), 0x2000, tag), 0) {
        to_b.push(p);
    }
    to_b.push(inj_rtp(0x0C14_0C14, pt, 1, 0x3000, tag));
    to_b.push(bye_bytes(ssrc));
    if let Ok(p) = other.protect_rtcp(&bye_bytes(ssrc), 1, true) {
        to_b.push(p);
    }
    // towards A, pretending to be B: retransmission requests for a packet A still buffers
    to_a.push(nack_bytes(1, ssrc, seq));
    let mut compound = rr_bytes(1);
    compound.extend_from_slice(&nack_bytes(1, ssrc, seq));
    to_a.push(compound.clone());
    if let Ok(p) = other.protect_rtcp(&compound, 2, true) {
        to_a.push(p);
    }
    to_a.push(inj_rtp(ssrc, pt, seq.wrapping_add(42), 0x4000, tag));
    to_a.push(inj_rtp(0x0C14_0C15, pt, 2, 0x5000, tag));
    for d in to_b {
        if neg.face_b.send_to(&d, neg.addr_b).await.is_ok() {
            n += 1;
        }
    }
    for d in to_a {
        if neg.face_a.send_to(&d, neg.addr_a).await.is_ok() {
            n += 1;
        }
    }
    n
}

#[derive(Default)]
struct PcObs {
    ingress: Mutex<Vec<Vec<u8>>>,
}

impl rustrtc::peer_connection::RtpObserver for PcObs {
    fn on_ingress(&self, packet: &rustrtc::rtp::RtpPacket, _src: SocketAddr) {
        self.ingress.lock().push(packet.payload.to_vec());
    }
}

fn has_inj(b: &[u8]) -> bool {
    b.windows(INJ.len()).any(|w| w == INJ)
}

async fn full_description(pc: &PeerConnection, who: &str, answer: bool) -> Result<SessionDescription, Fail> {
    let t = Duration::from_secs(8);
    let mk = || async {
        if answer { pc.create_answer().await } else { pc.create_offer().await }
    };
    let _ = mk().await.map_err(|e| setup_fail(&format!("{who}.create"), e))?;
    let _ = tokio::time::timeout(t, pc.wait_for_gathering_complete()).await;
    mk().await.map_err(|e| setup_fail(&format!("{who}.create"), e))
}

fn sdes_key(f: &SdpFacts) -> Option<Srtp> {
    let (s, k) = f.crypto.first()?.clone();
    let p = profile_of_suite(&s)?;
    if k.len() < 16 + p.salt_len() {
        return None;
    }
    Srtp::new(p, &k[..16], &k[16..16 + p.salt_len()]).ok()
}

/// DTLS-SRTP: ordinary offer/answer, relayed through the harness which terminates DTLS.
async fn negotiate_webrtc(case: &PcCase, a: &PeerConnection, b: &PeerConnection, dump: bool) -> Result<Negotiated, Fail> {
    let face_a = Arc::new(UdpSocket::bind("127.0.0.1:0").await.map_err(|e| setup_fail("bind", e))?);
    let face_b = Arc::new(UdpSocket::bind("127.0.0.1:0").await.map_err(|e| setup_fail("bind", e))?);
    let (fa, fb) = (face_a.local_addr().unwrap(), face_b.local_addr().unwrap());
    let fp = dtls::fingerprint(&crate::net::rig::cert(2));
    let offer = full_description(a, "A", false).await?;
    a.set_local_description(offer.clone()).map_err(|e| setup_fail("A.set_local", e))?;
    let offer_s = a.local_description().map(|d| d.to_sdp_string()).unwrap_or_else(|| offer.to_sdp_string());
    let addr_a = facts(&offer_s).media_addr.ok_or_else(|| setup_fail("offer", "no media address in A's offer"))?;
    // B must believe A lives at face_b
    let offer_for_b = retarget(&offer_s, fb, Some(&fp));
    if dump {
        eprintln!("--- offer (A)\n{offer_s}\n--- offer as relayed to B\n{offer_for_b}");
    }
    let offer_b = SessionDescription::parse(SdpType::Offer, &offer_for_b).map_err(|e| setup_fail("parse relayed offer", e))?;
    b.set_remote_description(offer_b).await.map_err(|e| setup_fail("B.set_remote", e))?;
    let answer = full_description(b, "B", true).await?;
    let fb_facts = facts(&answer.to_sdp_string());
    let addr_b = fb_facts.media_addr.ok_or_else(|| setup_fail("answer", "no media address in B's answer"))?;
    // who is the DTLS client: the answerer says so
    let b_is_client = match fb_facts.setup.as_deref() {
        Some("active") => true,
        Some("passive") => false,
        other => return Err(setup_fail("answer", format!("unexpected a=setup {:?}", other))),
    };
    // towards A the harness plays B's role, towards B it plays A's
    let la = Leg::new(face_a.clone(), addr_a, 2, b_is_client, "HA").await.map_err(|e| setup_fail("leg A", e))?;
    let lb = Leg::new(face_b.clone(), addr_b, 2, !b_is_client, "HB").await.map_err(|e| setup_fail("leg B", e))?;
    let legs = Some((Arc::new(la), Arc::new(lb)));
    let proxy = start_proxy(face_a.clone(), face_b.clone(), addr_a, addr_b, legs.clone(), case.drops.clone());
    b.set_local_description(answer.clone()).map_err(|e| setup_fail("B.set_local", e))?;
    let answer_s = b.local_description().map(|d| d.to_sdp_string()).unwrap_or_else(|| answer.to_sdp_string());
    let answer_for_a = retarget(&answer_s, fa, Some(&fp));
    if dump {
        eprintln!("--- answer (B)\n{answer_s}\n--- answer as relayed to A\n{answer_for_a}");
    }
    let answer_a = SessionDescription::parse(SdpType::Answer, &answer_for_a).map_err(|e| setup_fail("parse relayed answer", e))?;
    a.set_remote_description(answer_a).await.map_err(|e| setup_fail("A.set_remote", e))?;
    Ok(Negotiated { proxy, legs, sdes: None, face_a, face_b, addr_a, addr_b })
}

/// SDES: rustrtc starts the direct transport as soon as the remote description is set, which an
/// answerer cannot survive (no local a=crypto yet -> "Missing crypto attributes for SDES"), so both
/// PeerConnections act as offerers and the harness hands each the other's description as the answer
/// (same stack, same codecs, symmetric a=sendrecv; in SDES the answer just carries the answerer's key).
async fn negotiate_sdes(case: &PcCase, a: &PeerConnection, b: &PeerConnection, dump: bool) -> Result<Negotiated, Fail> {
    let face_a = Arc::new(UdpSocket::bind("127.0.0.1:0").await.map_err(|e| setup_fail("bind", e))?);
    let face_b = Arc::new(UdpSocket::bind("127.0.0.1:0").await.map_err(|e| setup_fail("bind", e))?);
    let (fa, fb) = (face_a.local_addr().unwrap(), face_b.local_addr().unwrap());
    let oa = full_description(a, "A", false).await?;
    a.set_local_description(oa.clone()).map_err(|e| setup_fail("A.set_local", e))?;
    let ob = full_description(b, "B", false).await?;
    b.set_local_description(ob.clone()).map_err(|e| setup_fail("B.set_local", e))?;
    let sa = a.local_description().map(|d| d.to_sdp_string()).unwrap_or_else(|| oa.to_sdp_string());
    let sb = b.local_description().map(|d| d.to_sdp_string()).unwrap_or_else(|| ob.to_sdp_string());
    let (f_a, f_b) = (facts(&sa), facts(&sb));
    let addr_a = f_a.media_addr.ok_or_else(|| setup_fail("offer", "no media address in A's description"))?;
    let addr_b = f_b.media_addr.ok_or_else(|| setup_fail("offer", "no media address in B's description"))?;
    let proxy = start_proxy(face_a.clone(), face_b.clone(), addr_a, addr_b, None, case.drops.clone());
    let for_a = retarget(&sb, fa, None);
    let for_b = retarget(&sa, fb, None);
    if dump {
        eprintln!("--- A\n{sa}\n--- B\n{sb}\n--- B as relayed to A\n{for_a}");
    }
    let da = SessionDescription::parse(SdpType::Answer, &for_a).map_err(|e| setup_fail("parse relayed description", e))?;
    let db = SessionDescription::parse(SdpType::Answer, &for_b).map_err(|e| setup_fail("parse relayed description", e))?;
    a.set_remote_description(da).await.map_err(|e| setup_fail("A.set_remote", e))?;
    b.set_remote_description(db).await.map_err(|e| setup_fail("B.set_remote", e))?;
    Ok(Negotiated { proxy, legs: None, sdes: Some((sdes_key(&f_a), sdes_key(&f_b))), face_a, face_b, addr_a, addr_b })
}

async fn run_pc_inner(case: &PcCase, rec: &CaseRec) -> Check {
    // rustrtc's SDES start races with set_remote_description (the transport task reads the remote
    // description before it is stored -> "Missing crypto attributes for SDES" -> Failed); a pair that
    // did not come up is rebuilt. Every attempt's datagrams are judged.
    let attempts = if case.mode == Mode::Sdes { 8 } else { 2 };
    for k in 0..attempts {
        if attempt(case, rec).await? {
            if k > 0 {
                rec.label("pc-connected-after-retry");
            }
            return Ok(());
        }
        rec.label("pc-attempt-not-connected");
    }
    Err(Fail::timing("pc-not-connected", format!("the pair did not connect through the proxy in {attempts} attempts")))
}

/// One pair, one run. Ok(true) = both sides connected and everything seen was judged.
async fn attempt(case: &PcCase, rec: &CaseRec) -> Result<bool, Fail> {
    let dump = std::env::var("C14_DUMP").is_ok();
    let mk_config = || {
        let mut c = config(case.mode);
        if case.rtx {
            let mut caps = rustrtc::config::MediaCapabilities::default();
            caps.video = vec![rustrtc::config::VideoCapability::vp8_with_rtx(97)];
            c.media_capabilities = Some(caps);
        }
        c
    };
    let a = PeerConnection::new(mk_config());
    let b = PeerConnection::new(mk_config());
    let kind = if case.video { rustrtc::media::frame::MediaKind::Video } else { rustrtc::media::frame::MediaKind::Audio };
    let params = if case.video {
        RtpCodecParameters { payload_type: 96, name: "VP8".into(), clock_rate: 90000, channels: 0 }
    } else {
        RtpCodecParameters { payload_type: 111, name: "opus".into(), clock_rate: 48000, channels: 2 }
    };
    let (src_a, track_a, _fb_a) = rustrtc::media::track::sample_track(kind, 256);
    let sender_a = a.add_track(track_a.clone(), params.clone()).map_err(|e| setup_fail("A.add_track", e))?;
    let mut src_b = None;
    let mut _fb_keep = None;
    if case.both_send {
        let (s, t, fb) = rustrtc::media::track::sample_track(kind, 256);
        b.add_track(t, params.clone()).map_err(|e| setup_fail("B.add_track", e))?;
        src_b = Some(s);
        _fb_keep = Some(fb);
    } else {
        let dir = if case.mode == Mode::Sdes { TransceiverDirection::SendRecv } else { TransceiverDirection::RecvOnly };
        b.add_transceiver(if case.video { MediaKind::Video } else { MediaKind::Audio }, dir);
    }
    if case.early_media {
        for i in 0..8u32 {
            let _ = src_a.send(sample(case, i));
        }
        rec.label("pc-early-media");
    }
    if case.rtx && case.video {
        rec.label("pc-rtx-offered");
    }
    rec.label(if case.app_seq { "pc-app-sequence-numbers" } else { "pc-stack-sequence-numbers" });

    let pt = if case.video { 96u8 } else { 111u8 };
    let raw_packet = |seq: u16| {
        let mut h = rustrtc::rtp::RtpHeader::new(101, seq, 160 * seq as u32, sender_a.ssrc());
        h.marker = seq == 1;
        rustrtc::rtp::RtpPacket::new(h, b"C14-PLAINTEXT-RAW-DTMF".to_vec())
    };
    if case.raw_send {
        // no transport, no keys: must fail (or at least put nothing on the wire)
        if a.send_raw_rtp(raw_packet(1)).await.is_err() {
            rec.label("pc-raw-send-before-transport-refused");
        }
    }

    let neg = match case.mode {
        Mode::WebRtc => negotiate_webrtc(case, &a, &b, dump).await?,
        Mode::Sdes => negotiate_sdes(case, &a, &b, dump).await?,
    };
    let mut injected = 0u32;
    let mut asked: Option<(u32, u16, usize)> = None;
    if case.early_inject {
        injected += inject(&neg, None, pt, b"EARLY").await;
        rec.label("pc-early-inject");
    }

    // connect
    let connected = tokio::time::timeout(Duration::from_secs(12), async { tokio::join!(a.wait_for_connected(), b.wait_for_connected()) }).await;
    let connected = matches!(connected, Ok((Ok(()), Ok(()))));
    if dump {
        eprintln!("states: A={:?} B={:?}", *a.subscribe_peer_state().borrow(), *b.subscribe_peer_state().borrow());
    }

    // sinks: observers on both sides, the receiving tracks
    let (obs_a, obs_b) = (Arc::new(PcObs::default()), Arc::new(PcObs::default()));
    a.add_observer(obs_a.clone());
    b.add_observer(obs_b.clone());
    let samples: Arc<Mutex<Vec<Vec<u8>>>> = Arc::new(Mutex::new(Vec::new()));
    let mut drainers = Vec::new();
    for pc in [&a, &b] {
        for t in pc.get_transceivers() {
            if let Some(r) = t.receiver() {
                let (track, samples) = (r.track(), samples.clone());
                drainers.push(tokio::spawn(async move {
                    while let Ok(s) = track.recv().await {
                        let d = match s {
                            MediaSample::Video(f) => f.data.to_vec(),
                            MediaSample::Audio(f) => f.data.to_vec(),
                        };
                        samples.lock().push(d);
                    }
                }));
            }
        }
    }

    // media
    let pace = Duration::from_millis(case.pace_ms.max(2) as u64);
    let frames = if connected { case.frames as u32 } else { 4 };
    for i in 0..frames {
        let _ = src_a.send(sample(case, 100 + i));
        if let Some(s) = &src_b {
            let _ = s.send(sample(case, 100 + i));
        }
        tokio::time::sleep(pace).await;
        if i == frames / 2 {
            if case.inject {
                // a sequence number A really sent (its NACK buffer holds it)
                let (tx_a, _) = neg.tx_keys();
                let known = tx_a.and_then(|k| {
                    let seen = neg.proxy.shared.seen.lock();
                    let mut r = Receiver::new(k.clone());
                    seen.iter()
                        .filter(|s| s.dir == Dir::AtoB && !rs::looks_like_rtcp(&s.bytes))
                        .filter_map(|s| r.unprotect_rtp(&s.bytes).ok())
                        .map(|(plain, _)| (rs::rtp_ssrc(&plain), rs::rtp_seq(&plain), k.profile))
                        .last()
                });
                if let Some((ssrc, seq, _)) = known {
                    rec.label("pc-inject-nack-for-sent-seq");
                    asked = Some((ssrc, seq, neg.proxy.shared.seen.lock().len()));
                }
                injected += inject(&neg, known, pt, b"MID").await;
                rec.label("pc-mid-inject");
            }
            if case.raw_send && a.send_raw_rtp(raw_packet(2)).await.is_ok() {
                rec.label("pc-raw-send-mid-stream");
            }
        }
    }
    if case.pli {
        if let Some(r) = b.get_transceivers().first().and_then(|t| t.receiver()) {
            let _ = r.request_key_frame().await;
        }
    }
    // let NACK -> retransmission and an RTCP report round happen
    tokio::time::sleep(Duration::from_millis(if connected { case.linger_ms as u64 } else { 100 })).await;
    let (accepted_a, accepted_b) = (a.received_rtp_packets(), b.received_rtp_packets());
    match case.closer {
        0 => a.close(),
        1 => b.close(),
        _ => {
            a.close();
            b.close();
        }
    }
    tokio::time::sleep(Duration::from_millis(150)).await;
    a.close();
    b.close();
    tokio::time::sleep(Duration::from_millis(50)).await;

    // keys of each sender
    let (tx_a, tx_b) = neg.tx_keys();
    let seen: Vec<Seen> = neg.proxy.shared.seen.lock().clone();
    let dropped = *neg.proxy.shared.dropped.lock();
    let (fwd_to_a, fwd_to_b) = (*neg.proxy.shared.fwd_rtp_to_a.lock(), *neg.proxy.shared.fwd_rtp_to_b.lock());
    drop(neg);
    for d in drainers {
        d.abort();
    }
    // accept side: nothing the harness injected (cleartext / unrelated key) may have been taken in
    for (who, obs) in [("A", &obs_a), ("B", &obs_b)] {
        if let Some(p) = obs.ingress.lock().iter().find(|p| has_inj(p)) {
            return Err(fail(
                "injected-accepted:pc-observer",
                format!("{who}'s RtpObserver saw an injected (cleartext or wrongly keyed) packet: {}", hex(&p[..p.len().min(48)])),
            ));
        }
    }
    if let Some(p) = samples.lock().iter().find(|p| has_inj(p)) {
        return Err(fail("injected-accepted:pc-track", format!("a receiving track delivered injected media: {}", hex(&p[..p.len().min(48)]))));
    }
    for (who, accepted, fwd) in [("A", accepted_a, fwd_to_a), ("B", accepted_b, fwd_to_b)] {
        if accepted > fwd {
            return Err(fail(
                "injected-accepted:pc-received-counter",
                format!("{who} accepted {accepted} inbound RTP packets at the transport but the proxy handed it only {fwd} genuine ones ({injected} datagrams injected)"),
            ));
        }
    }
    if injected > 0 {
        rec.label("pc-injection-rejected");
    }
    if tx_a.is_some() && tx_b.is_some() {
        rec.label("pc-keys-known");
    } else {
        rec.label("pc-keys-missing");
    }
    let v = judge_all(&seen, tx_a, tx_b, Some(sender_a.ssrc()))?;
    if dump {
        eprintln!(
            "seen={} ab={} ba={} rtcp={} nack={} bye={} rtx_like={} retrans={} srrr={} dropped={dropped}",
            seen.len(), v.media_ab, v.media_ba, v.rtcp, v.nack, v.bye, v.rtx_like, v.retrans, v.sr_rr
        );
    }
    // an accepted injected NACK shows as a retransmission nobody legitimately asked for
    if injected > 0 && v.nack == 0 && (v.retrans > 0 || v.rtx_like > 0) {
        return Err(fail(
            "injected-accepted:pc-nack-retransmission",
            format!(
                "A retransmitted ({} same-SSRC, {} RTX) although B sent no NACK; only the harness' cleartext / wrongly keyed NACKs asked for it; injected NACK asked (ssrc, seq, datagrams seen before) {asked:?}; repeated A->B (index, ssrc, seq, pt, payload[0]) {:?}",
                v.retrans, v.rtx_like, v.dups
            ),
        ));
    }
    if injected > 0 && v.nack == 0 {
        rec.label("pc-injected-nack-not-honoured");
    }
    if v.media_ab > 0 {
        rec.label("pc-rtp-a-to-b");
        rec.nontrivial();
    }
    if v.media_ba > 0 {
        rec.label("pc-rtp-b-to-a");
    }
    if v.rtcp > 0 {
        rec.label("pc-rtcp-seen");
    }
    if v.sr_rr > 0 {
        rec.label("pc-rtcp-reports");
    }
    if v.nack > 0 {
        rec.label("pc-nack-seen");
    }
    if v.rtx_like > 0 {
        rec.label("pc-rtx-ssrc-retransmission-seen");
    }
    if v.retrans > 0 {
        rec.label("pc-same-ssrc-retransmission-seen");
    }
    if v.bye > 0 {
        rec.label("pc-bye-seen");
    }
    if dropped > 0 {
        rec.label("pc-proxy-dropped-rtp");
    }
    if connected {
        rec.label("pc-connected");
    }
    Ok(connected)
}

fn pc_strategy() -> impl Strategy<Value = PcCase> {
    (
        prop_oneof![Just(Mode::WebRtc), Just(Mode::Sdes)],
        prop_oneof![3 => Just(true), 1 => Just(false)],
        any::<bool>(),
        12u8..40,
        prop_oneof![Just(20u16), 20u16..400, Just(1100u16)],
        proptest::collection::vec(2u8..12, 0..3),
        any::<bool>(),
        any::<bool>(),
        0u8..3,
        prop_oneof![Just(5u8), 2u8..25],
        (any::<bool>(), prop_oneof![3 => Just(true), 1 => Just(false)], prop_oneof![3 => 300u16..900, 1 => 3200u16..3600]),
        (prop_oneof![3 => Just(true), 1 => Just(false)], any::<bool>(), any::<bool>()),
    )
        .prop_map(|(mode, video, both_send, frames, payload_len, drops, early_media, pli, closer, pace_ms, (rtx, app_seq, linger_ms), (inject, early_inject, raw_send))| PcCase {
            mode,
            video,
            both_send,
            frames,
            payload_len,
            drops,
            early_media,
            pli,
            closer,
            pace_ms,
            rtx,
            app_seq,
            linger_ms,
            inject,
            early_inject,
            raw_send,
        })
}

fn pc_checker() -> AsyncCheck<PcCase> {
    Arc::new(|c: PcCase| Box::pin(run_pc_case(c)))
}

pub fn run_pc(ctx: &mut Ctx, rt: &tokio::runtime::Runtime) {
    let n = ctx.scale(24usize, 400usize);
    ctx.sub_async(rt, "pc-pairs", n, 8, pc_strategy(), pc_checker());
}
