//! C05 — SRTP rejects forged packets and a rejection never disturbs receiver state.
//!
//! Sub-checks
//! * `flips`      – for a genuine protected RTP or RTCP packet (small: exhaustively; large: sampled):
//!                  every single-bit flip, every truncation length and a few extensions, applied
//!                  both to a packet the receiver has not seen yet and to one it already accepted;
//!                  all must be rejected, and afterwards the genuine packet and its successor
//!                  must still be accepted unchanged.
//! * `interleave` – metamorphic twin sessions: S sees genuine traffic (RTP + RTCP, 1-3 SSRCs,
//!                  wraps, reordering, loss, duplicates) interleaved with forgeries (multi-bit edits,
//!                  truncations, extensions, sequence/index rewrites far ahead or behind with kept /
//!                  zero / random tag, SSRC rewrites, tag swaps, header/body splices, reflections
//!                  under the opposite direction's key, wrong-key packets, cleartext); S' sees only
//!                  the genuine packets. Every forgery must be an `Err`; every genuine packet must
//!                  give the same result (accept/reject and decoded packet) in S and S'.
//! * `transport`  – the same relation through `RtpTransport::receive` with an SRTP session
//!                  installed: RTP listener, RTCP listener, ingress observer and the received-packet
//!                  counter see exactly what a twin session fed only with genuine packets accepts.

use super::c04::{
    self, Keys, RtcpShape, Shape, StreamSpec, build_packet, build_rtcp, delivery_order, expand, keys_strategy, net_strategy,
    protect_with, rtcp_shape_strategy, seq_base, shape_strategy, streams_strategy, unprotect_with, PROFILE_NAMES,
};
use crate::engine::{CaseRec, Check, Ctx, Fail, hexbytes, pick};
use crate::ensure;
use crate::refimpl::srtp::{self as model, Srtp};
use bytes::Bytes;
use proptest::prelude::*;
use rustrtc::rtp::{PictureLossIndication, RtcpPacket, RtpPacket, marshal_rtcp_packets};
use rustrtc::srtp::SrtpSession;
use rustrtc::transports::PacketReceiver;
use rustrtc::transports::ice::conn::IceConn;
use rustrtc::transports::rtp::RtpTransport;
use serde::{Deserialize, Serialize};
use serde_json::json;
use std::net::SocketAddr;
use std::sync::Arc;
use std::sync::atomic::{AtomicU64, Ordering};
use tokio::sync::{mpsc, watch};

// ---------------------------------------------------------------------------------------------
// helpers
// ---------------------------------------------------------------------------------------------

fn rtcp_protect(sess: &mut SrtpSession, plain: &[u8]) -> Result<Vec<u8>, Fail> {
    let mut w = plain.to_vec();
    sess.protect_rtcp(&mut w).map_err(|e| Fail::new("protect-rtcp-failed", format!("{e}")))?;
    Ok(w)
}

fn rtcp_unprotect(sess: &mut SrtpSession, wire: &[u8]) -> Result<Vec<u8>, String> {
    let mut b = wire.to_vec();
    sess.unprotect_rtcp(&mut b).map(|()| b).map_err(|e| format!("unprotect: {e}"))
}

/// One datagram offered to a receiving session; `Ok` carries a canonical rendering of what came out.
fn offer(sess: &mut SrtpSession, rtcp: bool, wire: &[u8]) -> Result<Out, String> {
    if rtcp { rtcp_unprotect(sess, wire).map(Out::Rtcp) } else { unprotect_with(sess, wire).map(Out::Rtp) }
}

#[derive(Debug, Clone, PartialEq)]
enum Out {
    Rtp(RtpPacket),
    Rtcp(Vec<u8>),
}

fn flip_bit(wire: &[u8], bit: usize) -> Vec<u8> {
    let mut v = wire.to_vec();
    v[bit / 8] ^= 0x80 >> (bit % 8);
    v
}

#[derive(Default)]
struct Totals {
    forgeries: AtomicU64,
    bitflips: AtomicU64,
    truncations: AtomicU64,
    genuine_compared: AtomicU64,
    genuine_accepted: AtomicU64,
}

// ---------------------------------------------------------------------------------------------
// flips
// ---------------------------------------------------------------------------------------------

#[derive(Clone, Debug, Serialize, Deserialize)]
pub struct FlipCase {
    pub keys: Keys,
    pub rtcp: bool,
    pub ssrc: u32,
    pub start_seq: u16,
    /// genuine packets accepted before the forgeries start (consecutive sequence numbers)
    pub pre: u8,
    pub shape: Shape,
    pub rshape: RtcpShape,
    /// bit positions / lengths used when the packet is too large for the exhaustive sweep
    pub sample: Vec<u16>,
    #[serde(with = "hexbytes")]
    pub tail: Vec<u8>,
}

const EXHAUSTIVE_MAX: usize = 160;

fn flip_strategy() -> impl Strategy<Value = FlipCase> {
    (
        keys_strategy(),
        any::<bool>(),
        prop_oneof![Just(0u32), Just(u32::MAX), any::<u32>()],
        seq_base(),
        0..=3u8,
        prop_oneof![8 => shape_strategy(40, 4), 1 => shape_strategy(1400, 64)],
        prop_oneof![8 => rtcp_shape_strategy(12), 1 => rtcp_shape_strategy(340)],
        prop::collection::vec(any::<u16>(), 96),
        prop::collection::vec(any::<u8>(), 1..=20),
    )
        .prop_map(|(keys, rtcp, ssrc, start_seq, pre, mut shape, mut rshape, sample, tail)| {
            // keep the common case small enough for the exhaustive sweep
            if shape.plen <= 40 {
                shape.csrcs = shape.csrcs.min(3);
                shape.pad = shape.pad.min(16);
            }
            if rshape.words <= 12 {
                rshape.more.truncate(1);
            }
            FlipCase { keys, rtcp, ssrc, start_seq, pre, shape, rshape, sample, tail }
        })
}

fn check_flips(c: &FlipCase, rec: &CaseRec, tot: &Totals) -> Check {
    let mut a = c.keys.sender();
    let mut s = c.keys.receiver();
    let n = c.pre as usize + 2;
    // genuine packets: pre.., target, follow
    let mut wires: Vec<Vec<u8>> = Vec::new();
    let mut outs: Vec<Out> = Vec::new();
    for i in 0..n {
        if c.rtcp {
            let mut sh = c.rshape.clone();
            sh.seed = sh.seed.wrapping_add(i as u32);
            let plain = build_rtcp(&sh, c.ssrc);
            wires.push(rtcp_protect(&mut a, &plain)?);
            outs.push(Out::Rtcp(plain));
        } else {
            let mut sh = c.shape.clone();
            sh.seed = sh.seed.wrapping_add(i as u32);
            let p = build_packet(&sh, c.ssrc, c.start_seq.wrapping_add(i as u16));
            wires.push(protect_with(&mut a, &p)?);
            outs.push(Out::Rtp(p));
        }
    }
    let target = c.pre as usize;
    for i in 0..target {
        let r = offer(&mut s, c.rtcp, &wires[i]);
        ensure!(r.as_ref() == Ok(&outs[i]), "flips-setup-genuine-rejected", "in-order genuine packet {i} not accepted: {r:?}");
    }
    // forgeries of the not-yet-seen target and of the last accepted packet
    let mut bases = vec![target];
    if target > 0 {
        bases.push(target - 1);
    }
    let mut forged = 0u64;
    for &bidx in &bases {
        let w = &wires[bidx];
        let exhaustive = w.len() <= EXHAUSTIVE_MAX;
        let bits: Vec<usize> =
            if exhaustive { (0..w.len() * 8).collect() } else { c.sample.iter().map(|x| pick(*x, w.len() * 8)).collect() };
        for bit in bits {
            let f = flip_bit(w, bit);
            if let Ok(o) = offer(&mut s, c.rtcp, &f) {
                return Err(Fail::new(
                    if c.rtcp { "rtcp-bitflip-accepted" } else { "rtp-bitflip-accepted" },
                    format!(
                        "packet {bidx} ({} bytes, {}) with bit {bit} (byte {}) flipped was accepted: {o:?}",
                        w.len(),
                        PROFILE_NAMES[(c.keys.profile & 3) as usize],
                        bit / 8
                    ),
                ));
            }
            forged += 1;
            tot.bitflips.fetch_add(1, Ordering::Relaxed);
        }
        let lens: Vec<usize> = if exhaustive { (0..w.len()).collect() } else { c.sample.iter().take(48).map(|x| pick(*x, w.len())).collect() };
        for l in lens {
            if let Ok(o) = offer(&mut s, c.rtcp, &w[..l]) {
                return Err(Fail::new(
                    if c.rtcp { "rtcp-truncation-accepted" } else { "rtp-truncation-accepted" },
                    format!("packet {bidx} ({} bytes) truncated to {l} bytes was accepted: {o:?}", w.len()),
                ));
            }
            forged += 1;
            tot.truncations.fetch_add(1, Ordering::Relaxed);
        }
        for k in 1..=c.tail.len() {
            let mut f = w.clone();
            f.extend_from_slice(&c.tail[..k]);
            if let Ok(o) = offer(&mut s, c.rtcp, &f) {
                return Err(Fail::new(
                    if c.rtcp { "rtcp-extension-accepted" } else { "rtp-extension-accepted" },
                    format!("packet {bidx} ({} bytes) with {k} appended bytes was accepted: {o:?}", w.len()),
                ));
            }
            forged += 1;
        }
    }
    tot.forgeries.fetch_add(forged, Ordering::Relaxed);
    // the genuine target and its successor are still accepted, unchanged
    for i in target..n {
        let r = offer(&mut s, c.rtcp, &wires[i]);
        ensure!(
            r.as_ref() == Ok(&outs[i]),
            "genuine-rejected-after-forgeries",
            "after {forged} rejected forgeries the genuine packet {i} (in order) gives {r:?}"
        );
        tot.genuine_compared.fetch_add(1, Ordering::Relaxed);
        tot.genuine_accepted.fetch_add(1, Ordering::Relaxed);
    }
    rec.nontrivial();
    rec.label(format!("flips:{}:{}", if c.rtcp { "rtcp" } else { "rtp" }, PROFILE_NAMES[(c.keys.profile & 3) as usize]));
    rec.label(if wires[target].len() <= EXHAUSTIVE_MAX { "flips:exhaustive" } else { "flips:sampled" });
    if !c.rtcp && (c.start_seq as u32 + n as u32) > 65535 {
        rec.label("flips:across-wrap");
    }
    if !c.rtcp && c04::shape_interesting(&c.shape) {
        rec.label("flips:ext/csrc/pad");
    }
    Ok(())
}

// ---------------------------------------------------------------------------------------------
// interleave (twin sessions)
// ---------------------------------------------------------------------------------------------

#[derive(Clone, Debug, Serialize, Deserialize)]
pub enum Payload {
    Rtp { delta: i32, shape: Shape },
    Rtcp { shape: RtcpShape },
    /// a well-formed RTCP PLI (used where the receiver parses the RTCP, i.e. through the transport)
    Pli { media: u32 },
}

#[derive(Clone, Debug, Serialize, Deserialize)]
pub struct Item {
    pub stream: u8,
    pub what: Payload,
    pub delay: u8,
    pub drop: bool,
    pub dup: Option<u8>,
}

#[derive(Clone, Debug, Serialize, Deserialize)]
pub enum Mutation {
    /// XOR these bit positions (deduplicated)
    Flip { bits: Vec<u16> },
    Trunc { keep: u16 },
    Append {
        #[serde(with = "hexbytes")]
        bytes: Vec<u8>,
    },
    /// RTP: sequence number += delta; RTCP: SRTCP index += delta. tag: 0 keep, 1 zero, 2 random
    Index { delta: i32, tag: u8, seed: u32 },
    /// rewrite the SSRC: to another stream of the session, or to an arbitrary value
    Ssrc { to_stream: Option<u8>, to: u32 },
    Xor {
        off: u16,
        #[serde(with = "hexbytes")]
        mask: Vec<u8>,
    },
    /// the same packet protected with the opposite direction's keys (what the receiver itself sends)
    Reflect,
    /// the same packet protected under an unrelated master key
    WrongKey { seed: u32 },
    /// the unprotected packet
    Cleartext,
    /// authentication tag taken from another genuine packet
    TagSwap { from: u16 },
    /// header of this packet, body and tag of another
    Splice { from: u16 },
}

#[derive(Clone, Debug, Serialize, Deserialize)]
pub struct Forgery {
    /// insertion point in the delivery sequence (0 = before everything)
    pub at: u16,
    /// which genuine packet it is derived from (send order; may be one that was lost)
    pub base: u16,
    pub m: Mutation,
}

#[derive(Clone, Debug, Serialize, Deserialize)]
pub struct MixCase {
    pub keys: Keys,
    pub streams: Vec<StreamSpec>,
    pub fast: bool,
    pub items: Vec<Item>,
    pub forgeries: Vec<Forgery>,
}

fn mutation_strategy() -> impl Strategy<Value = Mutation> {
    prop_oneof![
        4 => prop::collection::vec(any::<u16>(), 1..=6).prop_map(|bits| Mutation::Flip { bits }),
        2 => any::<u16>().prop_map(|keep| Mutation::Trunc { keep }),
        1 => prop::collection::vec(any::<u8>(), 1..=20).prop_map(|bytes| Mutation::Append { bytes }),
        5 => (
            prop_oneof![1..=3i32, -3..=-1i32, 100..=40000i32, -40000..=-100i32, Just(32768i32), Just(-32768i32), Just(65535i32)],
            0..3u8,
            any::<u32>()
        )
            .prop_map(|(delta, tag, seed)| Mutation::Index { delta, tag, seed }),
        2 => (prop::option::of(0..3u8), any::<u32>()).prop_map(|(to_stream, to)| Mutation::Ssrc { to_stream, to }),
        3 => (any::<u16>(), prop::collection::vec(any::<u8>(), 1..=16)).prop_map(|(off, mask)| Mutation::Xor { off, mask }),
        1 => Just(Mutation::Reflect),
        1 => any::<u32>().prop_map(|seed| Mutation::WrongKey { seed }),
        1 => Just(Mutation::Cleartext),
        1 => any::<u16>().prop_map(|from| Mutation::TagSwap { from }),
        1 => any::<u16>().prop_map(|from| Mutation::Splice { from }),
    ]
}

fn item_strategy() -> impl Strategy<Value = Item> {
    (
        0..3u8,
        prop_oneof![
            4 => (c04::delta_strategy(), shape_strategy(300, 8)).prop_map(|(delta, shape)| Payload::Rtp { delta, shape }),
            1 => rtcp_shape_strategy(40).prop_map(|shape| Payload::Rtcp { shape }),
        ],
        net_strategy(),
    )
        .prop_map(|(stream, what, (delay, drop, dup))| Item { stream, what, delay, drop, dup })
}

fn mix_strategy(max_items: usize, max_forgeries: usize) -> impl Strategy<Value = MixCase> {
    (
        keys_strategy(),
        streams_strategy(3),
        prop::bool::weighted(0.3),
        prop::collection::vec(item_strategy(), 1..=max_items),
        prop::collection::vec((any::<u16>(), any::<u16>(), mutation_strategy()).prop_map(|(at, base, m)| Forgery { at, base, m }), 1..=max_forgeries),
    )
        .prop_map(|(keys, streams, fast, items, forgeries)| MixCase { keys, streams, fast, items, forgeries })
}

/// A genuine datagram with everything needed to derive forgeries from it.
struct Genuine {
    rtcp: bool,
    ssrc: u32,
    wire: Vec<u8>,
    plain: Vec<u8>,
    /// RTP: rollover counter the sender used; RTCP: SRTCP index
    index: u32,
    reflected: Vec<u8>,
}

fn build_genuine(keys: &Keys, streams: &[StreamSpec], fast: bool, items: &[Item]) -> Result<Vec<Genuine>, Fail> {
    let mut a = keys.sender();
    // the receiver's own transmit direction (for reflections)
    let mut refl = keys.receiver();
    // plan the RTP part
    let rtp_steps: Vec<c04::Step> = items
        .iter()
        .filter_map(|it| match &it.what {
            Payload::Rtp { delta, shape } => {
                Some(c04::Step { stream: it.stream, delta: *delta, shape: shape.clone(), delay: 0, drop: false, dup: None })
            }
            _ => None,
        })
        .collect();
    let mut planned = c04::plan(streams, fast, &rtp_steps).into_iter();
    let mut rtcp_count: std::collections::HashMap<u32, u32> = Default::default();
    let mut out = Vec::with_capacity(items.len());
    for it in items {
        let ssrc = streams[it.stream as usize % streams.len()].ssrc;
        match &it.what {
            Payload::Rtp { .. } => {
                let pl = planned.next().unwrap();
                let plain = pl.packet.marshal().map_err(|e| Fail::new("marshal-failed", format!("{e}")))?;
                out.push(Genuine {
                    rtcp: false,
                    ssrc,
                    wire: protect_with(&mut a, &pl.packet)?,
                    plain,
                    index: pl.roc(),
                    reflected: protect_with(&mut refl, &pl.packet)?,
                });
            }
            Payload::Rtcp { .. } | Payload::Pli { .. } => {
                let plain = match &it.what {
                    Payload::Rtcp { shape } => build_rtcp(shape, ssrc),
                    Payload::Pli { media } => {
                        let pli = RtcpPacket::PictureLossIndication(PictureLossIndication { sender_ssrc: ssrc, media_ssrc: *media });
                        marshal_rtcp_packets(&[pli]).map_err(|e| Fail::new("marshal-failed", format!("{e}")))?
                    }
                    _ => unreachable!(),
                };
                let n = rtcp_count.entry(ssrc).or_insert(0);
                *n += 1;
                out.push(Genuine {
                    rtcp: true,
                    ssrc,
                    wire: rtcp_protect(&mut a, &plain)?,
                    index: *n,
                    reflected: rtcp_protect(&mut refl, &plain)?,
                    plain,
                });
            }
        }
    }
    Ok(out)
}

/// SRTCP trailer length (index word + tag) as the sender under test laid it out, taken from the
/// genuine packet itself; the flag says whether the index word comes last (GCM) or before the tag.
fn rtcp_trailer(keys: &Keys, g: &Genuine) -> (usize, bool) {
    if keys.profile & 3 == 2 { (4, true) } else { (g.wire.len() - g.plain.len(), false) }
}

fn rtp_tag_len(keys: &Keys) -> usize {
    c04::mprofile(keys.profile).rtp_tag_len()
}

fn apply_mutation(keys: &Keys, streams: &[StreamSpec], gen_: &[Genuine], base: usize, m: &Mutation) -> Option<Vec<u8>> {
    let g = &gen_[base];
    let w = &g.wire;
    let mut f = w.clone();
    match m {
        Mutation::Flip { bits } => {
            let mut bs: Vec<usize> = bits.iter().map(|b| pick(*b, w.len() * 8)).collect();
            bs.sort();
            bs.dedup();
            for b in bs {
                f[b / 8] ^= 0x80 >> (b % 8);
            }
        }
        Mutation::Trunc { keep } => f.truncate(pick(*keep, w.len())),
        Mutation::Append { bytes } => f.extend_from_slice(bytes),
        Mutation::Index { delta, tag, seed } => {
            let tag_range;
            if g.rtcp {
                let (trail, gcm) = rtcp_trailer(keys, g);
                if w.len() < 8 + trail {
                    return None;
                }
                let wpos = if gcm { w.len() - 4 } else { w.len() - trail };
                let word = u32::from_be_bytes([w[wpos], w[wpos + 1], w[wpos + 2], w[wpos + 3]]);
                let mut d = *delta;
                if d as u32 & 0x7fff_ffff == 0 {
                    d = 1;
                }
                let idx = (word & 0x7fff_ffff).wrapping_add(d as u32) & 0x7fff_ffff;
                f[wpos..wpos + 4].copy_from_slice(&((word & 0x8000_0000) | idx).to_be_bytes());
                tag_range = if gcm { w.len() - 20..w.len() - 4 } else { wpos + 4..w.len() };
            } else {
                let mut d = *delta;
                if d as u16 == 0 {
                    d = 1;
                }
                let seq = model::rtp_seq(w).wrapping_add(d as u16);
                f[2..4].copy_from_slice(&seq.to_be_bytes());
                let tl = rtp_tag_len(keys);
                tag_range = w.len() - tl..w.len();
            }
            match tag {
                0 => {}
                1 => f[tag_range].fill(0),
                _ => {
                    let r = expand(*seed, tag_range.len());
                    f[tag_range].copy_from_slice(&r);
                }
            }
        }
        Mutation::Ssrc { to_stream, to } => {
            let mut t = match to_stream {
                Some(s) => streams[*s as usize % streams.len()].ssrc,
                None => *to,
            };
            if t == g.ssrc {
                t = t.wrapping_add(1);
            }
            let off = if g.rtcp { 4 } else { 8 };
            f[off..off + 4].copy_from_slice(&t.to_be_bytes());
        }
        Mutation::Xor { off, mask } => {
            let o = pick(*off, w.len());
            let mut any = false;
            for (i, b) in mask.iter().enumerate() {
                if o + i < f.len() {
                    f[o + i] ^= *b;
                    any |= *b != 0;
                }
            }
            if !any {
                f[o] ^= 0x01;
            }
        }
        Mutation::Reflect => f = g.reflected.clone(),
        Mutation::WrongKey { seed } => {
            let p = c04::mprofile(keys.profile);
            let key = expand(*seed, 16);
            let salt = expand(seed.rotate_left(9) ^ 0x5bd1_e995, p.salt_len());
            if key == keys.key && salt == keys.salt {
                return None;
            }
            let mut wk = Srtp::new(p, &key, &salt).ok()?;
            if g.rtcp {
                wk = wk.with_rtcp_tag_len(rtcp_trailer(keys, g).0.saturating_sub(4));
                f = wk.protect_rtcp(&g.plain, g.index, true).ok()?;
            } else {
                f = wk.protect_rtp(&g.plain, g.index).ok()?;
            }
        }
        Mutation::Cleartext => f = g.plain.clone(),
        Mutation::TagSwap { from } => {
            let o = &gen_[pick(*from, gen_.len())];
            if o.rtcp != g.rtcp {
                return None;
            }
            if g.rtcp {
                let (trail, gcm) = rtcp_trailer(keys, g);
                let (a, b) = if gcm { (20, 4) } else { (trail - 4, 0) };
                if w.len() < 8 + a || o.wire.len() < 8 + a {
                    return None;
                }
                let (fl, ol) = (f.len(), o.wire.len());
                f[fl - a..fl - b].copy_from_slice(&o.wire[ol - a..ol - b]);
            } else {
                let tl = rtp_tag_len(keys);
                let (fl, ol) = (f.len(), o.wire.len());
                f[fl - tl..].copy_from_slice(&o.wire[ol - tl..]);
            }
        }
        Mutation::Splice { from } => {
            let o = &gen_[pick(*from, gen_.len())];
            if o.rtcp != g.rtcp {
                return None;
            }
            let (hl, ohl) = if g.rtcp { (8, 8) } else { (model::rtp_header_len(w)?, model::rtp_header_len(&o.wire)?) };
            f.truncate(hl);
            f.extend_from_slice(&o.wire[ohl..]);
        }
    }
    // a forgery differs in at least one bit from every packet the key holder produced
    if gen_.iter().any(|x| x.wire == f) {
        return None;
    }
    Some(f)
}

fn mutation_name(m: &Mutation) -> &'static str {
    match m {
        Mutation::Flip { .. } => "multi-bit-flip",
        Mutation::Trunc { .. } => "truncate",
        Mutation::Append { .. } => "append",
        Mutation::Index { delta, .. } if delta.abs() >= 100 => "index-far",
        Mutation::Index { .. } => "index-near",
        Mutation::Ssrc { .. } => "ssrc-rewrite",
        Mutation::Xor { .. } => "xor-bytes",
        Mutation::Reflect => "reflect",
        Mutation::WrongKey { .. } => "wrong-key",
        Mutation::Cleartext => "cleartext",
        Mutation::TagSwap { .. } => "tag-swap",
        Mutation::Splice { .. } => "splice",
    }
}

fn wire_ssrc(rtcp: bool, w: &[u8]) -> Option<u32> {
    let off = if rtcp { 4 } else { 8 };
    (w.len() >= off + 4).then(|| u32::from_be_bytes([w[off], w[off + 1], w[off + 2], w[off + 3]]))
}

/// Delivery schedule shared by `interleave` and `transport`: genuine packet indices in network
/// order, and for every slot the forgeries injected just before it.
struct Schedule {
    order: Vec<usize>,
    /// (slot, base, forged bytes, class)
    forged: Vec<(usize, usize, Vec<u8>, &'static str)>,
    skipped: usize,
}

fn schedule(keys: &Keys, streams: &[StreamSpec], fast: bool, items: &[Item], forgeries: &[Forgery], gen_: &[Genuine]) -> Schedule {
    let net: Vec<(u8, bool, Option<u8>)> =
        items.iter().map(|s| (if fast { s.delay % 3 } else { s.delay }, s.drop, s.dup.map(|d| if fast { d % 3 } else { d }))).collect();
    let order = delivery_order(&net);
    let mut forged = Vec::new();
    let mut skipped = 0;
    for fg in forgeries {
        let base = pick(fg.base, gen_.len());
        match apply_mutation(keys, streams, gen_, base, &fg.m) {
            Some(bytes) => forged.push((pick(fg.at, order.len() + 1), base, bytes, mutation_name(&fg.m))),
            None => skipped += 1,
        }
    }
    forged.sort_by_key(|f| f.0);
    Schedule { order, forged, skipped }
}

fn check_mix(c: &MixCase, rec: &CaseRec, tot: &Totals) -> Check {
    let gen_ = build_genuine(&c.keys, &c.streams, c.fast, &c.items)?;
    let sch = schedule(&c.keys, &c.streams, c.fast, &c.items, &c.forgeries, &gen_);
    let mut s = c.keys.receiver();
    let mut twin = c.keys.receiver();
    let mut fi = 0;
    let mut forged_ssrcs: Vec<u32> = Vec::new();
    let mut nontrivial = false;
    let mut accepted = 0u64;
    for slot in 0..=sch.order.len() {
        while fi < sch.forged.len() && sch.forged[fi].0 == slot {
            let (_, base, bytes, class) = &sch.forged[fi];
            let g = &gen_[*base];
            if let Ok(o) = offer(&mut s, g.rtcp, bytes) {
                return Err(Fail::new(
                    format!("forgery-accepted:{class}"),
                    format!(
                        "forgery ({class}) derived from genuine {} #{base} ({} bytes -> {} bytes, {}) was accepted at slot {slot}: {o:?}",
                        if g.rtcp { "SRTCP" } else { "SRTP" },
                        g.wire.len(),
                        bytes.len(),
                        PROFILE_NAMES[(c.keys.profile & 3) as usize]
                    ),
                ));
            }
            rec.label(format!("forged:{class}"));
            if let Some(x) = wire_ssrc(g.rtcp, bytes) {
                forged_ssrcs.push(x);
            }
            forged_ssrcs.push(g.ssrc);
            tot.forgeries.fetch_add(1, Ordering::Relaxed);
            fi += 1;
        }
        if slot == sch.order.len() {
            break;
        }
        let g = &gen_[sch.order[slot]];
        let r1 = offer(&mut s, g.rtcp, &g.wire);
        let r2 = offer(&mut twin, g.rtcp, &g.wire);
        ensure!(
            r1 == r2,
            "twin-divergence-after-forgery",
            "slot {slot}: genuine {} #{} (ssrc {:#x}) gives {:?} in the session that saw {} forgeries but {:?} in its twin",
            if g.rtcp { "SRTCP" } else { "SRTP" },
            sch.order[slot],
            g.ssrc,
            r1.as_ref().map(|_| "Ok(..)"),
            fi,
            r2.as_ref().map(|_| "Ok(..)")
        );
        tot.genuine_compared.fetch_add(1, Ordering::Relaxed);
        if r2.is_ok() {
            accepted += 1;
            if forged_ssrcs.contains(&g.ssrc) {
                nontrivial = true;
            }
        }
    }
    tot.genuine_accepted.fetch_add(accepted, Ordering::Relaxed);
    rec.set_nontrivial(nontrivial);
    rec.label(format!("mix:{}", PROFILE_NAMES[(c.keys.profile & 3) as usize]));
    if sch.skipped > 0 {
        rec.label("mix:mutation-not-applicable");
    }
    if accepted == 0 {
        rec.label("mix:no-genuine-accepted");
    }
    if c.items.iter().any(|i| !matches!(i.what, Payload::Rtp { .. })) && c.items.iter().any(|i| matches!(i.what, Payload::Rtp { .. })) {
        rec.label("mix:rtp+rtcp");
    }
    Ok(())
}

// ---------------------------------------------------------------------------------------------
// transport
// ---------------------------------------------------------------------------------------------

#[derive(Clone, Debug, Serialize, Deserialize)]
pub struct TItem {
    /// None: an RTCP PLI; Some: RTP
    pub rtp: Option<(i32, Shape)>,
    pub delay: u8,
    pub drop: bool,
    pub dup: Option<u8>,
}

#[derive(Clone, Debug, Serialize, Deserialize)]
pub struct TCase {
    pub keys: Keys,
    pub stream: StreamSpec,
    pub items: Vec<TItem>,
    pub forgeries: Vec<Forgery>,
}

fn tcase_strategy() -> impl Strategy<Value = TCase> {
    (
        keys_strategy(),
        streams_strategy(1),
        prop::collection::vec(
            (prop_oneof![5 => (c04::delta_strategy(), shape_strategy(200, 8)).prop_map(Some), 1 => Just(None)], net_strategy())
                .prop_map(|(rtp, (delay, drop, dup))| TItem { rtp, delay, drop, dup }),
            1..=24,
        ),
        prop::collection::vec((any::<u16>(), any::<u16>(), mutation_strategy()).prop_map(|(at, base, m)| Forgery { at, base, m }), 1..=24),
    )
        .prop_map(|(keys, mut streams, items, forgeries)| TCase { keys, stream: streams.remove(0), items, forgeries })
}

struct Obs(parking_lot::Mutex<Vec<RtpPacket>>);
impl rustrtc::peer_connection::RtpObserver for Obs {
    fn on_ingress(&self, packet: &RtpPacket, _src: SocketAddr) {
        self.0.lock().push(packet.clone());
    }
}

fn check_transport(c: &TCase, rec: &CaseRec, tot: &Totals) -> Check {
    let streams = vec![c.stream.clone()];
    // RTP payload types must not collide with the RTCP demultiplexing range; PLI as RTCP
    let items: Vec<Item> = c
        .items
        .iter()
        .map(|t| Item {
            stream: 0,
            what: match &t.rtp {
                Some((delta, shape)) => {
                    let mut sh = shape.clone();
                    sh.pt = 96 + sh.pt % 32;
                    Payload::Rtp { delta: *delta, shape: sh }
                }
                None => Payload::Pli { media: 0x0102_0304 },
            },
            delay: t.delay,
            drop: t.drop,
            dup: t.dup,
        })
        .collect();
    let gen_ = build_genuine(&c.keys, &streams, false, &items)?;
    let sch = schedule(&c.keys, &streams, false, &items, &c.forgeries, &gen_);

    let (_tx, rx) = watch::channel(None);
    let from: SocketAddr = "127.0.0.1:40404".parse().unwrap();
    let conn = IceConn::new(rx, from, None);
    let tr = RtpTransport::new(conn, true);
    tr.start_srtp(c.keys.receiver());
    let (rtp_tx, mut rtp_rx) = mpsc::channel::<(RtpPacket, SocketAddr)>(256);
    let (rtcp_tx, mut rtcp_rx) = mpsc::channel::<Vec<RtcpPacket>>(256);
    tr.register_provisional_listener(rtp_tx);
    tr.register_rtcp_listener(rtcp_tx);
    let obs = Arc::new(Obs(parking_lot::Mutex::new(Vec::new())));
    tr.add_observer(obs.clone());
    let mut twin = c.keys.receiver();
    let mut buf = Vec::new();
    let mut fi = 0;
    let mut expect_count = 0u64;
    let mut nontrivial = false;
    let mut forged_seen = false;

    let mut drain = |what: &str, expect_rtp: Option<&RtpPacket>, expect_rtcp: bool| -> Check {
        let got_rtp: Vec<RtpPacket> = std::iter::from_fn(|| rtp_rx.try_recv().ok()).map(|x| x.0).collect();
        let got_rtcp: Vec<Vec<RtcpPacket>> = std::iter::from_fn(|| rtcp_rx.try_recv().ok()).collect();
        let got_obs: Vec<RtpPacket> = std::mem::take(&mut *obs.0.lock());
        let want_rtp: Vec<RtpPacket> = expect_rtp.into_iter().cloned().collect();
        ensure!(
            got_rtp == want_rtp,
            if want_rtp.is_empty() { "transport-delivered-unauthenticated-rtp" } else { "transport-dropped-or-altered-genuine-rtp" },
            "{what}: RTP listener got {} packet(s) {:?}, expected {:?}",
            got_rtp.len(),
            got_rtp.iter().map(|p| (&p.header, p.payload.len())).collect::<Vec<_>>(),
            want_rtp.iter().map(|p| (&p.header, p.payload.len())).collect::<Vec<_>>()
        );
        ensure!(
            got_obs == want_rtp,
            if want_rtp.is_empty() { "transport-observer-saw-unauthenticated-rtp" } else { "transport-observer-missed-genuine-rtp" },
            "{what}: ingress observer saw {} packet(s), expected {}",
            got_obs.len(),
            want_rtp.len()
        );
        ensure!(
            got_rtcp.len() == expect_rtcp as usize,
            if expect_rtcp { "transport-dropped-genuine-rtcp" } else { "transport-delivered-unauthenticated-rtcp" },
            "{what}: RTCP listener got {:?}, expected {} batch(es)",
            got_rtcp,
            expect_rtcp as usize
        );
        Ok(())
    };

    for slot in 0..=sch.order.len() {
        while fi < sch.forged.len() && sch.forged[fi].0 == slot {
            let (_, base, bytes, class) = &sch.forged[fi];
            futures::executor::block_on(tr.receive(Bytes::from(bytes.clone()), from, &mut buf));
            drain(&format!("forgery ({class}) of #{base}, {} bytes, slot {slot}", bytes.len()), None, false)?;
            ensure!(
                tr.received_rtp_packets() == expect_count,
                "transport-counted-unauthenticated-rtp",
                "forgery ({class}) advanced received_rtp_packets to {} (expected {expect_count})",
                tr.received_rtp_packets()
            );
            rec.label(format!("tforged:{class}"));
            tot.forgeries.fetch_add(1, Ordering::Relaxed);
            forged_seen = true;
            fi += 1;
        }
        if slot == sch.order.len() {
            break;
        }
        let g = &gen_[sch.order[slot]];
        let want = offer(&mut twin, g.rtcp, &g.wire);
        futures::executor::block_on(tr.receive(Bytes::from(g.wire.clone()), from, &mut buf));
        let what = format!("genuine #{} slot {slot} (twin: {:?})", sch.order[slot], want.as_ref().map(|_| "accept"));
        match &want {
            Ok(Out::Rtp(p)) => {
                expect_count += 1;
                drain(&what, Some(p), false)?;
                nontrivial |= forged_seen;
            }
            Ok(Out::Rtcp(_)) => {
                drain(&what, None, true)?;
                nontrivial |= forged_seen;
            }
            Err(_) => drain(&what, None, false)?,
        }
        tot.genuine_compared.fetch_add(1, Ordering::Relaxed);
        if want.is_ok() {
            tot.genuine_accepted.fetch_add(1, Ordering::Relaxed);
        }
        ensure!(
            tr.received_rtp_packets() == expect_count,
            "transport-rtp-count-mismatch",
            "{what}: received_rtp_packets {} expected {expect_count}",
            tr.received_rtp_packets()
        );
    }
    rec.set_nontrivial(nontrivial);
    rec.label(format!("transport:{}", PROFILE_NAMES[(c.keys.profile & 3) as usize]));
    Ok(())
}

// ---------------------------------------------------------------------------------------------
// flood: forgeries on many unseen SSRCs against streams whose state cannot be rebuilt from scratch
// ---------------------------------------------------------------------------------------------

/// One forged datagram of a flood; every flood packet carries its own, never-seen SSRC.
#[derive(Clone, Debug, Serialize, Deserialize)]
pub struct FloodPkt {
    /// 0 genuine SRTP wire with the SSRC rewritten, 1 genuine SRTCP wire with the SSRC rewritten,
    /// 2 SRTP under an unrelated key, 3 SRTCP under an unrelated key, 4 cleartext RTP,
    /// 5 genuine SRTP wire with SSRC rewritten and the sequence number moved far away
    pub kind: u8,
    pub base: u16,
    pub seed: u32,
}

#[derive(Clone, Debug, Serialize, Deserialize)]
pub struct GenStep {
    pub stream: u8,
    pub delta: i32,
    pub rtcp: bool,
}

#[derive(Clone, Debug, Serialize, Deserialize)]
pub struct Round {
    pub ssrc_base: u32,
    pub flood: Vec<FloodPkt>,
    /// genuine packets that arrive in the middle of the flood: (position, packet)
    pub during: Vec<(u16, GenStep)>,
    /// the genuine streams continue afterwards
    pub after: Vec<GenStep>,
}

#[derive(Clone, Debug, Serialize, Deserialize)]
pub struct FloodCase {
    pub keys: Keys,
    pub streams: Vec<StreamSpec>,
    /// 2^16 wraps each stream completes before the first flood (stream 0: at least one)
    pub wraps: Vec<u8>,
    /// index stride of the climb (the receiver sees only a few packets per wrap)
    pub strides: Vec<u16>,
    pub shape: Shape,
    pub rounds: Vec<Round>,
    /// additionally run the same history through RtpTransport::receive
    pub transport: bool,
}

fn genstep_strategy() -> impl Strategy<Value = GenStep> {
    (0..4u8, prop_oneof![6 => Just(1i32), 3 => 2..=100i32, 1 => 1000..=20000i32, 2 => -20..=-1i32], prop::bool::weighted(0.2))
        .prop_map(|(stream, delta, rtcp)| GenStep { stream, delta, rtcp })
}

fn round_strategy() -> impl Strategy<Value = Round> {
    (
        any::<u32>(),
        prop::collection::vec((0..6u8, any::<u16>(), any::<u32>()).prop_map(|(kind, base, seed)| FloodPkt { kind, base, seed }), 28..=80)
            .prop_flat_map(|v| {
                // mostly above the 32-context mark, sometimes just around it
                let n = v.len();
                prop_oneof![5 => Just(n.max(33)), 1 => Just(n), 1 => 28..=36usize].prop_map(move |k| {
                    let mut w = v.clone();
                    while w.len() < k {
                        let x = w[w.len() % n].clone();
                        w.push(FloodPkt { seed: x.seed.rotate_left(11) ^ w.len() as u32, ..x });
                    }
                    w.truncate(k.max(1));
                    w
                })
            }),
        prop::collection::vec((any::<u16>(), genstep_strategy()), 0..=4),
        prop::collection::vec(genstep_strategy(), 2..=10),
    )
        .prop_map(|(ssrc_base, flood, during, after)| Round { ssrc_base, flood, during, after })
}

fn flood_strategy() -> impl Strategy<Value = FloodCase> {
    (
        keys_strategy(),
        streams_strategy(4),
        prop::collection::vec(prop_oneof![1 => Just(0u8), 4 => Just(1u8), 2 => Just(2u8), 1 => Just(3u8)], 4),
        prop::collection::vec(prop_oneof![Just(30000u16), Just(32767u16), 9000..=32767u16], 4),
        shape_strategy(60, 4),
        prop::collection::vec(round_strategy(), 1..=2),
        prop::bool::weighted(0.35),
    )
        .prop_map(|(keys, streams, mut wraps, strides, mut shape, rounds, transport)| {
            wraps[0] = wraps[0].max(1);
            shape.pt = 96 + shape.pt % 32;
            FloodCase { keys, streams, wraps, strides, shape, rounds, transport }
        })
}

/// Anything that takes datagrams and says what came out.
trait Rx {
    fn take(&mut self, rtcp: bool, wire: &[u8]) -> Result<Out, String>;
}

impl Rx for SrtpSession {
    fn take(&mut self, rtcp: bool, wire: &[u8]) -> Result<Out, String> {
        offer(self, rtcp, wire)
    }
}

/// `RtpTransport` with an SRTP session installed, observed at its listeners.
struct TransportRx {
    tr: RtpTransport,
    rtp_rx: mpsc::Receiver<(RtpPacket, SocketAddr)>,
    rtcp_rx: mpsc::Receiver<Vec<RtcpPacket>>,
    from: SocketAddr,
    buf: Vec<u8>,
}

impl TransportRx {
    fn new(keys: &Keys) -> Self {
        let (_tx, rx) = watch::channel(None);
        let from: SocketAddr = "127.0.0.1:40405".parse().unwrap();
        let conn = IceConn::new(rx, from, None);
        let tr = RtpTransport::new(conn, true);
        tr.start_srtp(keys.receiver());
        let (rtp_tx, rtp_rx) = mpsc::channel::<(RtpPacket, SocketAddr)>(64);
        let (rtcp_tx, rtcp_rx) = mpsc::channel::<Vec<RtcpPacket>>(64);
        tr.register_provisional_listener(rtp_tx);
        tr.register_rtcp_listener(rtcp_tx);
        TransportRx { tr, rtp_rx, rtcp_rx, from, buf: Vec::new() }
    }
}

impl Rx for TransportRx {
    fn take(&mut self, _rtcp: bool, wire: &[u8]) -> Result<Out, String> {
        futures::executor::block_on(self.tr.receive(Bytes::copy_from_slice(wire), self.from, &mut self.buf));
        let mut rtp: Vec<RtpPacket> = std::iter::from_fn(|| self.rtp_rx.try_recv().ok()).map(|x| x.0).collect();
        let mut rtcp: Vec<Vec<RtcpPacket>> = std::iter::from_fn(|| self.rtcp_rx.try_recv().ok()).collect();
        match (rtp.len(), rtcp.len()) {
            (0, 0) => Err("nothing delivered".into()),
            (1, 0) => Ok(Out::Rtp(rtp.pop().unwrap())),
            (0, 1) => marshal_rtcp_packets(&rtcp.pop().unwrap()).map(Out::Rtcp).map_err(|e| format!("delivered RTCP does not marshal: {e}")),
            (a, b) => Ok(Out::Rtcp(format!("{a} RTP and {b} RTCP deliveries for one datagram").into_bytes())),
        }
    }
}

enum FloodEv {
    Genuine(usize),
    Forged { bytes: Vec<u8>, kind: u8 },
}

#[derive(Default)]
struct FloodTotals {
    cases_over_mark_with_roc: AtomicU64,
    cases_over_mark: AtomicU64,
    forged_ssrcs: AtomicU64,
    transport_cases: AtomicU64,
}

struct FloodPlan {
    gen_: Vec<Genuine>,
    events: Vec<FloodEv>,
    /// per round: distinct never-seen SSRCs carried by its forgeries
    forged_ssrcs: Vec<usize>,
    /// per genuine packet: (stream, rollover counter or 0 for RTCP)
    meta: Vec<(usize, u32)>,
}

fn flood_plan(c: &FloodCase) -> Result<FloodPlan, Fail> {
    let ns = c.streams.len();
    let mut items: Vec<Item> = Vec::new();
    let mut shape_n = 0u32;
    let mut push = |items: &mut Vec<Item>, stream: usize, delta: i32, rtcp: bool| {
        shape_n += 1;
        let what = if rtcp {
            Payload::Pli { media: 0x0A0B_0C00 + shape_n }
        } else {
            let mut sh = c.shape.clone();
            sh.seed = sh.seed.wrapping_add(shape_n);
            sh.ts = sh.ts.wrapping_add(shape_n * 160);
            Payload::Rtp { delta, shape: sh }
        };
        items.push(Item { stream: stream as u8, what, delay: 0, drop: false, dup: None });
    };
    // climb: round robin, every stream walks up in big strides until it has completed its wraps
    let mut idx: Vec<u64> = c.streams.iter().map(|s| s.start_seq as u64).collect();
    let mut started = vec![false; ns];
    loop {
        let mut progressed = false;
        for s in 0..ns {
            let target = (c.wraps[s % c.wraps.len()] as u64) << 16;
            if started[s] && idx[s] >= target {
                continue;
            }
            let stride = c.strides[s % c.strides.len()].clamp(9000, 32767) as i32;
            if started[s] {
                idx[s] += stride as u64;
            }
            started[s] = true;
            push(&mut items, s, stride, false);
            progressed = true;
        }
        if !progressed {
            break;
        }
    }
    // one SRTCP packet per stream before the flood (SRTCP index state exists too)
    for s in 0..ns {
        push(&mut items, s, 0, true);
    }
    let n_climb = items.len();
    // rounds: remember where each round's genuine packets sit in `items`
    let mut round_items: Vec<(Vec<(usize, usize)>, Vec<usize>)> = Vec::new();
    for r in &c.rounds {
        let mut during: Vec<(usize, usize)> = Vec::new();
        let mut d = r.during.clone();
        d.sort_by_key(|x| x.0);
        for (pos, g) in &d {
            during.push((pick(*pos, r.flood.len() + 1), items.len()));
            push(&mut items, g.stream as usize % ns, g.delta, g.rtcp);
        }
        let mut after = Vec::new();
        for g in &r.after {
            after.push(items.len());
            push(&mut items, g.stream as usize % ns, g.delta, g.rtcp);
        }
        round_items.push((during, after));
    }
    let gen_ = build_genuine(&c.keys, &c.streams, false, &items)?;
    let meta: Vec<(usize, u32)> =
        items.iter().zip(gen_.iter()).map(|(it, g)| (it.stream as usize % ns, if g.rtcp { 0 } else { g.index })).collect();

    let mut events: Vec<FloodEv> = (0..n_climb).map(FloodEv::Genuine).collect();
    let mut used: std::collections::HashSet<u32> = c.streams.iter().map(|s| s.ssrc).collect();
    let rtp_idx: Vec<usize> = (0..gen_.len()).filter(|i| !gen_[*i].rtcp).collect();
    let rtcp_idx: Vec<usize> = (0..gen_.len()).filter(|i| gen_[*i].rtcp).collect();
    let mprof = c04::mprofile(c.keys.profile);
    let mut forged_ssrcs = Vec::new();
    for (r, (during, after)) in c.rounds.iter().zip(round_items.iter()) {
        let mut n_ssrc = 0usize;
        let mut di = 0;
        for (i, f) in r.flood.iter().enumerate() {
            while di < during.len() && during[di].0 == i {
                events.push(FloodEv::Genuine(during[di].1));
                di += 1;
            }
            let mut ssrc = r.ssrc_base.wrapping_add((i as u32 + 1).wrapping_mul(0x9E37_79B1));
            while !used.insert(ssrc) {
                ssrc = ssrc.wrapping_add(0x0100_0001);
            }
            n_ssrc += 1;
            let kind = f.kind % 6;
            let bytes = match kind {
                1 | 3 => {
                    let g = &gen_[rtcp_idx[pick(f.base, rtcp_idx.len())]];
                    let mut b = if kind == 1 {
                        g.wire.clone()
                    } else {
                        let key = expand(f.seed, 16);
                        let salt = expand(f.seed.rotate_left(9) ^ 0x5bd1_e995, mprof.salt_len());
                        let mut plain = g.plain.clone();
                        plain[4..8].copy_from_slice(&ssrc.to_be_bytes());
                        Srtp::new(mprof, &key, &salt).unwrap().protect_rtcp(&plain, 1 + f.seed % 1000, true).unwrap()
                    };
                    b[4..8].copy_from_slice(&ssrc.to_be_bytes());
                    b
                }
                _ => {
                    let g = &gen_[rtp_idx[pick(f.base, rtp_idx.len())]];
                    let mut b = match kind {
                        2 => {
                            let key = expand(f.seed, 16);
                            let salt = expand(f.seed.rotate_left(9) ^ 0x5bd1_e995, mprof.salt_len());
                            let mut plain = g.plain.clone();
                            plain[8..12].copy_from_slice(&ssrc.to_be_bytes());
                            Srtp::new(mprof, &key, &salt).unwrap().protect_rtp(&plain, g.index).unwrap()
                        }
                        4 => {
                            let mut p = g.plain.clone();
                            p.extend_from_slice(&expand(f.seed, 16));
                            p
                        }
                        _ => g.wire.clone(),
                    };
                    b[8..12].copy_from_slice(&ssrc.to_be_bytes());
                    if kind == 5 {
                        let seq = model::rtp_seq(&b).wrapping_add(20000 + (f.seed % 25000) as u16);
                        b[2..4].copy_from_slice(&seq.to_be_bytes());
                    }
                    b
                }
            };
            events.push(FloodEv::Forged { bytes, kind });
        }
        while di < during.len() {
            events.push(FloodEv::Genuine(during[di].1));
            di += 1;
        }
        for a in after {
            events.push(FloodEv::Genuine(*a));
        }
        forged_ssrcs.push(n_ssrc);
    }
    Ok(FloodPlan { gen_, events, forged_ssrcs, meta })
}

/// Drive one receiver through the events next to a twin that never sees the forgeries.
/// Returns: did a stream with ROC >= 1 get a genuine packet accepted (by the twin) after a flood.
fn flood_drive(rx: &mut dyn Rx, twin: &mut SrtpSession, plan: &FloodPlan, level: &str, tot: &Totals) -> Result<bool, Fail> {
    let mut forged_so_far = 0usize;
    let mut roc_after = false;
    for (k, ev) in plan.events.iter().enumerate() {
        match ev {
            FloodEv::Forged { bytes, kind } => {
                let rtcp = rustrtc::rtp::is_rtcp(bytes);
                if let Ok(o) = rx.take(rtcp, bytes) {
                    return Err(Fail::new(
                        format!("{level}flood-forgery-accepted"),
                        format!("event {k}: forged datagram (kind {kind}, {} bytes) on an unseen SSRC was accepted: {o:?}", bytes.len()),
                    ));
                }
                forged_so_far += 1;
                tot.forgeries.fetch_add(1, Ordering::Relaxed);
            }
            FloodEv::Genuine(i) => {
                let g = &plan.gen_[*i];
                let want = offer(twin, g.rtcp, &g.wire);
                let got = rx.take(g.rtcp, &g.wire);
                if want != got {
                    let (stream, roc) = plan.meta[*i];
                    let sig = if want.is_ok() && got.is_err() { "genuine-rejected-after-ssrc-flood" } else { "twin-divergence-after-ssrc-flood" };
                    return Err(Fail::new(
                        format!("{level}{sig}"),
                        format!(
                            "event {k}: genuine {} #{i} of stream {stream} (ssrc {:#x}, seq {}, roc {roc}) after {forged_so_far} rejected forgeries on unseen SSRCs gives {:?}; the twin that saw only genuine traffic gives {:?}",
                            if g.rtcp { "SRTCP" } else { "SRTP" },
                            g.ssrc,
                            if g.rtcp { 0 } else { model::rtp_seq(&g.wire) },
                            got.as_ref().map(|_| "Ok(..)"),
                            want.as_ref().map(|_| "Ok(..)")
                        ),
                    ));
                }
                tot.genuine_compared.fetch_add(1, Ordering::Relaxed);
                if want.is_ok() {
                    tot.genuine_accepted.fetch_add(1, Ordering::Relaxed);
                    if forged_so_far > 0 && !g.rtcp && plan.meta[*i].1 >= 1 {
                        roc_after = true;
                    }
                }
            }
        }
    }
    Ok(roc_after)
}

fn check_flood(c: &FloodCase, rec: &CaseRec, tot: &Totals, ft: &FloodTotals) -> Check {
    let plan = flood_plan(c)?;
    let mut s = c.keys.receiver();
    let mut twin = c.keys.receiver();
    let roc_after = flood_drive(&mut s, &mut twin, &plan, "", tot)?;
    if c.transport {
        let mut t = TransportRx::new(&c.keys);
        let mut twin = c.keys.receiver();
        flood_drive(&mut t, &mut twin, &plan, "transport-", tot)?;
        rec.label("flood:also-through-transport");
        ft.transport_cases.fetch_add(1, Ordering::Relaxed);
    }
    let max_f = plan.forged_ssrcs.iter().copied().max().unwrap_or(0);
    let total_f: usize = plan.forged_ssrcs.iter().sum();
    let over = total_f + c.streams.len() > 32;
    ft.forged_ssrcs.fetch_add(total_f as u64, Ordering::Relaxed);
    if over {
        ft.cases_over_mark.fetch_add(1, Ordering::Relaxed);
    }
    if max_f > 32 && roc_after {
        ft.cases_over_mark_with_roc.fetch_add(1, Ordering::Relaxed);
        rec.label("flood:>32-forged-ssrcs+roc>=1-stream-continues");
    }
    rec.set_nontrivial(over && roc_after);
    rec.label(format!("flood:{}", PROFILE_NAMES[(c.keys.profile & 3) as usize]));
    rec.label(if max_f > 32 { "flood:forged-ssrcs>32-in-one-flood" } else { "flood:forged-ssrcs<=32-per-flood" });
    rec.label(format!("flood:genuine-streams={}", c.streams.len()));
    rec.label(format!("flood:max-roc={}", plan.meta.iter().map(|m| m.1).max().unwrap_or(0).min(4)));
    if c.rounds.len() > 1 {
        rec.label("flood:two-floods");
    }
    if c.rounds.iter().any(|r| !r.during.is_empty()) {
        rec.label("flood:genuine-inside-flood");
    }
    if plan.events.iter().any(|e| matches!(e, FloodEv::Forged { kind: 1 | 3, .. })) {
        rec.label("flood:rtcp-forgeries");
    }
    Ok(())
}

// ---------------------------------------------------------------------------------------------

pub fn run(ctx: &mut Ctx) {
    ctx.level = "fault_enumeration";
    ctx.rule = "flips: a genuine SRTP or SRTCP packet per case (all four profiles; RTP with CSRC/extension/padding, start SEQ boundary-biased so 0-3 accepted predecessors may cross 2^16); packets <= 160 bytes get every single-bit flip, every truncation length and 1..20 appended bytes, larger ones 96 sampled bit positions and 48 lengths; applied to the not-yet-delivered packet and to the last accepted one. interleave: C04's history generator (1-3 SSRCs, RTP and RTCP mixed, wraps, reordering, loss, duplicates) with 1..40 forgeries (11 mutation classes) derived from any genuine packet and inserted at generated positions; twin session sees the genuine packets only. transport: the same through RtpTransport::receive (one SSRC, RTP + PLI). flood: 1-4 genuine streams are first walked through 0-3 (stream 0: 1-3) wraps of 2^16 in strides of 9000..32767 so that their state (ROC, highest SEQ, SRTCP index) cannot be rebuilt from scratch, then 1-2 floods of 28..80 (mostly 33..80) forgeries, each on its own never-seen SSRC (SSRC-rewritten genuine SRTP/SRTCP, wrong-key SRTP/SRTCP, cleartext, far sequence), with genuine packets inside and after each flood; twin oracle at the SrtpSession level and (35% of cases) through RtpTransport::receive; non-trivial there = forged + genuine SSRCs exceed the 32-context mark and a ROC >= 1 stream has a packet accepted by the twin afterwards. Otherwise non-trivial = at least one forgery was processed before a genuine packet of the same SSRC that the twin accepts (flips: always, by construction); distinct by case digest.".into();
    ctx.assumptions = vec![
        "a forgery is a datagram that differs in at least one bit from every packet the key holder produced in the case; verbatim duplicates are treated as genuine traffic (rustrtc documents no replay list) and are shown to both twins".into(),
        "forging success by chance (2^-32 per attempt under the 4-byte tags) is ignored".into(),
        "sender and receiver direction use different master keys (as DTLS-SRTP and SDES provide), so a reflected packet is a forgery".into(),
        "flood: the number of genuine streams stays below the 32-context mark, so any eviction pressure comes from rejected packets only (eviction caused by genuinely new streams is outside the statement)".into(),
        "through the transport a forgery counts as rejected when nothing reaches the RTP listener, RTCP listener or ingress observer and the received-packet counter does not move".into(),
    ];
    let tot = Totals::default();
    let t0 = std::time::Instant::now();
    let n_flips = ctx.scale(3000u32, 45_000u32);
    ctx.sub("flips", n_flips, flip_strategy(), |c: &FlipCase, rec: &CaseRec| check_flips(c, rec, &tot));
    let t_flips = t0.elapsed().as_secs_f64();
    let (n_mix, items, forg) = ctx.scale((12_000u32, 40usize, 40usize), (150_000u32, 80usize, 80usize));
    ctx.sub("interleave", n_mix, mix_strategy(items, forg), |c: &MixCase, rec: &CaseRec| check_mix(c, rec, &tot));
    let t_mix = t0.elapsed().as_secs_f64() - t_flips;
    let n_tr = ctx.scale(5000u32, 75_000u32);
    ctx.sub("transport", n_tr, tcase_strategy(), |c: &TCase, rec: &CaseRec| check_transport(c, rec, &tot));
    let t_tr = t0.elapsed().as_secs_f64() - t_flips - t_mix;
    let ft = FloodTotals::default();
    let n_fl = ctx.scale(1500u32, 30_000u32);
    ctx.sub("flood", n_fl, flood_strategy(), |c: &FloodCase, rec: &CaseRec| check_flood(c, rec, &tot, &ft));
    let t_fl = t0.elapsed().as_secs_f64() - t_flips - t_mix - t_tr;
    ctx.set_extra(
        "flood_totals",
        json!({
            "cases_with_more_than_32_forged_ssrcs_in_one_flood_and_a_roc_ge_1_stream_continuing": ft.cases_over_mark_with_roc.load(Ordering::Relaxed),
            "cases_where_contexts_exceed_32": ft.cases_over_mark.load(Ordering::Relaxed),
            "distinct_forged_ssrcs": ft.forged_ssrcs.load(Ordering::Relaxed),
            "cases_also_run_through_transport": ft.transport_cases.load(Ordering::Relaxed),
        }),
    );
    ctx.set_exhaustive(false);
    ctx.set_extra(
        "totals",
        json!({
            "forgeries_rejected": tot.forgeries.load(Ordering::Relaxed),
            "single_bit_flips": tot.bitflips.load(Ordering::Relaxed),
            "truncations": tot.truncations.load(Ordering::Relaxed),
            "genuine_deliveries_compared": tot.genuine_compared.load(Ordering::Relaxed),
            "genuine_deliveries_accepted": tot.genuine_accepted.load(Ordering::Relaxed),
        }),
    );
    ctx.set_extra("wall_s_by_sub", json!({"flips": t_flips, "interleave": t_mix, "transport": t_tr, "flood": t_fl}));
}
