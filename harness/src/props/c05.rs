//! C05 — SRTP rejects forged packets and a rejection never disturbs receiver state.
//!
//! Sub-checks
//! * `flips`      – for a genuine protected RTP or RTCP packet (small: exhaustively; large: sampled):
//!                  every single-bit flip, every truncation length and a few extensions, applied
//!                  both to a packet the receiver has not seen yet and to one it already accepted;
//!                  all must be rejected, and afterwards the genuine packet and its successor
//!                  must still be accepted unchanged.
//! * `interleave` – metamorphic twin sessions: S sees genuine traffic (RTP + RTCP, 1-3 SSRCs,
//!                  wraps, reordering, loss, duplicates) interleaved with forgeries (multi-bit edits,
//!                  truncations, extensions, sequence/index rewrites far ahead or behind with kept /
//!                  zero / random tag, SSRC rewrites, tag swaps, header/body splices, reflections
//!                  under the opposite direction's key, wrong-key packets, cleartext); S' sees only
//!                  the genuine packets. Every forgery must be an `Err`; every genuine packet must
//!                  give the same result (accept/reject and decoded packet) in S and S'.
//! * `transport`  – the same relation through `RtpTransport::receive` with an SRTP session
//!                  installed: RTP listener, RTCP listener, ingress observer and the received-packet
//!                  counter see exactly what a twin session fed only with genuine packets accepts.

use super::c04::{
    self, Keys, RtcpShape, Shape, StreamSpec, build_packet, build_rtcp, delivery_order, expand, keys_strategy, net_strategy,
    protect_with, rtcp_shape_strategy, seq_base, shape_strategy, streams_strategy, unprotect_with, PROFILE_NAMES,
};
use crate::engine::{CaseRec, Check, Ctx, Fail, hexbytes, pick};
use crate::ensure;
use crate::refimpl::srtp::{self as model, Srtp};
use bytes::Bytes;
use proptest::prelude::*;
use rustrtc::rtp::{PictureLossIndication, RtcpPacket, RtpPacket, marshal_rtcp_packets};
use rustrtc::srtp::SrtpSession;
use rustrtc::transports::PacketReceiver;
use rustrtc::transports::ice::conn::IceConn;
use rustrtc::transports::rtp::RtpTransport;
use serde::{Deserialize, Serialize};
use serde_json::json;
use std::net::SocketAddr;
use std::sync::Arc;
use std::sync::atomic::{AtomicU64, Ordering};
use tokio::sync::{mpsc, watch};

// ---------------------------------------------------------------------------------------------
// helpers
// ---------------------------------------------------------------------------------------------

fn rtcp_protect(sess: &mut SrtpSession, plain: &[u8]) -> Result<Vec<u8>, Fail> {
    let mut w = plain.to_vec();
    sess.protect_rtcp(&mut w).map_err(|e| Fail::new("protect-rtcp-failed", format!("{e}")))?;
    Ok(w)
}

fn rtcp_unprotect(sess: &mut SrtpSession, wire: &[u8]) -> Result<Vec<u8>, String> {
    let mut b = wire.to_vec();
    sess.unprotect_rtcp(&mut b).map(|()| b).map_err(|e| format!("unprotect: {e}"))
}

/// One datagram offered to a receiving session; `Ok` carries a canonical rendering of what came out.
fn offer(sess: &mut SrtpSession, rtcp: bool, wire: &[u8]) -> Result<Out, String> {
    if rtcp { rtcp_unprotect(sess, wire).map(Out::Rtcp) } else { unprotect_with(sess, wire).map(Out::Rtp) }
}

#[derive(Debug, Clone, PartialEq)]
enum Out {
    Rtp(RtpPacket),
    Rtcp(Vec<u8>),
}

fn flip_bit(wire: &[u8], bit: usize) -> Vec<u8> {
    let mut v = wire.to_vec();
    v[bit / 8] ^= 0x80 >> (bit % 8);
    v
}

#[derive(Default)]
struct Totals {
    forgeries: AtomicU64,
    bitflips: AtomicU64,
    truncations: AtomicU64,
    genuine_compared: AtomicU64,
    genuine_accepted: AtomicU64,
}

// ---------------------------------------------------------------------------------------------
// flips
// ---------------------------------------------------------------------------------------------

#[derive(Clone, Debug, Serialize, Deserialize)]
pub struct FlipCase {
    pub keys: Keys,
    pub rtcp: bool,
    pub ssrc: u32,
    pub start_seq: u16,
    /// genuine packets accepted before the forgeries start (consecutive sequence numbers)
    pub pre: u8,
    pub shape: Shape,
    pub rshape: RtcpShape,
    /// bit positions / lengths used when the packet is too large for the exhaustive sweep
    pub sample: Vec<u16>,
    #[serde(with = "hexbytes")]
    pub tail: Vec<u8>,
}

const EXHAUSTIVE_MAX: usize = 160;

fn flip_strategy() -> impl Strategy<Value = FlipCase> {
    (
        keys_strategy(),
        any::<bool>(),
        prop_oneof![Just(0u32), Just(u32::MAX), any::<u32>()],
        seq_base(),
        0..=3u8,
        prop_oneof![8 => shape_strategy(40, 4), 1 => shape_strategy(1400, 64)],
        prop_oneof![8 => rtcp_shape_strategy(12), 1 => rtcp_shape_strategy(340)],
        prop::collection::vec(any::<u16>(), 96),
        prop::collection::vec(any::<u8>(), 1..=20),
    )
        .prop_map(|(keys, rtcp, ssrc, start_seq, pre, mut shape, mut rshape, sample, tail)| {
            // keep the common case small enough for the exhaustive sweep
            if shape.plen <= 40 {
                shape.csrcs = shape.csrcs.min(3);
                shape.pad = shape.pad.min(16);
            }
            if rshape.words <= 12 {
                rshape.more.truncate(1);
            }
            FlipCase { keys, rtcp, ssrc, start_seq, pre, shape, rshape, sample, tail }
        })
}

fn check_flips(c: &FlipCase, rec: &CaseRec, tot: &Totals) -> Check {
    let mut a = c.keys.sender();
    let mut s = c.keys.receiver();
    let n = c.pre as usize + 2;
    // genuine packets: pre.., target, follow
    let mut wires: Vec<Vec<u8>> = Vec::new();
    let mut outs: Vec<Out> = Vec::new();
    for i in 0..n {
        if c.rtcp {
            let mut sh = c.rshape.clone();
            sh.seed = sh.seed.wrapping_add(i as u32);
            let plain = build_rtcp(&sh, c.ssrc);
            wires.push(rtcp_protect(&mut a, &plain)?);
            outs.push(Out::Rtcp(plain));
        } else {
            let mut sh = c.shape.clone();
            sh.seed = sh.seed.wrapping_add(i as u32);
            let p = build_packet(&sh, c.ssrc, c.start_seq.wrapping_add(i as u16));
            wires.push(protect_with(&mut a, &p)?);
            outs.push(Out::Rtp(p));
        }
    }
    let target = c.pre as usize;
    for i in 0..target {
        let r = offer(&mut s, c.rtcp, &wires[i]);
        ensure!(r.as_ref() == Ok(&outs[i]), "flips-setup-genuine-rejected", "in-order genuine packet {i} not accepted: {r:?}");
    }
    // forgeries of the not-yet-seen target and of the last accepted packet
    let mut bases = vec![target];
    if target > 0 {
        bases.push(target - 1);
    }
    let mut forged = 0u64;
    for &bidx in &bases {
        let w = &wires[bidx];
        let exhaustive = w.len() <= EXHAUSTIVE_MAX;
        let bits: Vec<usize> =
            if exhaustive { (0..w.len() * 8).collect() } else { c.sample.iter().map(|x| pick(*x, w.len() * 8)).collect() };
        for bit in bits {
            let f = flip_bit(w, bit);
            if let Ok(o) = offer(&mut s, c.rtcp, &f) {
                return Err(Fail::new(
                    if c.rtcp { "rtcp-bitflip-accepted" } else { "rtp-bitflip-accepted" },
                    format!(
                        "packet {bidx} ({} bytes, {}) with bit {bit} (byte {}) flipped was accepted: {o:?}",
                        w.len(),
                        PROFILE_NAMES[(c.keys.profile & 3) as usize],
                        bit / 8
                    ),
                ));
            }
            forged += 1;
            tot.bitflips.fetch_add(1, Ordering::Relaxed);
        }
        let lens: Vec<usize> = if exhaustive { (0..w.len()).collect() } else { c.sample.iter().take(48).map(|x| pick(*x, w.len())).collect() };
        for l in lens {
            if let Ok(o) = offer(&mut s, c.rtcp, &w[..l]) {
                return Err(Fail::new(
                    if c.rtcp { "rtcp-truncation-accepted" } else { "rtp-truncation-accepted" },
                    format!("packet {bidx} ({} bytes) truncated to {l} bytes was accepted: {o:?}", w.len()),
                ));
            }
            forged += 1;
            tot.truncations.fetch_add(1, Ordering::Relaxed);
        }
        for k in 1..=c.tail.len() {
            let mut f = w.clone();
            f.extend_from_slice(&c.tail[..k]);
            if let Ok(o) = offer(&mut s, c.rtcp, &f) {
                return Err(Fail::new(
                    if c.rtcp { "rtcp-extension-accepted" } else { "rtp-extension-accepted" },
                    format!("packet {bidx} ({} bytes) with {k} appended bytes was accepted: {o:?}", w.len()),
                ));
            }
            forged += 1;
        }
    }
    tot.forgeries.fetch_add(forged, Ordering::Relaxed);
    // the genuine target and its successor are still accepted, unchanged
    for i in target..n {
        let r = offer(&mut s, c.rtcp, &wires[i]);
        ensure!(
            r.as_ref() == Ok(&outs[i]),
            "genuine-rejected-after-forgeries",
            "after {forged} rejected forgeries the genuine packet {i} (in order) gives {r:?}"
        );
        tot.genuine_compared.fetch_add(1, Ordering::Relaxed);
        tot.genuine_accepted.fetch_add(1, Ordering::Relaxed);
    }
    rec.nontrivial();
    rec.label(format!("flips:{}:{}", if c.rtcp { "rtcp" } else { "rtp" }, PROFILE_NAMES[(c.keys.profile & 3) as usize]));
    rec.label(if wires[target].len() <= EXHAUSTIVE_MAX { "flips:exhaustive" } else { "flips:sampled" });
    if !c.rtcp && (c.start_seq as u32 + n as u32) > 65535 {
        rec.label("flips:across-wrap");
    }
    if !c.rtcp && c04::shape_interesting(&c.shape) {
        rec.label("flips:ext/csrc/pad");
    }
    Ok(())
}

// ---------------------------------------------------------------------------------------------
// interleave (twin sessions)
// ---------------------------------------------------------------------------------------------

#[derive(Clone, Debug, Serialize, Deserialize)]
pub enum Payload {
    Rtp { delta: i32, shape: Shape },
    Rtcp { shape: RtcpShape },
    /// a well-formed RTCP PLI (used where the receiver parses the RTCP, i.e. through the transport)
    Pli { media: u32 },
}

#[derive(Clone, Debug, Serialize, Deserialize)]
pub struct Item {
    pub stream: u8,
    pub what: Payload,
    pub delay: u8,
    pub drop: bool,
    pub dup: Option<u8>,
}

#[derive(Clone, Debug, Serialize, Deserialize)]
pub enum Mutation {
    /// XOR these bit positions (deduplicated)
    Flip { bits: Vec<u16> },
    Trunc { keep: u16 },
    Append {
        #[serde(with = "hexbytes")]
        bytes: Vec<u8>,
    },
    /// RTP: sequence number += delta; RTCP: SRTCP index += delta. tag: 0 keep, 1 zero, 2 random
    Index { delta: i32, tag: u8, seed: u32 },
    /// rewrite the SSRC: to another stream of the session, or to an arbitrary value
    Ssrc { to_stream: Option<u8>, to: u32 },
    Xor {
        off: u16,
        #[serde(with = "hexbytes")]
        mask: Vec<u8>,
    },
    /// the same packet protected with the opposite direction's keys (what the receiver itself sends)
    Reflect,
    /// the same packet protected under an unrelated master key
    WrongKey { seed: u32 },
    /// the unprotected packet
    Cleartext,
    /// authentication tag taken from another genuine packet
    TagSwap { from: u16 },
    /// header of this packet, body and tag of another
    Splice { from: u16 },
}

#[derive(Clone, Debug, Serialize, Deserialize)]
pub struct Forgery {
    /// insertion point in the delivery sequence (0 = before everything)
    pub at: u16,
    /// which genuine packet it is derived from (send order; may be one that was lost)
    pub base: u16,
    pub m: Mutation,
}

#[derive(Clone, Debug, Serialize, Deserialize)]
pub struct MixCase {
    pub keys: Keys,
    pub streams: Vec<StreamSpec>,
    pub fast: bool,
    pub items: Vec<Item>,
    pub forgeries: Vec<Forgery>,
}

fn mutation_strategy() -> impl Strategy<Value = Mutation> {
    prop_oneof![
        4 => prop::collection::vec(any::<u16>(), 1..=6).prop_map(|bits| Mutation::Flip { bits }),
        2 => any::<u16>().prop_map(|keep| Mutation::Trunc { keep }),
        1 => prop::collection::vec(any::<u8>(), 1..=20).prop_map(|bytes| Mutation::Append { bytes }),
        5 => (
            prop_oneof![1..=3i32, -3..=-1i32, 100..=40000i32, -40000..=-100i32, Just(32768i32), Just(-32768i32), Just(65535i32)],
            0..3u8,
            any::<u32>()
        )
            .prop_map(|(delta, tag, seed)| Mutation::Index { delta, tag, seed }),
        2 => (prop::option::of(0..3u8), any::<u32>()).prop_map(|(to_stream, to)| Mutation::Ssrc { to_stream, to }),
        3 => (any::<u16>(), prop::collection::vec(any::<u8>(), 1..=16)).prop_map(|(off, mask)| Mutation::Xor { off, mask }),
        1 => Just(Mutation::Reflect),
        1 => any::<u32>().prop_map(|seed| Mutation::WrongKey { seed }),
        1 => Just(Mutation::Cleartext),
        1 => any::<u16>().prop_map(|from| Mutation::TagSwap { from }),
        1 => any::<u16>().prop_map(|from| Mutation::Splice { from }),
    ]
}

fn item_strategy() -> impl Strategy<Value = Item> {
    (
        0..3u8,
        prop_oneof![
            4 => (c04::delta_strategy(), shape_strategy(300, 8)).prop_map(|(delta, shape)| Payload::Rtp { delta, shape }),
            1 => rtcp_shape_strategy(40).prop_map(|shape| Payload::Rtcp { shape }),
        ],
        net_strategy(),
    )
        .prop_map(|(stream, what, (delay, drop, dup))| Item { stream, what, delay, drop, dup })
}

fn mix_strategy(max_items: usize, max_forgeries: usize) -> impl Strategy<Value = MixCase> {
    (
        keys_strategy(),
        streams_strategy(3),
        prop::bool::weighted(0.3),
        prop::collection::vec(item_strategy(), 1..=max_items),
        prop::collection::vec((any::<u16>(), any::<u16>(), mutation_strategy()).prop_map(|(at, base, m)| Forgery { at, base, m }), 1..=max_forgeries),
    )
        .prop_map(|(keys, streams, fast, items, forgeries)| MixCase { keys, streams, fast, items, forgeries })
}

/// A genuine datagram with everything needed to derive forgeries from it.
struct Genuine {
    rtcp: bool,
    ssrc: u32,
    wire: Vec<u8>,
    plain: Vec<u8>,
    /// RTP: rollover counter the sender used; RTCP: SRTCP index
    index: u32,
    reflected: Vec<u8>,
}

fn build_genuine(keys: &Keys, streams: &[StreamSpec], fast: bool, items: &[Item]) -> Result<Vec<Genuine>, Fail> {
    let mut a = keys.sender();
    // the receiver's own transmit direction (for reflections)
    let mut refl = keys.receiver();
    // plan the RTP part
    let rtp_steps: Vec<c04::Step> = items
        .iter()
        .filter_map(|it| match &it.what {
            Payload::Rtp { delta, shape } => {
                Some(c04::Step { stream: it.stream, delta: *delta, shape: shape.clone(), delay: 0, drop: false, dup: None })
            }
            _ => None,
        })
        .collect();
    let mut planned = c04::plan(streams, fast, &rtp_steps).into_iter();
    let mut rtcp_count: std::collections::HashMap<u32, u32> = Default::default();
    let mut out = Vec::with_capacity(items.len());
    for it in items {
        let ssrc = streams[it.stream as usize % streams.len()].ssrc;
        match &it.what {
            Payload::Rtp { .. } => {
                let pl = planned.next().unwrap();
                let plain = pl.packet.marshal().map_err(|e| Fail::new("marshal-failed", format!("{e}")))?;
                out.push(Genuine {
                    rtcp: false,
                    ssrc,
                    wire: protect_with(&mut a, &pl.packet)?,
                    plain,
                    index: pl.roc(),
                    reflected: protect_with(&mut refl, &pl.packet)?,
                });
            }
            Payload::Rtcp { .. } | Payload::Pli { .. } => {
                let plain = match &it.what {
                    Payload::Rtcp { shape } => build_rtcp(shape, ssrc),
                    Payload::Pli { media } => {
                        let pli = RtcpPacket::PictureLossIndication(PictureLossIndication { sender_ssrc: ssrc, media_ssrc: *media });
                        marshal_rtcp_packets(&[pli]).map_err(|e| Fail::new("marshal-failed", format!("{e}")))?
                    }
                    _ => unreachable!(),
                };
                let n = rtcp_count.entry(ssrc).or_insert(0);
                *n += 1;
                out.push(Genuine {
                    rtcp: true,
                    ssrc,
                    wire: rtcp_protect(&mut a, &plain)?,
                    index: *n,
                    reflected: rtcp_protect(&mut refl, &plain)?,
                    plain,
                });
            }
        }
    }
    Ok(out)
}

/// SRTCP trailer length (index word + tag) as the sender under test laid it out, taken from the
/// genuine packet itself; the flag says whether the index word comes last (GCM) or before the tag.
fn rtcp_trailer(keys: &Keys, g: &Genuine) -> (usize, bool) {
    if keys.profile & 3 == 2 { (4, true) } else { (g.wire.len() - g.plain.len(), false) }
}

fn rtp_tag_len(keys: &Keys) -> usize {
    c04::mprofile(keys.profile).rtp_tag_len()
}

fn apply_mutation(keys: &Keys, streams: &[StreamSpec], gen_: &[Genuine], base: usize, m: &Mutation) -> Option<Vec<u8>> {
    let g = &gen_[base];
    let w = &g.wire;
    let mut f = w.clone();
    match m {
        Mutation::Flip { bits } => {
            let mut bs: Vec<usize> = bits.iter().map(|b| pick(*b, w.len() * 8)).collect();
            bs.sort();
            bs.dedup();
            for b in bs {
                f[b / 8] ^= 0x80 >> (b % 8);
            }
        }
        Mutation::Trunc { keep } => f.truncate(pick(*keep, w.len())),
        Mutation::Append { bytes } => f.extend_from_slice(bytes),
        Mutation::Index { delta, tag, seed } => {
            let tag_range;
            if g.rtcp {
                let (trail, gcm) = rtcp_trailer(keys, g);
                if w.len() < 8 + trail {
                    return None;
                }
                let wpos = if gcm { w.len() - 4 } else { w.len() - trail };
                let word = u32::from_be_bytes([w[wpos], w[wpos + 1], w[wpos + 2], w[wpos + 3]]);
                let mut d = *delta;
                if d as u32 & 0x7fff_ffff == 0 {
                    d = 1;
                }
                let idx = (word & 0x7fff_ffff).wrapping_add(d as u32) & 0x7fff_ffff;
                f[wpos..wpos + 4].copy_from_slice(&((word & 0x8000_0000) | idx).to_be_bytes());
                tag_range = if gcm { w.len() - 20..w.len() - 4 } else { wpos + 4..w.len() };
            } else {
                let mut d = *delta;
                if d as u16 == 0 {
                    d = 1;
                }
                let seq = model::rtp_seq(w).wrapping_add(d as u16);
                f[2..4].copy_from_slice(&seq.to_be_bytes());
                let tl = rtp_tag_len(keys);
                tag_range = w.len() - tl..w.len();
            }
            match tag {
                0 => {}
                1 => f[tag_range].fill(0),
                _ => {
                    let r = expand(*seed, tag_range.len());
                    f[tag_range].copy_from_slice(&r);
                }
            }
        }
        Mutation::Ssrc { to_stream, to } => {
            let mut t = match to_stream {
                Some(s) => streams[*s as usize % streams.len()].ssrc,
                None => *to,
            };
            if t == g.ssrc {
                t = t.wrapping_add(1);
            }
            let off = if g.rtcp { 4 } else { 8 };
            f[off..off + 4].copy_from_slice(&t.to_be_bytes());
        }
        Mutation::Xor { off, mask } => {
            let o = pick(*off, w.len());
            let mut any = false;
            for (i, b) in mask.iter().enumerate() {
                if o + i < f.len() {
                    f[o + i] ^= *b;
                    any |= *b != 0;
                }
            }
            if !any {
                f[o] ^= 0x01;
            }
        }
        Mutation::Reflect => f = g.reflected.clone(),
        Mutation::WrongKey { seed } => {
            let p = c04::mprofile(keys.profile);
            let key = expand(*seed, 16);
            let salt = expand(seed.rotate_left(9) ^ 0x5bd1_e995, p.salt_len());
            if key == keys.key && salt == keys.salt {
                return None;
            }
            let mut wk = Srtp::new(p, &key, &salt).ok()?;
            if g.rtcp {
                wk = wk.with_rtcp_tag_len(rtcp_trailer(keys, g).0.saturating_sub(4));
                f = wk.protect_rtcp(&g.plain, g.index, true).ok()?;
            } else {
                f = wk.protect_rtp(&g.plain, g.index).ok()?;
            }
        }
        Mutation::Cleartext => f = g.plain.clone(),
        Mutation::TagSwap { from } => {
            let o = &gen_[pick(*from, gen_.len())];
            if o.rtcp != g.rtcp {
                return None;
            }
            if g.rtcp {
                let (trail, gcm) = rtcp_trailer(keys, g);
                let (a, b) = if gcm { (20, 4) } else { (trail - 4, 0) };
                if w.len() < 8 + a || o.wire.len() < 8 + a {
                    return None;
                }
                let (fl, ol) = (f.len(), o.wire.len());
                f[fl - a..fl - b].copy_from_slice(&o.wire[ol - a..ol - b]);
            } else {
                let tl = rtp_tag_len(keys);
                let (fl, ol) = (f.len(), o.wire.len());
                f[fl - tl..].copy_from_slice(&o.wire[ol - tl..]);
            }
        }
        Mutation::Splice { from } => {
            let o = &gen_[pick(*from, gen_.len())];
            if o.rtcp != g.rtcp {
                return None;
            }
            let (hl, ohl) = if g.rtcp { (8, 8) } else { (model::rtp_header_len(w)?, model::rtp_header_len(&o.wire)?) };
            f.truncate(hl);
            f.extend_from_slice(&o.wire[ohl..]);
        }
    }
    // a forgery differs in at least one bit from every packet the key holder produced
    if gen_.iter().any(|x| x.wire == f) {
        return None;
    }
    Some(f)
}

fn mutation_name(m: &Mutation) -> &'static str {
    match m {
        Mutation::Flip { .. } => "multi-bit-flip",
        Mutation::Trunc { .. } => "truncate",
        Mutation::Append { .. } => "append",
        Mutation::Index { delta, .. } if delta.abs() >= 100 => "index-far",
        Mutation::Index { .. } => "index-near",
        Mutation::Ssrc { .. } => "ssrc-rewrite",
        Mutation::Xor { .. } => "xor-bytes",
        Mutation::Reflect => "reflect",
        Mutation::WrongKey { .. } => "wrong-key",
        Mutation::Cleartext => "cleartext",
        Mutation::TagSwap { .. } => "tag-swap",
        Mutation::Splice { .. } => "splice",
    }
}

fn wire_ssrc(rtcp: bool, w: &[u8]) -> Option<u32> {
    let off = if rtcp { 4 } else { 8 };
    (w.len() >= off + 4).then(|| u32::from_be_bytes([w[off], w[off + 1], w[off + 2], w[off + 3]]))
}

/// Delivery schedule shared by `interleave` and `transport`: genuine packet indices in network
/// order, and for every slot the forgeries injected just before it.
struct Schedule {
    order: Vec<usize>,
    /// (slot, base, forged bytes, class)
    forged: Vec<(usize, usize, Vec<u8>, &'static str)>,
    skipped: usize,
}

fn schedule(keys: &Keys, streams: &[StreamSpec], fast: bool, items: &[Item], forgeries: &[Forgery], gen_: &[Genuine]) -> Schedule {
    let net: Vec<(u8, bool, Option<u8>)> =
        items.iter().map(|s| (if fast { s.delay % 3 } else { s.delay }, s.drop, s.dup.map(|d| if fast { d % 3 } else { d }))).collect();
    let order = delivery_order(&net);
    let mut forged = Vec::new();
    let mut skipped = 0;
    for fg in forgeries {
        let base = pick(fg.base, gen_.len());
        match apply_mutation(keys, streams, gen_, base, &fg.m) {
            Some(bytes) => forged.push((pick(fg.at, order.len() + 1), base, bytes, mutation_name(&fg.m))),
            None => skipped += 1,
        }
    }
    forged.sort_by_key(|f| f.0);
    Schedule { order, forged, skipped }
}

fn check_mix(c: &MixCase, rec: &CaseRec, tot: &Totals) -> Check {
    let gen_ = build_genuine(&c.keys, &c.streams, c.fast, &c.items)?;
    let sch = schedule(&c.keys, &c.streams, c.fast, &c.items, &c.forgeries, &gen_);
    let mut s = c.keys.receiver();
    let mut twin = c.keys.receiver();
    let mut fi = 0;
    let mut forged_ssrcs: Vec<u32> = Vec::new();
    let mut nontrivial = false;
    let mut accepted = 0u64;
    for slot in 0..=sch.order.len() {
        while fi < sch.forged.len() && sch.forged[fi].0 == slot {
            let (_, base, bytes, class) = &sch.forged[fi];
            let g = &gen_[*base];
            if let Ok(o) = offer(&mut s, g.rtcp, bytes) {
                return Err(Fail::new(
                    format!("forgery-accepted:{class}"),
                    format!(
                        "forgery ({class}) derived from genuine {} #{base} ({} bytes -> {} bytes, {}) was accepted at slot {slot}: {o:?}",
                        if g.rtcp { "SRTCP" } else { "SRTP" },
                        g.wire.len(),
                        bytes.len(),
                        PROFILE_NAMES[(c.keys.profile & 3) as usize]
                    ),
                ));
            }
            rec.label(format!("forged:{class}"));
            if let Some(x) = wire_ssrc(g.rtcp, bytes) {
                forged_ssrcs.push(x);
            }
            forged_ssrcs.push(g.ssrc);
            tot.forgeries.fetch_add(1, Ordering::Relaxed);
            fi += 1;
        }
        if slot == sch.order.len() {
            break;
        }
        let g = &gen_[sch.order[slot]];
        let r1 = offer(&mut s, g.rtcp, &g.wire);
        let r2 = offer(&mut twin, g.rtcp, &g.wire);
        ensure!(
            r1 == r2,
            "twin-divergence-after-forgery",
            "slot {slot}: genuine {} #{} (ssrc {:#x}) gives {:?} in the session that saw {} forgeries but {:?} in its twin",
            if g.rtcp { "SRTCP" } else { "SRTP" },
            sch.order[slot],
            g.ssrc,
            r1.as_ref().map(|_| "Ok(..)"),
            fi,
            r2.as_ref().map(|_| "Ok(..)")
        );
        tot.genuine_compared.fetch_add(1, Ordering::Relaxed);
        if r2.is_ok() {
            accepted += 1;
            if forged_ssrcs.contains(&g.ssrc) {
                nontrivial = true;
            }
        }
    }
    tot.genuine_accepted.fetch_add(accepted, Ordering::Relaxed);
    rec.set_nontrivial(nontrivial);
    rec.label(format!("mix:{}", PROFILE_NAMES[(c.keys.profile & 3) as usize]));
    if sch.skipped > 0 {
        rec.label("mix:mutation-not-applicable");
    }
    if accepted == 0 {
        rec.label("mix:no-genuine-accepted");
    }
    if c.items.iter().any(|i| !matches!(i.what, Payload::Rtp { .. })) && c.items.iter().any(|i| matches!(i.what, Payload::Rtp { .. })) {
        rec.label("mix:rtp+rtcp");
    }
    Ok(())
}

// ---------------------------------------------------------------------------------------------
// transport
// ---------------------------------------------------------------------------------------------

#[derive(Clone, Debug, Serialize, Deserialize)]
pub struct TItem {
    /// None: an RTCP PLI; Some: RTP
    pub rtp: Option<(i32, Shape)>,
    pub delay: u8,
    pub drop: bool,
    pub dup: Option<u8>,
}

#[derive(Clone, Debug, Serialize, Deserialize)]
pub struct TCase {
    pub keys: Keys,
    pub stream: StreamSpec,
    pub items: Vec<TItem>,
    pub forgeries: Vec<Forgery>,
}

fn tcase_strategy() -> impl Strategy<Value = TCase> {
    (
        keys_strategy(),
        streams_strategy(1),
        prop::collection::vec(
            (prop_oneof![5 => (c04::delta_strategy(), shape_strategy(200, 8)).prop_map(Some), 1 => Just(None)], net_strategy())
                .prop_map(|(rtp, (delay, drop, dup))| TItem { rtp, delay, drop, dup }),
            1..=24,
        ),
        prop::collection::vec((any::<u16>(), any::<u16>(), mutation_strategy()).prop_map(|(at, base, m)| Forgery { at, base, m }), 1..=24),
    )
        .prop_map(|(keys, mut streams, items, forgeries)| TCase { keys, stream: streams.remove(0), items, forgeries })
}

struct Obs(parking_lot::Mutex<Vec<RtpPacket>>);
impl rustrtc::peer_connection::RtpObserver for Obs {
    fn on_ingress(&self, packet: &RtpPacket, _src: SocketAddr) {
        self.0.lock().push(packet.clone());
    }
}

fn check_transport(c: &TCase, rec: &CaseRec, tot: &Totals) -> Check {
    let streams = vec![c.stream.clone()];
    // RTP payload types must not collide with the RTCP demultiplexing range; PLI as RTCP
    let items: Vec<Item> = c
        .items
        .iter()
        .map(|t| Item {
            stream: 0,
            what: match &t.rtp {
                Some((delta, shape)) => {
                    let mut sh = shape.clone();
                    sh.pt = 96 + sh.pt % 32;
                    Payload::Rtp { delta: *delta, shape: sh }
                }
                None => Payload::Pli { media: 0x0102_0304 },
            },
            delay: t.delay,
            drop: t.drop,
            dup: t.dup,
        })
        .collect();
    let gen_ = build_genuine(&c.keys, &streams, false, &items)?;
    let sch = schedule(&c.keys, &streams, false, &items, &c.forgeries, &gen_);

    let (_tx, rx) = watch::channel(None);
    let from: SocketAddr = "127.0.0.1:40404".parse().unwrap();
    let conn = IceConn::new(rx, from, None);
    let tr = RtpTransport::new(conn, true);
    tr.start_srtp(c.keys.receiver());
    let (rtp_tx, mut rtp_rx) = mpsc::channel::<(RtpPacket, SocketAddr)>(256);
    let (rtcp_tx, mut rtcp_rx) = mpsc::channel::<Vec<RtcpPacket>>(256);
    tr.register_provisional_listener(rtp_tx);
    tr.register_rtcp_listener(rtcp_tx);
    let obs = Arc::new(Obs(parking_lot::Mutex::new(Vec::new())));
    tr.add_observer(obs.clone());
    let mut twin = c.keys.receiver();
    let mut buf = Vec::new();
    let mut fi = 0;
    let mut expect_count = 0u64;
    let mut nontrivial = false;
    let mut forged_seen = false;

    let mut drain = |what: &str, expect_rtp: Option<&RtpPacket>, expect_rtcp: bool| -> Check {
        let got_rtp: Vec<RtpPacket> = std::iter::from_fn(|| rtp_rx.try_recv().ok()).map(|x| x.0).collect();
        let got_rtcp: Vec<Vec<RtcpPacket>> = std::iter::from_fn(|| rtcp_rx.try_recv().ok()).collect();
        let got_obs: Vec<RtpPacket> = std::mem::take(&mut *obs.0.lock());
        let want_rtp: Vec<RtpPacket> = expect_rtp.into_iter().cloned().collect();
        ensure!(
            got_rtp == want_rtp,
            if want_rtp.is_empty() { "transport-delivered-unauthenticated-rtp" } else { "transport-dropped-or-altered-genuine-rtp" },
            "{what}: RTP listener got {} packet(s) {:?}, expected {:?}",
            got_rtp.len(),
            got_rtp.iter().map(|p| (&p.header, p.payload.len())).collect::<Vec<_>>(),
            want_rtp.iter().map(|p| (&p.header, p.payload.len())).collect::<Vec<_>>()
        );
        ensure!(
            got_obs == want_rtp,
            if want_rtp.is_empty() { "transport-observer-saw-unauthenticated-rtp" } else { "transport-observer-missed-genuine-rtp" },
            "{what}: ingress observer saw {} packet(s), expected {}",
            got_obs.len(),
            want_rtp.len()
        );
        ensure!(
            got_rtcp.len() == expect_rtcp as usize,
            if expect_rtcp { "transport-dropped-genuine-rtcp" } else { "transport-delivered-unauthenticated-rtcp" },
            "{what}: RTCP listener got {:?}, expected {} batch(es)",
            got_rtcp,
            expect_rtcp as usize
        );
        Ok(())
    };

    for slot in 0..=sch.order.len() {
        while fi < sch.forged.len() && sch.forged[fi].0 == slot {
            let (_, base, bytes, class) = &sch.forged[fi];
            futures::executor::block_on(tr.receive(Bytes::from(bytes.clone()), from, &mut buf));
            drain(&format!("forgery ({class}) of #{base}, {} bytes, slot {slot}", bytes.len()), None, false)?;
            ensure!(
                tr.received_rtp_packets() == expect_count,
                "transport-counted-unauthenticated-rtp",
                "forgery ({class}) advanced received_rtp_packets to {} (expected {expect_count})",
                tr.received_rtp_packets()
            );
            rec.label(format!("tforged:{class}"));
            tot.forgeries.fetch_add(1, Ordering::Relaxed);
            forged_seen = true;
            fi += 1;
        }
        if slot == sch.order.len() {
            break;
        }
        let g = &gen_[sch.order[slot]];
        let want = offer(&mut twin, g.rtcp, &g.wire);
        futures::executor::block_on(tr.receive(Bytes::from(g.wire.clone()), from, &mut buf));
        let what = format!("genuine #{} slot {slot} (twin: {:?})", sch.order[slot], want.as_ref().map(|_| "accept"));
        match &want {
            Ok(Out::Rtp(p)) => {
                expect_count += 1;
                drain(&what, Some(p), false)?;
                nontrivial |= forged_seen;
            }
            Ok(Out::Rtcp(_)) => {
                drain(&what, None, true)?;
                nontrivial |= forged_seen;
            }
            Err(_) => drain(&what, None, false)?,
        }
        tot.genuine_compared.fetch_add(1, Ordering::Relaxed);
        if want.is_ok() {
            tot.genuine_accepted.fetch_add(1, Ordering::Relaxed);
        }
        ensure!(
            tr.received_rtp_packets() == expect_count,
            "transport-rtp-count-mismatch",
            "{what}: received_rtp_packets {} expected {expect_count}",
            tr.received_rtp_packets()
        );
    }
    rec.set_nontrivial(nontrivial);
    rec.label(format!("transport:{}", PROFILE_NAMES[(c.keys.profile & 3) as usize]));
    Ok(())
}

// ---------------------------------------------------------------------------------------------

pub fn run(ctx: &mut Ctx) {
    ctx.level = "fault_enumeration";
    ctx.rule = "flips: a genuine SRTP or SRTCP packet per case (all four profiles; RTP with CSRC/extension/padding, start SEQ boundary-biased so 0-3 accepted predecessors may cross 2^16); packets <= 160 bytes get every single-bit flip, every truncation length and 1..20 appended bytes, larger ones 96 sampled bit positions and 48 lengths; applied to the not-yet-delivered packet and to the last accepted one. interleave: C04's history generator (1-3 SSRCs, RTP and RTCP mixed, wraps, reordering, loss, duplicates) with 1..40 forgeries (11 mutation classes) derived from any genuine packet and inserted at generated positions; twin session sees the genuine packets only. transport: the same through RtpTransport::receive (one SSRC, RTP + PLI). Non-trivial = at least one forgery was processed before a genuine packet of the same SSRC that the twin accepts (flips: always, by construction); distinct by case digest.".into();
    ctx.assumptions = vec![
        "a forgery is a datagram that differs in at least one bit from every packet the key holder produced in the case; verbatim duplicates are treated as genuine traffic (rustrtc documents no replay list) and are shown to both twins".into(),
        "forging success by chance (2^-32 per attempt under the 4-byte tags) is ignored".into(),
        "sender and receiver direction use different master keys (as DTLS-SRTP and SDES provide), so a reflected packet is a forgery".into(),
        "through the transport a forgery counts as rejected when nothing reaches the RTP listener, RTCP listener or ingress observer and the received-packet counter does not move".into(),
    ];
    let tot = Totals::default();
    let t0 = std::time::Instant::now();
    let n_flips = ctx.scale(3000u32, 45_000u32);
    ctx.sub("flips", n_flips, flip_strategy(), |c: &FlipCase, rec: &CaseRec| check_flips(c, rec, &tot));
    let t_flips = t0.elapsed().as_secs_f64();
    let (n_mix, items, forg) = ctx.scale((12_000u32, 40usize, 40usize), (150_000u32, 80usize, 80usize));
    ctx.sub("interleave", n_mix, mix_strategy(items, forg), |c: &MixCase, rec: &CaseRec| check_mix(c, rec, &tot));
    let t_mix = t0.elapsed().as_secs_f64() - t_flips;
    let n_tr = ctx.scale(5000u32, 75_000u32);
    ctx.sub("transport", n_tr, tcase_strategy(), |c: &TCase, rec: &CaseRec| check_transport(c, rec, &tot));
    let t_tr = t0.elapsed().as_secs_f64() - t_flips - t_mix;
    ctx.set_exhaustive(false);
    ctx.set_extra(
        "totals",
        json!({
            "forgeries_rejected": tot.forgeries.load(Ordering::Relaxed),
            "single_bit_flips": tot.bitflips.load(Ordering::Relaxed),
            "truncations": tot.truncations.load(Ordering::Relaxed),
            "genuine_deliveries_compared": tot.genuine_compared.load(Ordering::Relaxed),
            "genuine_deliveries_accepted": tot.genuine_accepted.load(Ordering::Relaxed),
        }),
    );
    ctx.set_extra("wall_s_by_sub", json!({"flips": t_flips, "interleave": t_mix, "transport": t_tr}));
}
