//! C11 interop slice (thorough tier): one rustrtc endpoint against the independent webrtc-rs `dtls`
//! crate through a harness UDP proxy, in both role assignments.
//!
//! rustrtc: IceConn over a loopback socket whose remote address is the proxy. webrtc-rs: `DTLSConn::new`
//! over a connected loopback socket. The proxy optionally un-bundles webrtc-rs's multi-record datagrams into
//! one datagram per record (legal: a sender is free not to coalesce) so that the same (role, class, ordinal)
//! fault addressing as in the rustrtc-rustrtc checks applies; a small `mtu` makes webrtc-rs fragment its
//! handshake messages natively (RFC 6347 4.2.3), which exercises rustrtc's reassembly with a real peer.
//! Epoch-0 records travelling towards webrtc-rs get strictly increasing record sequence numbers at delivery
//! (as a retransmitting sender would assign them) so that its replay window never hides a harness artefact.
//!
//! Oracle: when both sides completed, `export_keying_material("EXTRACTOR-dtls_srtp", 60)` and the SRTP
//! profile agree and application data is readable in both directions; liveness as in c11.rs (10 intervals).

use super::c11::{Act, Fault, Known, RefragSpec, act_kind, refragment, role_name};
use crate::engine::{AsyncCheck, CaseRec, Check, Ctx, Fail};
use crate::net::fault::{Action, Classify, CustomFn, Deliver, FaultLayer, Phase, Rule, Side, pump};
use crate::net::rig;
use crate::net::wire::{self, DClass};
use bytes::Bytes;
use dtls::cipher_suite::CipherSuiteId;
use dtls::config::{Config, ExtendedMasterSecretType};
use dtls::conn::DTLSConn;
use dtls::crypto::Certificate as WCert;
use dtls::extension::extension_use_srtp::SrtpProtectionProfile;
use parking_lot::Mutex;
use proptest::prelude::*;
use rustrtc::transports::PacketReceiver;
use rustrtc::transports::dtls::{self as rdtls, DtlsState, DtlsTransport};
use rustrtc::transports::ice::IceSocketWrapper;
use rustrtc::transports::ice::conn::IceConn;
use serde::{Deserialize, Serialize};
use std::collections::{BTreeSet, HashSet};
use std::sync::Arc;
use std::sync::atomic::{AtomicU64, Ordering};
use std::time::{Duration, Instant};
use tokio::net::UdpSocket;
use tokio::sync::{mpsc, watch};
use webrtc_util::KeyingMaterialExporter;

const T: Duration = Duration::from_millis(100);
const DEADLINE: Duration = Duration::from_secs(8);

#[derive(Clone, Debug, Serialize, Deserialize)]
pub struct ICase {
    pub rustrtc_is_client: bool,
    /// webrtc-rs MTU (0 = its default 1200); small values make it fragment handshake messages
    pub mtu: u16,
    /// split multi-record datagrams into one datagram per record before the fault layer
    pub unbundle: bool,
    pub faults: Vec<Fault>,
}

#[derive(Clone, Debug, Default)]
pub struct DgInfo {
    /// first record is a handshake fragment
    pub frag: bool,
    pub nrec: usize,
}

fn wcert() -> WCert {
    static C: std::sync::OnceLock<WCert> = std::sync::OnceLock::new();
    C.get_or_init(|| WCert::generate_self_signed(vec!["localhost".to_string()]).expect("webrtc-rs certificate")).clone()
}

fn reader(sock: Arc<UdpSocket>, unbundle: bool) -> (mpsc::UnboundedReceiver<Bytes>, tokio::task::JoinHandle<()>) {
    let (tx, rx) = mpsc::unbounded_channel();
    let h = tokio::spawn(async move {
        let mut buf = vec![0u8; 65536];
        loop {
            let Ok((n, _)) = sock.recv_from(&mut buf).await else { break };
            let d = &buf[..n];
            let recs = wire::dtls_records(d);
            let covered: usize = recs.iter().map(|r| 13 + r.body.len()).sum();
            if unbundle && recs.len() > 1 && covered == n {
                for r in &recs {
                    let _ = tx.send(Bytes::copy_from_slice(&d[r.offset..r.offset + 13 + r.body.len()]));
                }
            } else if tx.send(Bytes::copy_from_slice(d)).is_err() {
                break;
            }
        }
    });
    (rx, h)
}

/// Give every epoch-0 record of the datagram the next record sequence number.
fn renumber(d: &[u8], ctr: &AtomicU64) -> Bytes {
    let mut v = d.to_vec();
    for r in wire::dtls_records(d) {
        if r.epoch == 0 {
            let s = ctr.fetch_add(1, Ordering::Relaxed);
            v[r.offset + 5..r.offset + 11].copy_from_slice(&s.to_be_bytes()[2..8]);
        }
    }
    Bytes::from(v)
}

#[derive(Debug)]
pub struct IOutcome {
    pub rustrtc_ms: Option<f64>,
    pub webrtc_ms: Option<f64>,
    pub rustrtc_state: &'static str,
    pub webrtc_result: String,
    pub last_fault_ms: f64,
    pub end_ms: f64,
    pub fired: Vec<bool>,
    /// per fired rule: the faulted datagram started with a handshake fragment
    pub fired_on_fragment: Vec<bool>,
    pub refrag_log: Vec<(usize, &'static str, usize)>,
    pub saw_hvr: bool,
    /// HelloVerifyRequest datagrams handed to the rustrtc client
    pub hvr_delivered: u32,
    /// class of the first server-flight datagram handed to the rustrtc client after the first HelloVerifyRequest
    pub post_hvr_first: Option<(DClass, bool)>,
    pub saw_native_fragments: bool,
    /// multi-record datagrams handed to rustrtc / to rustrtc while Connected
    pub multi_delivered: u32,
    pub multi_to_connected: u32,
    pub retransmissions: u32,
    pub safety: Check,
    pub app: Check,
    pub trace: String,
}

fn to_action(a: &Act, k: usize) -> Action {
    let ms = |pct: u16| ((T.as_millis() as u64 * pct as u64) / 100).min(60_000) as u16;
    match a {
        Act::Drop => Action::Drop,
        Act::Dup { copies, gap_pct } => Action::Dup { copies: *copies, gap_ms: ms(*gap_pct) },
        Act::Delay { pct } => Action::Delay { ms: ms(*pct) },
        Act::Swap { count, max_pct } => Action::HoldBack { count: *count, max_ms: ms(*max_pct) },
        Act::Refrag { .. } => Action::Custom(k as u8),
    }
}

pub async fn run_icase(c: &ICase) -> anyhow::Result<IOutcome> {
    let bind = || async { UdpSocket::bind("127.0.0.1:0").await.map(Arc::new) };
    let (sock_r, proxy_r, proxy_w, sock_w) = (bind().await?, bind().await?, bind().await?, bind().await?);
    let (addr_r, addr_pr, addr_pw, addr_w) = (sock_r.local_addr()?, proxy_r.local_addr()?, proxy_w.local_addr()?, sock_w.local_addr()?);
    sock_w.connect(addr_pw).await?;
    let mut tasks: Vec<tokio::task::JoinHandle<()>> = Vec::new();

    // rustrtc endpoint = Side::A; webrtc-rs = Side::B
    let side_of = |client: bool| if client == c.rustrtc_is_client { Side::A } else { Side::B };
    let rules: Vec<Rule<DClass>> = c
        .faults
        .iter()
        .enumerate()
        .map(|(i, f)| Rule { from: side_of(f.client), class: f.class, ordinal: f.ordinal, action: to_action(&f.act, i) })
        .collect();
    let specs: Vec<Option<RefragSpec>> = c
        .faults
        .iter()
        .map(|f| match &f.act {
            Act::Refrag { cuts, order, coalesce } => Some(RefragSpec { cuts: cuts.clone(), order: order.clone(), coalesce: *coalesce }),
            _ => None,
        })
        .collect();
    let mut layer: FaultLayer<DClass, DgInfo> = FaultLayer::new(rules, true);
    let log: Arc<Mutex<Vec<(usize, &'static str, usize)>>> = Arc::new(Mutex::new(Vec::new()));
    {
        let log = log.clone();
        let ctr = AtomicU64::new(0x0000_4000_0000);
        let f: CustomFn = Arc::new(move |k: u8, pkt: &Bytes| {
            let Some(Some(sp)) = specs.get(k as usize) else { return vec![pkt.clone()] };
            let mut next = || ctr.fetch_add(1, Ordering::Relaxed);
            match refragment(sp, pkt, &mut next) {
                Some((out, kind, n)) => {
                    log.lock().push((k as usize, kind, n));
                    out
                }
                None => vec![pkt.clone()],
            }
        });
        layer.custom = Some(f);
    }
    let layer = Arc::new(Mutex::new(layer));
    let classify: Classify<DClass, DgInfo> = Arc::new(|b: &[u8]| {
        let recs = wire::dtls_records(b);
        let frag = recs
            .first()
            .filter(|r| r.content_type == 22 && r.epoch == 0)
            .and_then(|r| wire::hs_header(&r.body))
            .map(|h| h.frag_len != h.length)
            .unwrap_or(false);
        (wire::dtls_class(b), DgInfo { frag, nrec: recs.len() })
    });
    // multi-record datagrams handed to the rustrtc endpoint (true = it was Connected at that moment)
    let multi_rx: Arc<Mutex<Vec<bool>>> = Arc::new(Mutex::new(Vec::new()));
    let rt_slot: Arc<Mutex<Option<Arc<DtlsTransport>>>> = Arc::new(Mutex::new(None));
    {
        // rustrtc -> webrtc-rs
        let (rx, h) = reader(proxy_r.clone(), c.unbundle);
        tasks.push(h);
        let ctr = Arc::new(AtomicU64::new(0));
        let out = proxy_w.clone();
        let deliver: Deliver = Arc::new(move |b: Bytes| {
            let (out, ctr) = (out.clone(), ctr.clone());
            Box::pin(async move {
                let b = renumber(&b, &ctr);
                let _ = out.send_to(&b, addr_w).await;
            })
        });
        tasks.push(tokio::spawn(pump(rx, layer.clone(), Side::A, classify.clone(), deliver)));
        // webrtc-rs -> rustrtc
        let (rx, h) = reader(proxy_w.clone(), c.unbundle);
        tasks.push(h);
        let out = proxy_r.clone();
        let (slot, multi) = (rt_slot.clone(), multi_rx.clone());
        let deliver: Deliver = Arc::new(move |b: Bytes| {
            let out = out.clone();
            let n = wire::dtls_records(&b).len();
            if n > 1 {
                let connected = slot.lock().as_ref().map(|d: &Arc<DtlsTransport>| matches!(d.get_state(), DtlsState::Connected(..))).unwrap_or(false);
                multi.lock().push(connected);
            }
            Box::pin(async move {
                let _ = out.send_to(&b, addr_r).await;
            })
        });
        tasks.push(tokio::spawn(pump(rx, layer.clone(), Side::B, classify.clone(), deliver)));
    }

    // rustrtc endpoint
    let (_stx, srx) = watch::channel(Some(IceSocketWrapper::Udp(sock_r.clone())));
    let conn = IceConn::new(srx, addr_pr, Some("R".into()));
    {
        let (conn, sock) = (conn.clone(), sock_r.clone());
        tasks.push(tokio::spawn(async move {
            let mut buf = vec![0u8; 65536];
            let mut mb = Vec::new();
            while let Ok((n, from)) = sock.recv_from(&mut buf).await {
                conn.receive(Bytes::copy_from_slice(&buf[..n]), from, &mut mb).await;
            }
        }));
    }
    let wc = wcert();
    let mut as_r = rdtls::Certificate::default();
    as_r.certificate = vec![wc.certificate[0].as_ref().to_vec()];
    let (rt_dtls, mut app_rx, runner) = DtlsTransport::new(conn.clone(), rig::cert(0), c.rustrtc_is_client, 2048, Some(rdtls::fingerprint(&as_r))).await?;

    *rt_slot.lock() = Some(rt_dtls.clone());

    // webrtc-rs endpoint
    let cfg = Config {
        certificates: vec![wc],
        cipher_suites: vec![CipherSuiteId::Tls_Ecdhe_Ecdsa_With_Aes_128_Gcm_Sha256],
        srtp_protection_profiles: vec![SrtpProtectionProfile::Srtp_Aes128_Cm_Hmac_Sha1_80, SrtpProtectionProfile::Srtp_Aead_Aes_128_Gcm],
        extended_master_secret: ExtendedMasterSecretType::Request,
        flight_interval: T,
        insecure_skip_verify: true,
        mtu: c.mtu as usize,
        ..Default::default()
    };
    let start = Instant::now();
    let ms = |i: Instant| i.duration_since(start).as_secs_f64() * 1e3;
    let wres: Arc<Mutex<Option<(Instant, Result<Arc<DTLSConn>, String>)>>> = Arc::new(Mutex::new(None));
    let spawn_w = |wres: Arc<Mutex<Option<(Instant, Result<Arc<DTLSConn>, String>)>>>, cfg: Config, sock: Arc<UdpSocket>, is_client: bool| {
        tokio::spawn(async move {
            let r = tokio::time::timeout(DEADLINE, DTLSConn::new(sock, cfg, is_client, None)).await;
            let r = match r {
                Ok(Ok(c)) => Ok(Arc::new(c)),
                Ok(Err(e)) => Err(format!("error: {e}")),
                Err(_) => Err("timeout".to_string()),
            };
            *wres.lock() = Some((Instant::now(), r));
        })
    };
    let timers = Some((T, DEADLINE));
    if c.rustrtc_is_client {
        tasks.push(spawn_w(wres.clone(), cfg, sock_w.clone(), false));
        tokio::task::yield_now().await;
        tasks.push(tokio::spawn(rustrtc::verif::DTLS_TIMERS.scope(timers, runner)));
    } else {
        tasks.push(tokio::spawn(rustrtc::verif::DTLS_TIMERS.scope(timers, runner)));
        tokio::task::yield_now().await;
        tasks.push(spawn_w(wres.clone(), cfg, sock_w.clone(), true));
    }

    let mut rustrtc_at: Option<Instant> = None;
    let hard = DEADLINE + Duration::from_millis(1500);
    let mut st_rx = rt_dtls.subscribe_state();
    loop {
        let st = rt_dtls.get_state();
        st_rx.borrow_and_update();
        if matches!(st, DtlsState::Connected(..)) && rustrtc_at.is_none() {
            rustrtc_at = Some(Instant::now());
        }
        let wdone = wres.lock().is_some();
        let rdone = matches!(st, DtlsState::Connected(..) | DtlsState::Failed | DtlsState::Closed);
        if (wdone && rdone) || start.elapsed() > hard {
            break;
        }
        tokio::select! {
            _ = st_rx.changed() => {}
            _ = tokio::time::sleep(Duration::from_millis(10)) => {}
        }
    }
    let st = rt_dtls.get_state();
    let w = wres.lock().clone();
    let mut safety: Check = Ok(());
    let mut app: Check = Ok(());
    let (webrtc_ms, webrtc_result, wconn) = match &w {
        Some((t, Ok(cn))) => (Some(ms(*t)), "completed".to_string(), Some(cn.clone())),
        Some((_, Err(e))) => (None, e.clone(), None),
        None => (None, "still handshaking".to_string(), None),
    };
    if let (DtlsState::Connected(_, prof), Some(wc)) = (&st, &wconn) {
        let er = rt_dtls.export_keying_material("EXTRACTOR-dtls_srtp", 60);
        let ew = wc.connection_state().await.export_keying_material("EXTRACTOR-dtls_srtp", &[], 60).await;
        match (er, ew) {
            (Ok(a), Ok(b)) => {
                if a != b {
                    safety = Err(Fail::new("interop-exporter-differs", format!("both completed, exporter differs: rustrtc {}.. webrtc-rs {}..", crate::engine::hex(&a[..8]), crate::engine::hex(&b[..8]))));
                }
            }
            (a, b) => safety = Err(Fail::new("interop-exporter-unavailable", format!("exporter failed: rustrtc ok={} webrtc-rs ok={}", a.is_ok(), b.is_ok()))),
        }
        let wp = wc.selected_srtpprotection_profile();
        let wp16: Option<u16> = match wp {
            SrtpProtectionProfile::Unsupported => None,
            p => Some(p as u16),
        };
        if safety.is_ok() && *prof != wp16 {
            safety = Err(Fail::new("interop-srtp-profile-differs", format!("SRTP profile rustrtc {:?} vs webrtc-rs {:?}", prof, wp)));
        }
        if safety.is_ok() {
            // application data both ways
            let m1: &[u8] = b"c11:interop:from-rustrtc";
            let m2: &[u8] = b"c11:interop:from-webrtc-rs";
            if let Err(e) = rt_dtls.send(Bytes::from_static(b"c11:interop:from-rustrtc")).await {
                app = Err(Fail::new("interop-appdata-send-failed", format!("rustrtc send: {e}")));
            }
            let mut buf = vec![0u8; 2048];
            if app.is_ok() {
                match wc.read(&mut buf, Some(Duration::from_secs(4))).await {
                    Ok(n) if &buf[..n] == m1 => {}
                    Ok(n) => app = Err(Fail::new("interop-appdata-altered", format!("webrtc-rs read {:?}", &buf[..n.min(40)]))),
                    Err(e) => app = Err(Fail::timing("interop-appdata-not-readable", format!("webrtc-rs could not read rustrtc's application data: {e}"))),
                }
            }
            if app.is_ok() {
                if let Err(e) = wc.write(m2, Some(Duration::from_secs(2))).await {
                    app = Err(Fail::new("interop-appdata-send-failed", format!("webrtc-rs write: {e}")));
                } else {
                    match tokio::time::timeout(Duration::from_secs(4), app_rx.recv()).await {
                        Ok(Some(b)) if b.as_ref() == m2 => {}
                        Ok(Some(b)) => app = Err(Fail::new("interop-appdata-altered", format!("rustrtc read {:?}", &b[..b.len().min(40)]))),
                        _ => app = Err(Fail::timing("interop-appdata-not-readable", "rustrtc could not read webrtc-rs's application data".to_string())),
                    }
                }
            }
        }
    }
    let end = Instant::now();
    let multi_counts = {
        let m = multi_rx.lock();
        (m.len() as u32, m.iter().filter(|c| **c).count() as u32)
    };
    let out = {
    let g = layer.lock();
    let last_fault_ms = g.last_fault.map(|lf| if lf > start { ms(lf) } else { 0.0 }).unwrap_or(0.0);
    let mut fired_on_fragment = vec![false; c.faults.len()];
    // the k-th Captured event carrying an action belongs to the rule that fired k-th; match by (side, class, action)
    for e in g.trace.iter().filter(|e| e.phase == Phase::Captured && e.action.is_some()) {
        for (i, r) in g.rules.iter().enumerate() {
            if g.fired[i] && r.from == e.from && r.class == e.class && Some(&r.action) == e.action.as_ref() && e.info.frag {
                fired_on_fragment[i] = true;
            }
        }
    }
    let saw_hvr = g.count_of(Side::A, DClass::HelloVerifyRequest) + g.count_of(Side::B, DClass::HelloVerifyRequest) > 0;
    let mut hvr_delivered = 0u32;
    let mut post_hvr_first: Option<(DClass, bool)> = None;
    for e in g.trace.iter().filter(|e| e.phase == Phase::Delivered && e.from == Side::B) {
        match e.class {
            DClass::HelloVerifyRequest => hvr_delivered += 1,
            DClass::ServerHello | DClass::Certificate | DClass::ServerKeyExchange | DClass::ServerHelloDone if hvr_delivered >= 1 && post_hvr_first.is_none() => {
                post_hvr_first = Some((e.class, e.info.frag));
            }
            _ => {}
        }
    }
    let saw_native_fragments = g.trace.iter().any(|e| e.phase == Phase::Captured && e.info.frag);
    let mut retransmissions = 0u32;
    for s in [Side::A, Side::B] {
        for cl in [DClass::ServerHello, DClass::ServerHelloDone, DClass::ClientKeyExchange, DClass::Finished] {
            retransmissions += g.count_of(s, cl).saturating_sub(1) as u32;
        }
        // the cookie exchange legitimately produces two ClientHellos
        retransmissions += g.count_of(s, DClass::ClientHello).saturating_sub(2) as u32;
    }
    let off = if g.t0 > start { ms(g.t0) } else { -(start.duration_since(g.t0).as_secs_f64() * 1e3) };
    let mut trace = String::new();
    for (n, e) in g.trace.iter().enumerate() {
        if n >= 80 {
            trace.push_str(" ...");
            break;
        }
        let who = if e.from == Side::A { "R" } else { "W" };
        let ph = if e.phase == Phase::Captured { "tx" } else { "dl" };
        trace.push_str(&format!(" {:.0}:{}{}:{:?}{}", e.t_us as f64 / 1e3 + off, who, ph, e.class, if e.info.frag { "(frag)" } else { "" }));
        if let Some(a) = &e.action {
            trace.push_str(&format!("[{:?}]", a));
        }
    }
    let out = IOutcome {
        rustrtc_ms: rustrtc_at.map(ms),
        webrtc_ms,
        rustrtc_state: rig::state_name(&st),
        webrtc_result,
        last_fault_ms,
        end_ms: ms(end),
        fired: g.fired.clone(),
        fired_on_fragment,
        refrag_log: log.lock().clone(),
        saw_hvr,
        hvr_delivered,
        post_hvr_first,
        saw_native_fragments,
        multi_delivered: multi_counts.0,
        multi_to_connected: multi_counts.1,
        retransmissions,
        safety,
        app,
        trace,
    };
    out
    };
    rt_dtls.close();
    if let Some(wc) = wconn {
        let _ = tokio::time::timeout(Duration::from_millis(200), wc.close()).await;
    }
    for t in &tasks {
        t.abort();
    }
    Ok(out)
}

fn fired_kinds(c: &ICase, o: &IOutcome) -> BTreeSet<String> {
    let mut s = BTreeSet::new();
    for (i, f) in c.faults.iter().enumerate() {
        if !o.fired.get(i).copied().unwrap_or(false) {
            continue;
        }
        let kind: String = match &f.act {
            Act::Refrag { .. } => match o.refrag_log.iter().find(|l| l.0 == i) {
                Some(l) => l.1.to_string(),
                None => continue,
            },
            a if o.fired_on_fragment[i] => format!("frag-{}", act_kind(a)),
            a => act_kind(a).to_string(),
        };
        s.insert(format!("{}({},{:?})", kind, role_name(f.client), f.class));
    }
    s
}

pub fn judge(c: &ICase, o: &IOutcome, rec: &CaseRec, known: &Known) -> Check {
    let kinds = fired_kinds(c, o);
    let who = if c.rustrtc_is_client { "rustrtc=client" } else { "rustrtc=server" };
    let touched = c.faults.iter().enumerate().any(|(i, f)| {
        o.fired.get(i).copied().unwrap_or(false) && matches!(f.class, DClass::Finished | DClass::ChangeCipherSpec | DClass::Certificate)
    });
    rec.set_nontrivial(touched || o.retransmissions >= 1);
    rec.label(format!("interop:{who}"));
    rec.label(format!("interop:mtu={}", c.mtu));
    if c.unbundle {
        rec.label("interop:unbundled");
    }
    if o.saw_hvr {
        rec.label("interop:hello-verify-request-seen");
    }
    if o.saw_native_fragments {
        rec.label("interop:native-fragments-seen");
    }
    if o.hvr_delivered >= 2 {
        rec.label("interop:second-HelloVerifyRequest-delivered");
    }
    if o.multi_delivered > 0 {
        rec.label("interop:multi-record-datagram-delivered-to-rustrtc");
    }
    if o.multi_to_connected > 0 {
        rec.label("interop:multi-record-datagram-to-Connected-rustrtc");
    }
    for k in &kinds {
        rec.label(format!("interop-fired:{k}"));
    }
    if o.retransmissions >= 1 {
        rec.label("interop:retransmission>=1");
    }
    rec.label(format!("interop-outcome:rustrtc={},webrtc-rs={}", o.rustrtc_state, if o.webrtc_ms.is_some() { "completed" } else { "not-completed" }));
    o.safety.clone()?;
    let t = T.as_secs_f64() * 1e3;
    let describe = || {
        format!(
            "{who}, mtu {}, unbundle {}; plan {:?}; fired kinds {:?}; rustrtc {} (Connected at {:?} ms), webrtc-rs {} (at {:?} ms); last fault effect at {:.0} ms, ended at {:.0} ms; trace (ms:R|W tx|dl:class):{}",
            c.mtu,
            c.unbundle,
            c.faults,
            kinds,
            o.rustrtc_state,
            o.rustrtc_ms.map(|x| x.round()),
            o.webrtc_result,
            o.webrtc_ms.map(|x| x.round()),
            o.last_fault_ms,
            o.end_ms,
            o.trace
        )
    };
    if std::env::var("C11_DEBUG").is_ok() {
        eprintln!("[c11-interop] {}", describe());
    }
    // Attribution of a non-converging run, most specific first:
    //  1. a fault kind whose root cause is a finding of the rustrtc-rustrtc checks (same signature there);
    //  2. an observed mechanism around HelloVerifyRequest (only reachable against a cookie-exchanging server);
    //  3. otherwise everything that fired.
    let base_culprit = kinds.iter().find_map(|k| {
        let sender_is_client = k.contains("(client,");
        let rustrtc_receives = sender_is_client != c.rustrtc_is_client;
        if (k.starts_with("refrag-dup(") || k.starts_with("refrag-reorder(") || k.starts_with("frag-dup(") || k.starts_with("frag-late(")) && rustrtc_receives {
            // fragment reassembly ignoring fragment_offset
            let cls = &k[k.find('(').unwrap()..];
            let base = if k.starts_with("refrag-dup") || k.starts_with("frag-dup") { "refrag-dup" } else { "refrag-reorder" };
            return Some(format!("no-convergence:{base}{cls}"));
        }
        if c.rustrtc_is_client && k == "drop(client,ClientKeyExchange)" {
            return Some("no-convergence:drop(client,ClientKeyExchange)".to_string());
        }
        if !c.rustrtc_is_client && (k == "drop(server,Finished)" || k == "drop(server,ChangeCipherSpec)" || k == "late(server,ChangeCipherSpec)") {
            // the rustrtc server never re-sends its final flight (webrtc-rs, unlike rustrtc, insists on the CCS)
            return Some("no-convergence:drop(server,Finished)".to_string());
        }
        None
    });
    let mechanism: Option<&str> = if !c.rustrtc_is_client {
        None
    } else if o.hvr_delivered >= 2 {
        Some("second-HelloVerifyRequest")
    } else if matches!(o.post_hvr_first, Some((cl, frag)) if cl != DClass::ServerHello || frag) {
        Some("post-hvr-first-message-not-ServerHello")
    } else {
        None
    };
    let keyed = |prefix: &str| -> (String, bool) {
        if let Some(b) = base_culprit.as_ref().filter(|b| known.contains(*b)) {
            return (if prefix == "interop-no-convergence" { b.clone() } else { format!("{prefix}[{who}]:{b}") }, true);
        }
        if let Some(m) = mechanism {
            let sig = format!("{prefix}[{who}]:{m}");
            let k = known.contains(&sig);
            return (sig, k);
        }
        if let Some(k) = kinds.iter().find(|k| known.contains(&format!("interop-no-convergence[{who}]:{k}"))) {
            (format!("{prefix}[{who}]:{k}"), true)
        } else if kinds.is_empty() {
            (format!("{prefix}[{who}]:no-fault"), false)
        } else {
            (format!("{prefix}[{who}]:{}", kinds.iter().cloned().collect::<Vec<_>>().join("+")), false)
        }
    };
    match (o.rustrtc_ms, o.webrtc_ms) {
        (Some(a), Some(b)) => {
            o.app.clone()?;
            let both = a.max(b);
            let took = both - o.last_fault_ms.min(both);
            if took > 10.0 * t {
                let (sig, _) = keyed("interop-slow-convergence");
                return Err(Fail::timing(sig, format!("both completed only {took:.0} ms after the last fault effect (> 10 intervals): {}", describe())));
            }
            Ok(())
        }
        _ => {
            let (sig, is_known) = keyed("interop-no-convergence");
            let msg = format!("handshake with webrtc-rs did not complete on both sides before the deadline ({} s): {}", DEADLINE.as_secs(), describe());
            if is_known { Err(Fail::new(sig, msg)) } else { Err(Fail::timing(sig, msg)) }
        }
    }
}

fn checker(known: Known) -> AsyncCheck<ICase> {
    Arc::new(move |c: ICase| {
        let known = known.clone();
        Box::pin(async move {
            let rec = CaseRec::default();
            let res = match run_icase(&c).await {
                Ok(o) => judge(&c, &o, &rec, &known),
                Err(e) => Err(Fail::new("harness-error", format!("interop rig failed: {e}"))),
            };
            (rec, res)
        })
    })
}

/// Datagram classes seen in a handshake with webrtc-rs (it sends HelloVerifyRequest, so there are two ClientHellos).
fn idatagrams() -> Vec<(bool, DClass, u16)> {
    vec![
        (true, DClass::ClientHello, 0),
        (false, DClass::HelloVerifyRequest, 0),
        (true, DClass::ClientHello, 1),
        (false, DClass::ServerHello, 0),
        (false, DClass::Certificate, 0),
        (false, DClass::ServerKeyExchange, 0),
        (false, DClass::ServerHelloDone, 0),
        (true, DClass::ClientKeyExchange, 0),
        (true, DClass::ChangeCipherSpec, 0),
        (true, DClass::Finished, 0),
        (false, DClass::ChangeCipherSpec, 0),
        (false, DClass::Finished, 0),
    ]
}

fn iacts() -> Vec<Act> {
    vec![
        Act::Drop,
        Act::Dup { copies: 1, gap_pct: 0 },
        Act::Dup { copies: 1, gap_pct: 150 },
        Act::Delay { pct: 30 },
        Act::Delay { pct: 150 },
        Act::Swap { count: 1, max_pct: 250 },
        Act::Refrag { cuts: vec![32768], order: vec![0, 1], coalesce: false },
        Act::Refrag { cuts: vec![21845, 43690], order: vec![0, 1, 2], coalesce: true },
        Act::Refrag { cuts: vec![21845, 43690], order: vec![0, 2, 1], coalesce: false },
        Act::Refrag { cuts: vec![21845, 43690], order: vec![0, 1, 1, 2], coalesce: false },
    ]
}

/// webrtc-rs (Rust port) leaves its handshake loop once Finished and never answers a retransmitted final
/// flight; faults that need the *reference* to re-send its last flight are outside what it can recover from.
fn reference_cannot_recover(rustrtc_is_client: bool, f: &Fault) -> bool {
    // webrtc-rs is the server: its flight 6 (CCS, Finished) is never re-sent
    rustrtc_is_client && !f.client && matches!(f.class, DClass::ChangeCipherSpec | DClass::Finished) && matches!(f.act, Act::Drop)
}

fn irandom() -> impl Strategy<Value = ICase> {
    let f = (prop::sample::select(idatagrams()), prop::sample::select(iacts()), prop_oneof![3 => Just(0u16), 1 => Just(1u16)]).prop_map(|((client, class, ord), act, extra)| Fault {
        client,
        class,
        ordinal: ord + extra,
        act,
    });
    (any::<bool>(), prop_oneof![Just(0u16), Just(160), Just(256), Just(400)], any::<bool>(), prop::collection::vec(f, 1..=4)).prop_map(|(rustrtc_is_client, mtu, unbundle, faults)| {
        let faults = faults
            .into_iter()
            .map(|mut f| {
                if reference_cannot_recover(rustrtc_is_client, &f) {
                    f.act = Act::Delay { pct: 150 };
                }
                f
            })
            .collect();
        ICase { rustrtc_is_client, mtu, unbundle, faults }
    })
}

pub fn known_set(ctx: &Ctx) -> Known {
    let mut s = HashSet::new();
    for who in ["rustrtc=client", "rustrtc=server"] {
        for (client, class, _) in idatagrams() {
            for k in ["drop", "dup", "late", "refrag", "refrag-dup", "refrag-reorder", "frag-drop", "frag-dup", "frag-late"] {
                let sig = format!("interop-no-convergence[{who}]:{}({},{:?})", k, role_name(client), class);
                if ctx.is_known(&sig) {
                    s.insert(sig);
                }
            }
        }
    }
    for sig in ctx_known_base(ctx) {
        s.insert(sig);
    }
    for m in ["second-HelloVerifyRequest", "post-hvr-first-message-not-ServerHello"] {
        let sig = format!("interop-no-convergence[rustrtc=client]:{m}");
        if ctx.is_known(&sig) {
            s.insert(sig);
        }
    }
    Arc::new(s)
}

fn ctx_known_base(ctx: &Ctx) -> Vec<String> {
    super::c11::known_set(ctx).iter().cloned().collect()
}

pub fn run(ctx: &mut Ctx, rt: &tokio::runtime::Runtime) {
    let known = known_set(ctx);
    let chk = checker(known);
    // enumerated single faults, one record per datagram, both role assignments; plus native fragmentation runs
    if !ctx.is_replay() {
        let mut cases = Vec::new();
        for rustrtc_is_client in [true, false] {
            cases.push(ICase { rustrtc_is_client, mtu: 0, unbundle: false, faults: vec![] });
            cases.push(ICase { rustrtc_is_client, mtu: 160, unbundle: true, faults: vec![] });
            for (client, class, ordinal) in idatagrams() {
                for act in iacts() {
                    if matches!(act, Act::Refrag { .. }) && !super::c11::refraggable(class) {
                        continue;
                    }
                    let f = Fault { client, class, ordinal, act };
                    if reference_cannot_recover(rustrtc_is_client, &f) {
                        continue;
                    }
                    cases.push(ICase { rustrtc_is_client, mtu: 0, unbundle: true, faults: vec![f] });
                }
            }
        }
        // webrtc-rs fragments its Certificate natively at MTU 160 (three datagrams): fault each of them
        for ordinal in 0..3u16 {
            for act in [Act::Drop, Act::Dup { copies: 1, gap_pct: 0 }, Act::Delay { pct: 150 }, Act::Swap { count: 1, max_pct: 250 }] {
                cases.push(ICase { rustrtc_is_client: true, mtu: 160, unbundle: true, faults: vec![Fault { client: false, class: DClass::Certificate, ordinal, act }] });
            }
        }
        ctx.set_extra("interop_single_cases", serde_json::json!(cases.len()));
        // a small private batch runner: same rules as c11::run_batch
        run_ibatch(ctx, rt, "interop-single", cases, 96, &chk);
    } else if let Some(c) = ctx.replay_case::<ICase>("interop-single") {
        run_ibatch(ctx, rt, "interop-single", vec![c], 1, &chk);
    }
    // the reference's own datagram layout (a whole flight per datagram) under the same whole-datagram faults
    if !ctx.is_replay() {
        if !ctx.has_violation() {
            let cases = bundled_cases();
            ctx.set_extra("interop_bundled_cases", serde_json::json!(cases.len()));
            run_ibatch(ctx, rt, "interop-bundled", cases, 96, &chk);
        }
    } else if let Some(c) = ctx.replay_case::<ICase>("interop-bundled") {
        run_ibatch(ctx, rt, "interop-bundled", vec![c], 1, &chk);
    }
    if !ctx.has_violation() || ctx.is_replay() {
        let n = ctx.scale(150usize, 600usize);
        ctx.sub_async(rt, "interop-random", n, 64, irandom(), chk.clone());
    }
}

/// Datagrams of a handshake with webrtc-rs when nothing is un-bundled: rustrtc sends one record per datagram,
/// webrtc-rs one flight per datagram (addressed by the class of its first record).
fn bundled_datagrams(rustrtc_is_client: bool) -> Vec<(bool, DClass, u16)> {
    if rustrtc_is_client {
        vec![
            (true, DClass::ClientHello, 0),
            (false, DClass::HelloVerifyRequest, 0),
            (true, DClass::ClientHello, 1),
            // flight 4: ServerHello, Certificate, ServerKeyExchange, ServerHelloDone
            (false, DClass::ServerHello, 0),
            (true, DClass::ClientKeyExchange, 0),
            (true, DClass::ChangeCipherSpec, 0),
            (true, DClass::Finished, 0),
            // flight 6: ChangeCipherSpec, Finished
            (false, DClass::ChangeCipherSpec, 0),
        ]
    } else {
        vec![
            (true, DClass::ClientHello, 0),
            (false, DClass::ServerHello, 0),
            (false, DClass::Certificate, 0),
            (false, DClass::ServerKeyExchange, 0),
            (false, DClass::ServerHelloDone, 0),
            // flight 5: ClientKeyExchange, ChangeCipherSpec, Finished
            (true, DClass::ClientKeyExchange, 0),
            (false, DClass::ChangeCipherSpec, 0),
            (false, DClass::Finished, 0),
        ]
    }
}

fn bundled_cases() -> Vec<ICase> {
    let basic = || {
        vec![
            Act::Drop,
            Act::Dup { copies: 1, gap_pct: 0 },
            Act::Dup { copies: 1, gap_pct: 150 },
            Act::Delay { pct: 30 },
            Act::Delay { pct: 150 },
            Act::Swap { count: 1, max_pct: 250 },
        ]
    };
    let mut cases = Vec::new();
    for rustrtc_is_client in [true, false] {
        let mk = |faults: Vec<Fault>| ICase { rustrtc_is_client, mtu: 0, unbundle: false, faults };
        cases.push(mk(vec![]));
        let dgs = bundled_datagrams(rustrtc_is_client);
        for (client, class, ordinal) in dgs.iter().copied() {
            for act in basic() {
                let f = Fault { client, class, ordinal, act };
                if !reference_cannot_recover(rustrtc_is_client, &f) {
                    cases.push(mk(vec![f]));
                }
            }
            // the same datagram lost twice in a row
            let twice: Vec<Fault> = (0..2).map(|k| Fault { client, class, ordinal: ordinal + k, act: Act::Drop }).collect();
            if !twice.iter().any(|f| reference_cannot_recover(rustrtc_is_client, f)) {
                cases.push(mk(twice));
            }
        }
        if !rustrtc_is_client {
            // rustrtc's final flight is lost (either record) and so is the reference's first retransmission of flight 5
            for lost in [DClass::ChangeCipherSpec, DClass::Finished] {
                cases.push(mk(vec![
                    Fault { client: false, class: lost, ordinal: 0, act: Act::Drop },
                    Fault { client: true, class: DClass::ClientKeyExchange, ordinal: 1, act: Act::Drop },
                ]));
                cases.push(mk(vec![
                    Fault { client: false, class: lost, ordinal: 0, act: Act::Drop },
                    Fault { client: true, class: DClass::ClientKeyExchange, ordinal: 1, act: Act::Dup { copies: 1, gap_pct: 0 } },
                ]));
            }
        }
    }
    cases
}

fn run_ibatch(ctx: &Ctx, rt: &tokio::runtime::Runtime, sub: &str, cases: Vec<ICase>, conc: usize, chk: &AsyncCheck<ICase>) {
    let solo = |c: &ICase| -> (CaseRec, Check) {
        let mut last = rt.block_on(chk(c.clone()));
        for _ in 0..2 {
            match &last.1 {
                Err(f) if f.timing => last = rt.block_on(chk(c.clone())),
                _ => break,
            }
        }
        last
    };
    if ctx.is_replay() {
        for c in &cases {
            let (rec, res) = solo(c);
            let v = serde_json::to_value(c).unwrap();
            match ctx.record(sub, &v, &rec, &res) {
                Ok(()) => println!("replay: property={} sub={} PASS", ctx.prop, sub),
                Err(f) => ctx.violation(sub, &v, &f),
            }
        }
        return;
    }
    let mut all = ctx.regression_cases::<ICase>(sub);
    all.extend(cases);
    let results: Vec<(CaseRec, Check)> = rt.block_on(async {
        let sem = Arc::new(tokio::sync::Semaphore::new(conc.max(1)));
        let mut hs = Vec::new();
        for (idx, c) in all.iter().cloned().enumerate() {
            let (sem, chk) = (sem.clone(), chk.clone());
            hs.push(tokio::spawn(async move {
                let _p = sem.acquire_owned().await.unwrap();
                let t = Instant::now();
                let r = chk(c).await;
                if crate::engine::progress() {
                    eprintln!("[i{idx}] {:.2}s {}", t.elapsed().as_secs_f64(), match &r.1 {
                        Ok(()) => "ok".to_string(),
                        Err(f) => format!("FAIL {} timing={}", f.signature, f.timing),
                    });
                }
                r
            }));
        }
        let mut out = Vec::new();
        for h in hs {
            out.push(h.await.unwrap_or_else(|e| (CaseRec::default(), Err(Fail::new("harness-task-panic", format!("case task failed: {e}"))))));
        }
        out
    });
    let mut reported = 0;
    for (c, (rec, res)) in all.iter().zip(results) {
        let v = serde_json::to_value(c).unwrap();
        if reported >= 3 && res.is_err() {
            continue;
        }
        let (rec, res) = match res {
            Err(f) if f.timing || f.signature == "harness-task-panic" => {
                let (r2, res2) = solo(c);
                if res2.is_ok() {
                    rec.inconclusive_timing();
                    (rec, res2)
                } else {
                    (r2, res2)
                }
            }
            r => (rec, r),
        };
        if let Err(f) = ctx.record(sub, &v, &rec, &res) {
            reported += 1;
            if reported <= 6 {
                ctx.violation(sub, &v, &f);
            }
        }
    }
}
