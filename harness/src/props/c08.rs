//! C08 — generated answers are valid answers to the offer they respond to.
//!
//! Offers are produced from a grammar (`c08_offer.rs`) as SDP *text*, fed through
//! `SessionDescription::parse` -> `set_remote_description` -> `create_answer` on a real
//! `PeerConnection` configured from a generated local configuration, and the printed
//! answer is read back with an independent line parser and compared, clause by clause,
//! against the *offered model* (what the generator decided to put into the offer).
//! Round trips (`parse(print(d))`, `print(parse(print(d)))`) are checked for every
//! description that was parsed or produced on the way.

use super::c08_offer::*;
use crate::engine::{CaseRec, Check, Ctx, Fail, guarded};
use proptest::prelude::*;
use proptest::strategy::ValueTree;
use rustrtc::media::track::sample_track;
use rustrtc::{
    AudioCapability, MediaCapabilities, MediaKind, PeerConnection, RtcConfiguration,
    RtcpMuxPolicy, RtpCodecParameters, SdpCompatibilityMode, SdpType, SessionDescription,
    T38Capability, TransceiverDirection, TransportMode, VideoCapability,
};
use serde::{Deserialize, Serialize, de::DeserializeOwned};
use serde_json::json;
use std::collections::BTreeSet;
use std::fmt::Debug;
use std::sync::atomic::{AtomicUsize, Ordering};
use std::time::Duration;

// Narrow signatures of shapes that were confirmed against the real code (see REPORT.md).
pub const SIG_MID_NONBUNDLE: &str = "answer-mid-cleared(non-bundle, sections>1)";
pub const SIG_MID_LEGACY: &str = "answer-mid-cleared(legacy-sip)";
/// `local_list`: the answer lists exactly the locally configured primaries (the confirmed shape);
/// `midless_later`: renegotiation of a mid-less offer, audio section other than the first one.
fn sig_family(base: &str, kind: Kind, phase: Phase, local_list: bool, no_common: bool, midless_later: bool, pre_offer: bool) -> String {
    match (phase, kind) {
        (Phase::Reneg, Kind::Audio) if local_list && !no_common && pre_offer => {
            format!("{}(audio, renegotiation, abandoned-local-offer)", base)
        }
        (Phase::First, k) if local_list => format!("{}({}, first-negotiation)", base, k.as_str()),
        (Phase::Reneg, Kind::Video) if local_list => format!("{}(video, renegotiation)", base),
        (Phase::Reneg, Kind::Audio) if local_list && no_common => {
            format!("{}(audio, renegotiation, no-common-codec)", base)
        }
        (Phase::Reneg, Kind::Audio) if midless_later => {
            format!("{}(audio, renegotiation, midless-offer, audio-section>0)", base)
        }
        _ => base.to_string(),
    }
}
/// Signatures whose shape the generator steers away from when they are known findings.
const STEER_SIGS: &[&str] = &[
    "answer-pt-not-offered(audio, first-negotiation)",
    "answer-pt-not-offered(video, first-negotiation)",
];

#[derive(Clone, Copy, Debug, PartialEq, Eq)]
pub enum Phase {
    First,
    Reneg,
}

#[derive(Clone, Debug, Serialize, Deserialize)]
pub struct Case {
    pub local: Local,
    pub offer: Offer,
    pub second: Option<Second>,
    /// the generator forced `include_local` on every RTP section (known-finding steering)
    pub steered: bool,
}

// ------------------------------------------------------------------ independent SDP reader

#[derive(Clone, Debug, Default)]
pub struct MSec {
    pub kind: String,
    pub port: String,
    pub proto: String,
    pub fmts: Vec<String>,
    pub attrs: Vec<(String, Option<String>)>,
}
#[derive(Clone, Debug, Default)]
pub struct MSdp {
    pub sess: Vec<(String, Option<String>)>,
    pub media: Vec<MSec>,
}

pub fn mini_parse(text: &str) -> MSdp {
    let mut out = MSdp::default();
    for line in text.split('\n') {
        let line = line.trim_end_matches('\r');
        if line.len() < 2 || line.as_bytes()[1] != b'=' {
            continue;
        }
        let (t, v) = (&line[..1], &line[2..]);
        match t {
            "m" => {
                let mut p = v.split(' ');
                out.media.push(MSec {
                    kind: p.next().unwrap_or("").to_string(),
                    port: p.next().unwrap_or("").to_string(),
                    proto: p.next().unwrap_or("").to_string(),
                    fmts: p.map(|s| s.to_string()).collect(),
                    attrs: Vec::new(),
                });
            }
            "a" => {
                let kv = match v.find(':') {
                    Some(i) => (v[..i].to_string(), Some(v[i + 1..].to_string())),
                    None => (v.to_string(), None),
                };
                match out.media.last_mut() {
                    Some(m) => m.attrs.push(kv),
                    None => out.sess.push(kv),
                }
            }
            _ => {}
        }
    }
    out
}

fn vals<'a>(attrs: &'a [(String, Option<String>)], key: &str) -> Vec<&'a str> {
    attrs
        .iter()
        .filter(|(k, _)| k == key)
        .map(|(_, v)| v.as_deref().unwrap_or(""))
        .collect()
}

fn static_codec(pt: u8) -> Option<(&'static str, u32, u8)> {
    Some(match pt {
        0 => ("PCMU", 8000, 1),
        3 => ("GSM", 8000, 1),
        4 => ("G723", 8000, 1),
        8 => ("PCMA", 8000, 1),
        9 => ("G722", 8000, 1),
        13 => ("CN", 8000, 1),
        18 => ("G729", 8000, 1),
        _ => return None,
    })
}

// ------------------------------------------------------------------ local configuration

fn caps_config(c: Caps) -> Option<MediaCapabilities> {
    let te = |pt: u8| AudioCapability { payload_type: pt, ..AudioCapability::telephone_event() };
    Some(match c {
        Caps::Unset => return None,
        Caps::Default => MediaCapabilities::default(),
        Caps::AudioPcmuPcma => MediaCapabilities {
            audio: vec![AudioCapability::pcmu(), AudioCapability::pcma(), te(101)],
            video: vec![],
            application: None,
            image: vec![],
        },
        Caps::VideoRtx => MediaCapabilities {
            audio: vec![AudioCapability::opus()],
            video: vec![
                VideoCapability::vp8_with_rtx(97),
                VideoCapability { payload_type: 102, rtx_payload_type: Some(103), ..VideoCapability::h264() },
            ],
            application: None,
            image: vec![],
        },
        Caps::CustomPts => MediaCapabilities {
            audio: vec![
                AudioCapability { payload_type: 109, ..AudioCapability::opus() },
                AudioCapability::pcmu(),
                te(126),
            ],
            video: vec![
                VideoCapability { payload_type: 120, ..VideoCapability::default() },
                VideoCapability { payload_type: 121, ..VideoCapability::h264() },
            ],
            application: None,
            image: vec![],
        },
        Caps::WithT38 => MediaCapabilities { image: vec![T38Capability::default()], ..MediaCapabilities::default() },
    })
}

fn build_config(l: &Local) -> RtcConfiguration {
    let mut cfg = RtcConfiguration::default();
    cfg.transport_mode = match l.mode {
        Mode::WebRtc => TransportMode::WebRtc,
        Mode::Srtp => TransportMode::Srtp,
        Mode::Rtp => TransportMode::Rtp,
    };
    cfg.sdp_compatibility =
        if l.legacy_sip { SdpCompatibilityMode::LegacySip } else { SdpCompatibilityMode::Standard };
    cfg.rtcp_mux_policy = if l.mux_negotiate { RtcpMuxPolicy::Negotiate } else { RtcpMuxPolicy::Require };
    cfg.media_capabilities = caps_config(l.caps);
    cfg.enable_ice_lite = l.ice_lite;
    // loopback only: nothing outside this host is ever contacted
    cfg.bind_ip = Some("127.0.0.1".to_string());
    cfg.ice_servers = Vec::new();
    cfg.disable_ipv6 = true;
    cfg
}

fn mk(k: Kind) -> MediaKind {
    match k {
        Kind::Audio => MediaKind::Audio,
        Kind::Video => MediaKind::Video,
        Kind::Application => MediaKind::Application,
        Kind::Image => MediaKind::Image,
    }
}
fn td(d: Dir) -> TransceiverDirection {
    match d {
        Dir::SendRecv => TransceiverDirection::SendRecv,
        Dir::SendOnly => TransceiverDirection::SendOnly,
        Dir::RecvOnly => TransceiverDirection::RecvOnly,
        Dir::Inactive => TransceiverDirection::Inactive,
    }
}

/// Keeps tracks / channels alive for the duration of a case.
#[derive(Default)]
struct Keep(Vec<Box<dyn std::any::Any + Send>>);

fn apply_pre(pc: &PeerConnection, l: &Local, keep: &mut Keep) {
    for op in &l.pre {
        match op {
            PreOp::Transceiver(k, d) => {
                pc.add_transceiver(mk(*k), td(*d));
            }
            PreOp::Track(k) => {
                let fk = match k {
                    Kind::Video => rustrtc::media::frame::MediaKind::Video,
                    _ => rustrtc::media::frame::MediaKind::Audio,
                };
                let (src, track, fb) = sample_track(fk, 8);
                let lc = local_codecs(l.caps, if *k == Kind::Video { Kind::Video } else { Kind::Audio });
                let params = lc
                    .first()
                    .map(|c| RtpCodecParameters {
                        payload_type: c.pt,
                        name: c.name.clone(),
                        clock_rate: c.clock,
                        channels: if *k == Kind::Video { 0 } else { c.ch },
                    })
                    .unwrap_or_default();
                let _ = pc.add_track(track.clone(), params);
                keep.0.push(Box::new((src, track, fb)));
            }
            PreOp::DataChannel => {
                if let Ok(dc) = pc.create_data_channel("c08", None) {
                    keep.0.push(Box::new(dc));
                }
            }
        }
    }
}

// ------------------------------------------------------------------ round trip

/// The printer's own stable partition: transport attributes are written before a=mid,
/// everything else after; the relative order inside each class is preserved.
fn canon(d: &SessionDescription) -> SessionDescription {
    let mut c = d.clone();
    for m in c.media_sections.iter_mut() {
        let (a, b): (Vec<_>, Vec<_>) = m.attributes.drain(..).partition(|a| {
            matches!(a.key.as_str(), "ice-ufrag" | "ice-pwd" | "fingerprint" | "setup" | "candidate")
        });
        m.attributes = a;
        m.attributes.extend(b);
    }
    c
}

fn describe_diff(a: &SessionDescription, b: &SessionDescription) -> String {
    if a.sdp_type != b.sdp_type {
        return format!("sdp_type {:?} vs {:?}", a.sdp_type, b.sdp_type);
    }
    if a.session != b.session {
        return format!("session {:?} vs {:?}", a.session, b.session);
    }
    if a.media_sections.len() != b.media_sections.len() {
        return format!("section count {} vs {}", a.media_sections.len(), b.media_sections.len());
    }
    for (i, (x, y)) in a.media_sections.iter().zip(b.media_sections.iter()).enumerate() {
        if x != y {
            if x.attributes != y.attributes {
                for (j, (p, q)) in x.attributes.iter().zip(y.attributes.iter()).enumerate() {
                    if p != q {
                        return format!("section {} attribute {}: {:?} vs {:?}", i, j, p, q);
                    }
                }
                return format!("section {} attribute count {} vs {}", i, x.attributes.len(), y.attributes.len());
            }
            return format!(
                "section {}: kind/mid/port/proto/formats/direction/connection {:?} vs {:?}",
                i,
                (&x.kind, &x.mid, x.port, &x.protocol, &x.formats, &x.direction, &x.connection),
                (&y.kind, &y.mid, y.port, &y.protocol, &y.formats, &y.direction, &y.connection)
            );
        }
    }
    "equal".into()
}

pub fn round_trip(d: &SessionDescription, what: &str, fails: &mut Vec<Fail>) {
    let p1 = d.to_sdp_string();
    let d1 = match SessionDescription::parse(d.sdp_type, &p1) {
        Ok(x) => x,
        Err(e) => {
            fails.push(Fail::new(
                format!("roundtrip-reparse-failed({})", what),
                format!("own output does not parse: {:?}\n{}", e, p1),
            ));
            return;
        }
    };
    let (c0, c1) = (canon(d), canon(&d1));
    if c0 != c1 {
        fails.push(Fail::new(
            format!("roundtrip-description-differs({})", what),
            format!("parse(print(d)) != d: {}\nprinted:\n{}", describe_diff(&c0, &c1), p1),
        ));
        return;
    }
    let p2 = d1.to_sdp_string();
    if p2 != p1 {
        fails.push(Fail::new(
            format!("roundtrip-print-unstable({})", what),
            format!("print(parse(print(d))) != print(d)\nfirst:\n{}\nsecond:\n{}", p1, p2),
        ));
    }
}

// ------------------------------------------------------------------ oracle

fn ans_codec(m: &MSec, pt: u8) -> Option<(String, u32, u8)> {
    for v in vals(&m.attrs, "rtpmap") {
        let mut p = v.splitn(2, ' ');
        if p.next().and_then(|x| x.parse::<u8>().ok()) != Some(pt) {
            continue;
        }
        let enc = p.next().unwrap_or("").trim();
        let mut q = enc.split('/');
        let name = q.next().unwrap_or("").to_string();
        let clock = q.next().and_then(|c| c.parse().ok()).unwrap_or(0);
        let ch = q.next().and_then(|c| c.parse().ok()).unwrap_or(1);
        return Some((name, clock, ch));
    }
    static_codec(pt).map(|(n, c, h)| (n.to_string(), c, h))
}

fn ans_apt(m: &MSec) -> Vec<(u8, u8)> {
    let mut out = Vec::new();
    for v in vals(&m.attrs, "fmtp") {
        let mut p = v.splitn(2, ' ');
        let Some(pt) = p.next().and_then(|x| x.parse::<u8>().ok()) else { continue };
        for part in p.next().unwrap_or("").split(';') {
            if let Some(a) = part.trim().strip_prefix("apt=") {
                if let Ok(a) = a.trim().parse::<u8>() {
                    out.push((pt, a));
                }
            }
        }
    }
    out
}

fn dir_compatible(off: Dir, ans: Dir) -> bool {
    match off {
        Dir::SendRecv => true,
        Dir::SendOnly => matches!(ans, Dir::RecvOnly | Dir::Inactive),
        Dir::RecvOnly => matches!(ans, Dir::SendOnly | Dir::Inactive),
        Dir::Inactive => ans == Dir::Inactive,
    }
}

fn setup_ok(off: Setup, ans: &str) -> bool {
    match off {
        Setup::Actpass => ans == "active" || ans == "passive",
        Setup::Active => ans == "passive",
        Setup::Passive => ans == "active",
    }
}

/// All clause violations of one answer (empty = valid).
pub fn check_answer(case: &Case, ro: &ROffer, ans_text: &str, phase: Phase, fails: &mut Vec<Fail>, rec: &CaseRec) {
    let o = &case.offer;
    let l = &case.local;
    let ans = mini_parse(ans_text);
    let ctx = |s: &str| format!("{} [{:?}]\nanswer:\n{}", s, phase, ans_text);
    if ans.media.len() != ro.secs.len() {
        fails.push(Fail::new(
            "answer-section-count",
            ctx(&format!("offer has {} m= sections, answer has {}", ro.secs.len(), ans.media.len())),
        ));
        return;
    }
    let offered_bundle: Option<&Vec<String>> = ro.bundle.as_ref();
    let ans_groups: Vec<&str> = vals(&ans.sess, "group").into_iter().filter(|g| g.starts_with("BUNDLE")).collect();
    let ans_members: Vec<String> =
        ans_groups.iter().flat_map(|g| g.split(' ').skip(1).map(|s| s.to_string())).collect();
    let sess_dir = ans.sess.iter().rev().find_map(|(k, _)| Dir::parse(k));
    {
        // how often each clause had something to judge
        let tag = if phase == Phase::First { "ans" } else { "ans2" };
        let any = |key: &str| ans.media.iter().any(|m| m.attrs.iter().any(|(k, _)| k == key));
        if any("extmap") {
            rec.label(format!("{}:has-extmap", tag));
        }
        if any("rtcp-mux") {
            rec.label(format!("{}:has-rtcp-mux", tag));
        }
        if ans.media.iter().any(|m| !ans_apt(m).is_empty()) {
            rec.label(format!("{}:echoes-rtx", tag));
        }
        if !ans_groups.is_empty() {
            rec.label(format!("{}:has-bundle", tag));
        }
        if any("mid") {
            rec.label(format!("{}:has-mid", tag));
        }
        if any("setup") {
            rec.label(format!("{}:has-setup", tag));
        }
    }
    let all_ans_mids: Vec<String> =
        ans.media.iter().filter_map(|m| vals(&m.attrs, "mid").first().map(|s| s.to_string())).collect();

    for (i, (os, am)) in ro.secs.iter().zip(ans.media.iter()).enumerate() {
        let here = |s: String| ctx(&format!("section {} ({}): {}", i, os.kind.as_str(), s));
        // kind
        if am.kind != os.kind.as_str() {
            fails.push(Fail::new(
                if l.pre_offer { "answer-kind-mismatch(abandoned-local-offer)" } else { "answer-kind-mismatch" },
                here(format!("offered m={}, answered m={}", os.kind.as_str(), am.kind)),
            ));
            continue;
        }
        // mid
        let amid = vals(&am.attrs, "mid").first().map(|s| s.to_string());
        if let Some(omid) = &os.mid {
            match &amid {
                Some(a) if a == omid => {}
                Some(a) => fails.push(Fail::new(
                    "answer-mid-mismatch",
                    here(format!("offered mid {:?}, answered mid {:?}", omid, a)),
                )),
                None => {
                    let sig = if l.legacy_sip {
                        SIG_MID_LEGACY
                    } else if offered_bundle.is_none() && ro.secs.len() > 1 {
                        SIG_MID_NONBUNDLE
                    } else {
                        "answer-mid-cleared"
                    };
                    fails.push(Fail::new(sig, here(format!("offered mid {:?}, answer has no a=mid", omid))));
                }
            }
        }
        // formats
        let local_list: Vec<String> = match os.kind {
            Kind::Image => vec!["98".into()],
            k => local_codecs(l.caps, k).iter().map(|c| c.pt.to_string()).collect(),
        };
        match os.kind {
            Kind::Audio | Kind::Video => {
                let offered_pts: BTreeSet<u8> = os.codecs.iter().map(|c| c.pt).collect();
                let apt = ans_apt(am);
                let ans_primaries: Vec<String> = am
                    .fmts
                    .iter()
                    .filter(|f| {
                        f.parse::<u8>()
                            .ok()
                            .and_then(|pt| ans_codec(am, pt))
                            .map(|(n, _, _)| !n.eq_ignore_ascii_case("rtx"))
                            .unwrap_or(true)
                    })
                    .cloned()
                    .collect();
                let lists_local_config = ans_primaries == local_list;
                let no_common = !os.codecs.iter().any(|c| {
                    local_codecs(l.caps, os.kind).iter().any(|lc| {
                        lc.name.eq_ignore_ascii_case(&c.name) && lc.clock == c.clock && lc.ch == c.ch
                    })
                });
                let midless_later = o.mids == MidScheme::Absent
                    && os.kind == Kind::Audio
                    && ro.secs[..i].iter().any(|p| p.kind == Kind::Audio);
                let mut seen = BTreeSet::new();
                for f in &am.fmts {
                    let Ok(pt) = f.parse::<u8>() else {
                        fails.push(Fail::new("answer-pt-not-offered", here(format!("format {:?} is not a payload type", f))));
                        continue;
                    };
                    if !seen.insert(pt) {
                        fails.push(Fail::new("answer-pt-duplicate", here(format!("PT {} listed twice", pt))));
                    }
                    if !offered_pts.contains(&pt) && apt.iter().any(|(r, _)| *r == pt) {
                        // an RTX PT: judged by the RTX clause below (the (rtx, apt) pair must be offered)
                        continue;
                    }
                    if !offered_pts.contains(&pt) {
                        let sig = sig_family("answer-pt-not-offered", os.kind, phase, lists_local_config, no_common, midless_later, l.pre_offer);
                        fails.push(Fail::new(
                            sig,
                            here(format!(
                                "answered PT {} was not offered (offered {:?}, answered {:?}, local configuration {:?})",
                                pt, os.fmts, am.fmts, local_list
                            )),
                        ));
                        continue;
                    }
                    let oc = os.codecs.iter().find(|c| c.pt == pt).unwrap();
                    if let Some((n, clock, ch)) = ans_codec(am, pt) {
                        let ch_ok = os.kind == Kind::Video || ch == oc.ch;
                        if !(n.eq_ignore_ascii_case(&oc.name) && clock == oc.clock && ch_ok) {
                            let sig = sig_family("answer-pt-codec-mismatch", os.kind, phase, lists_local_config, no_common, midless_later, l.pre_offer);
                            fails.push(Fail::new(
                                sig,
                                here(format!(
                                    "PT {} was offered as {}/{}/{} but answered as {}/{}/{}",
                                    pt, oc.name, oc.clock, oc.ch, n, clock, ch
                                )),
                            ));
                        }
                    }
                }
                // RTX associations
                for (rpt, primary) in &apt {
                    let offered = os.codecs.iter().any(|c| c.pt == *rpt && c.apt == Some(*primary));
                    if !offered {
                        fails.push(Fail::new(
                            if o.mids == MidScheme::Absent && i > 0 {
                                "answer-rtx-apt-not-offered(midless-offer, section>0)"
                            } else {
                                "answer-rtx-apt-not-offered"
                            },
                            here(format!("answer maps RTX PT {} to apt={} which the offer did not propose", rpt, primary)),
                        ));
                    }
                    if !am.fmts.iter().any(|f| f.parse::<u8>().ok() == Some(*primary)) {
                        fails.push(Fail::new(
                            "answer-rtx-primary-not-answered",
                            here(format!("answer keeps RTX PT {} (apt={}) but does not answer PT {}", rpt, primary, primary)),
                        ));
                    }
                    if !am.fmts.iter().any(|f| f.parse::<u8>().ok() == Some(*rpt)) {
                        fails.push(Fail::new(
                            "answer-rtx-pt-not-listed",
                            here(format!("fmtp apt= for PT {} which is not on the m= line", rpt)),
                        ));
                    }
                }
            }
            Kind::Application | Kind::Image => {
                for f in &am.fmts {
                    if !os.fmts.contains(f) {
                        let sig = if os.kind == Kind::Image && am.fmts == local_list {
                            "answer-fmt-not-offered(image)".to_string()
                        } else {
                            format!("answer-fmt-not-offered")
                        };
                        fails.push(Fail::new(
                            sig,
                            here(format!("answered format {:?} was not offered (offered {:?})", f, os.fmts)),
                        ));
                    }
                }
            }
        }
        // header extensions
        let mut ids = BTreeSet::new();
        for v in vals(&am.attrs, "extmap") {
            let mut p = v.split(' ').filter(|s| !s.is_empty());
            let idtok = p.next().unwrap_or("");
            let uri = p.next().unwrap_or("");
            let id: Option<u8> = idtok.split('/').next().and_then(|x| x.parse().ok());
            let Some(id) = id else {
                fails.push(Fail::new("answer-extmap-malformed", here(format!("a=extmap:{}", v))));
                continue;
            };
            if !ids.insert(id) {
                fails.push(Fail::new("answer-extmap-duplicate-id", here(format!("extension id {} used twice", id))));
            }
            // judged against the effective mappings (media level, plus session level where not redefined)
            if !os.eff_extmaps.iter().any(|(oi, ou, _)| *oi == id && ou == uri) {
                let substring = os.eff_extmaps.iter().any(|(oi, ou, _)| *oi == id && ou != uri && ou.contains(uri));
                // F4 first: in a mid-less offer every later section echoes the first section's
                // extmaps, whose URI may by chance be a prefix of the one offered here.
                let sig = if o.mids == MidScheme::Absent && i > 0 {
                    "answer-extmap-not-offered(midless-offer, section>0)"
                } else if substring {
                    "answer-extmap-not-offered(uri-substring)"
                } else {
                    "answer-extmap-not-offered"
                };
                fails.push(Fail::new(
                    sig,
                    here(format!(
                        "answer maps id {} to {} ; offered for this section (media level {:?}, session level {:?}): effective {:?}",
                        id, uri, os.extmaps, ro.sess_ext, os.eff_extmaps
                    )),
                ));
            }
        }
        // rtcp-mux
        if am.attrs.iter().any(|(k, _)| k == "rtcp-mux") && !os.rtcp_mux {
            fails.push(Fail::new("answer-rtcp-mux-not-offered", here("a=rtcp-mux answered but not offered".into())));
        }
        // BUNDLE membership of this section
        if let Some(a) = &amid {
            if ans_members.contains(a) && !os.in_bundle {
                let sig = if offered_bundle.is_some() && ans_members == all_ans_mids {
                    "answer-bundle-member-not-offered(partial-group)"
                } else if offered_bundle.is_none() {
                    "answer-bundle-not-offered"
                } else {
                    "answer-bundle-member-not-offered"
                };
                fails.push(Fail::new(
                    sig,
                    here(format!("answer puts mid {:?} into BUNDLE {:?}; offered group: {:?}", a, ans_members, offered_bundle)),
                ));
            }
        }
        // direction
        if os.kind != Kind::Application {
            let adir = am.attrs.iter().rev().find_map(|(k, _)| Dir::parse(k)).or(sess_dir).unwrap_or(Dir::SendRecv);
            if !dir_compatible(os.dir, adir) {
                // a local transceiver of this kind that the first offer left unmatched
                let local_of_kind = l
                    .pre
                    .iter()
                    .filter(|op| match op {
                        PreOp::Transceiver(k, _) | PreOp::Track(k) => *k == os.kind,
                        PreOp::DataChannel => false,
                    })
                    .count();
                let first_of_kind = o.sections.iter().filter(|p| p.kind == os.kind).count();
                let spare = local_of_kind > first_of_kind;
                let sig = if o.mids == MidScheme::Absent && spare && phase == Phase::Reneg {
                    "answer-direction-incompatible(midless-offer, spare-local-transceiver, renegotiation)"
                } else if !os.dir_explicit && ro.dir_session.is_some() {
                    // the offered direction of this section is the session-level one
                    "answer-direction-incompatible(session-level-direction)"
                } else if os.dir_explicit && ro.dir_session.is_some() && ro.dir_session != Some(os.dir) {
                    // the section overrides a different session-level direction
                    "answer-direction-incompatible(media-level-overrides-session-level)"
                } else {
                    "answer-direction-incompatible"
                };
                fails.push(Fail::new(
                    sig,
                    here(format!(
                        "offered {} (session level {:?}, media level {}), answered {}",
                        os.dir.as_str(),
                        ro.dir_session.map(|d| d.as_str()),
                        if os.dir_explicit { os.dir.as_str() } else { "-" },
                        adir.as_str()
                    )),
                ));
            }
        }
    }
    // group-level checks that are not tied to one section
    if offered_bundle.is_none() && !ans_groups.is_empty() && !fails.iter().any(|f| f.signature.starts_with("answer-bundle")) {
        fails.push(Fail::new("answer-bundle-not-offered", ctx(&format!("answer has a=group:{:?}, offer had none", ans_groups))));
    }
    if let Some(ob) = offered_bundle {
        for m in &ans_members {
            if !ob.contains(m) && !fails.iter().any(|f| f.signature.starts_with("answer-bundle")) {
                fails.push(Fail::new(
                    if ans_members == all_ans_mids {
                        "answer-bundle-member-not-offered(partial-group)"
                    } else {
                        "answer-bundle-member-not-offered"
                    },
                    ctx(&format!("BUNDLE member {:?} not in offered group {:?}", m, ob)),
                ));
            }
        }
    }
    // DTLS role: every answered section against the *effective* offered setup of that section
    // (media-level a=setup if the section has one, else the session-level one; RFC 4145 4)
    if l.mode == Mode::WebRtc && o.profile == Profile::WebRtc {
        let ans_sess_setup = vals(&ans.sess, "setup").last().copied();
        let mixed = ro.secs.iter().map(|s| s.setup.as_str()).collect::<BTreeSet<_>>().len() > 1;
        let mut missing = false;
        for (i, (os, am)) in ro.secs.iter().zip(ans.media.iter()).enumerate() {
            let v = vals(&am.attrs, "setup").last().copied().or(ans_sess_setup);
            let Some(v) = v else {
                missing = true;
                continue;
            };
            if !setup_ok(os.setup, v) {
                let any_actpass = ro.secs.iter().any(|s| s.setup == Setup::Actpass);
                let sig = if mixed && os.setup == Setup::Passive && v == "passive" && any_actpass {
                    // confirmed shape: the role is taken from the first a=setup line found (an actpass
                    // one) although another section's effective value fixes the role
                    "answer-setup-role-conflict(some sections actpass, others passive)"
                } else if mixed {
                    "answer-setup-role-conflict(sections-differ-in-effective-setup)"
                } else {
                    "answer-setup-role-conflict"
                };
                fails.push(Fail::new(
                    sig,
                    ctx(&format!(
                        "section {}: offered a=setup session level {:?}, media level {:?} => effective {}; answer a=setup:{} (effective per section: {:?})",
                        i,
                        ro.setup_session.map(|s| s.as_str()),
                        os.setup_media.map(|s| s.as_str()),
                        os.setup.as_str(),
                        v,
                        ro.secs.iter().map(|s| s.setup.as_str()).collect::<Vec<_>>()
                    )),
                ));
                break;
            }
        }
        if missing {
            fails.push(Fail::new("answer-setup-missing", ctx("DTLS offered, an answered section carries no a=setup (neither media nor session level)")));
        }
    }
    // extmap-allow-mixed may only be answered when it was offered
    {
        let offered = emit_has_allow_mixed(o);
        let answered = ans.sess.iter().any(|(k, _)| k == "extmap-allow-mixed")
            || ans.media.iter().any(|m| m.attrs.iter().any(|(k, _)| k == "extmap-allow-mixed"));
        if answered && !offered {
            fails.push(Fail::new("answer-extmap-allow-mixed-not-offered", ctx("a=extmap-allow-mixed answered but not offered at any level")));
        }
    }
}

/// What the two-level placements actually produced in this offer (measured on the resolved offer).
fn label_levels(r: &ROffer, o: &Offer, rec: &CaseRec) {
    if o.profile == Profile::WebRtc {
        let media: Vec<Setup> = r.secs.iter().filter_map(|s| s.setup_media).collect();
        match (r.setup_session, media.is_empty()) {
            (Some(s), false) => {
                if media.iter().all(|m| *m == s) {
                    rec.label("levels:setup both, equal");
                } else {
                    rec.label(format!(
                        "levels:setup both, different (session {} / media {})",
                        s.as_str(),
                        media.iter().find(|m| **m != s).map(|m| m.as_str()).unwrap_or("-")
                    ));
                }
                if media.len() < r.secs.len() {
                    rec.label("levels:setup session + some sections only");
                }
            }
            (Some(_), true) => rec.label("levels:setup session only"),
            (None, _) => rec.label("levels:setup media only"),
        }
        if r.secs.iter().map(|s| s.setup.as_str()).collect::<BTreeSet<_>>().len() > 1 {
            rec.label("levels:setup effective value differs between sections");
        }
    }
    if let Some(d) = r.dir_session {
        let judged: Vec<&RSec> = r.secs.iter().filter(|s| s.kind != Kind::Application).collect();
        let explicit: Vec<&&RSec> = judged.iter().filter(|s| s.dir_explicit).collect();
        if explicit.is_empty() {
            rec.label("levels:direction session only");
        } else if explicit.iter().all(|s| s.dir == d) {
            rec.label("levels:direction both, equal");
        } else {
            rec.label("levels:direction both, different (media wins)");
        }
        if !explicit.is_empty() && explicit.len() < judged.len() {
            rec.label("levels:direction session + some sections only");
        }
    }
    if !r.sess_ext.is_empty() {
        let redefined = r.secs.iter().any(|s| {
            s.kind.is_rtp()
                && r.sess_ext.iter().any(|(id, uri, _)| s.extmaps.iter().any(|(i2, u2, _)| i2 == id && u2 != uri))
        });
        let restated = r.secs.iter().any(|s| {
            r.sess_ext.iter().any(|(id, uri, _)| s.extmaps.iter().any(|(i2, u2, _)| i2 == id && u2 == uri))
        });
        rec.label("levels:extmap at session level");
        if redefined {
            rec.label("levels:extmap session id redefined at media level");
        }
        if restated {
            rec.label("levels:extmap session mapping restated at media level");
        }
    }
}

fn emit_has_allow_mixed(o: &Offer) -> bool {
    match o.place.allow_mixed {
        Lv::Legacy => o.extras & 0x04 != 0,
        _ => true,
    }
}

// ------------------------------------------------------------------ one negotiation

fn short_err(e: &impl Debug) -> String {
    let s = format!("{:?}", e);
    let s: String = s.chars().take_while(|c| *c != '(' && *c != '{').collect();
    s.trim().to_string()
}

fn debug_on() -> bool {
    std::env::var("VERIF_C08_DEBUG").is_ok()
}

async fn negotiate(case: &Case, rec: &CaseRec) -> Vec<Fail> {
    let mut fails = Vec::new();
    let l = &case.local;
    let o = &case.offer;
    let r1 = resolve(l, o);
    let t1 = emit(o, &r1);
    label_levels(&r1, o, rec);
    let d1 = match SessionDescription::parse(SdpType::Offer, &t1) {
        Ok(d) => d,
        Err(e) => {
            rec.label(format!("rejected:parse:{}", short_err(&e)));
            if debug_on() {
                eprintln!("parse rejected: {:?}\n{}", e, t1);
            }
            return fails;
        }
    };
    round_trip(&d1, "parsed-offer", &mut fails);

    let pc = PeerConnection::new(build_config(l));
    let mut keep = Keep::default();
    apply_pre(&pc, l, &mut keep);
    if l.pre_offer {
        if let Ok(own) = pc.create_offer().await {
            round_trip(&own, "local-offer", &mut fails);
        }
    }
    let res = async {
        if let Err(e) = pc.set_remote_description(d1).await {
            rec.label(format!("rejected:set_remote:{}", short_err(&e)));
            if debug_on() {
                eprintln!("srd rejected: {:?}\n{}", e, t1);
            }
            return;
        }
        let a1 = match pc.create_answer().await {
            Ok(a) => a,
            Err(e) => {
                rec.label(format!("rejected:create_answer:{}", short_err(&e)));
                if debug_on() {
                    eprintln!("create_answer rejected: {:?}\n{}", e, t1);
                }
                return;
            }
        };
        rec.label("answered");
        round_trip(&a1, "answer", &mut fails);
        let before = fails.len();
        check_answer(case, &r1, &a1.to_sdp_string(), Phase::First, &mut fails, rec);
        if !fails[before..].iter().any(|f| f.signature.starts_with("answer-pt-") || f.signature.starts_with("answer-fmt-")) {
            rec.label("ans:formats-all-offered");
        }
        for f in fails[before..].iter_mut() {
            f.msg = format!("{}\noffer:\n{}", f.msg, t1);
        }
        let Some(sec) = &case.second else { return };
        if let Err(e) = pc.set_local_description(a1) {
            rec.label(format!("second:set_local_failed:{}", short_err(&e)));
            return;
        }
        let r2 = apply_second(&r1, l, o, sec, case.steered);
        let t2 = emit(o, &r2);
        let d2 = match SessionDescription::parse(SdpType::Offer, &t2) {
            Ok(d) => d,
            Err(e) => {
                rec.label(format!("second:rejected:parse:{}", short_err(&e)));
                return;
            }
        };
        round_trip(&d2, "parsed-offer", &mut fails);
        if let Err(e) = pc.set_remote_description(d2).await {
            rec.label(format!("second:rejected:set_remote:{}", short_err(&e)));
            if debug_on() {
                eprintln!("second srd rejected: {:?}\n{}", e, t2);
            }
            return;
        }
        let a2 = match pc.create_answer().await {
            Ok(a) => a,
            Err(e) => {
                rec.label(format!("second:rejected:create_answer:{}", short_err(&e)));
                if debug_on() {
                    eprintln!("second create_answer rejected: {:?}\n{}", e, t2);
                }
                return;
            }
        };
        rec.label("second:answered");
        round_trip(&a2, "answer", &mut fails);
        let before = fails.len();
        check_answer(case, &r2, &a2.to_sdp_string(), Phase::Reneg, &mut fails, rec);
        for f in fails[before..].iter_mut() {
            f.msg = format!("{}\nsecond offer:\n{}\nfirst offer:\n{}", f.msg, t2, t1);
        }
    };
    res.await;
    pc.close();
    drop(keep);
    fails
}

fn classify(case: &Case, out: &CaseRec) {
    let l = &case.local;
    let o = &case.offer;
    let rec = LabelSet::default();
    rec.label(format!("mode={:?}", l.mode));
    rec.label(format!("profile={:?}", o.profile));
    rec.label(format!("caps={:?}", l.caps));
    rec.label(format!("sections={}", o.sections.len()));
    rec.label(match o.mids {
        MidScheme::Numeric { .. } => "mids=numeric",
        MidScheme::Alpha => "mids=alpha",
        MidScheme::Overlapping { .. } => "mids=overlapping",
        MidScheme::Absent => "mids=absent",
    });
    rec.label(match o.bundle {
        Bundle::All => "bundle=all",
        Bundle::Subset(_) => "bundle=subset",
        Bundle::Absent => "bundle=absent",
    });
    rec.label(format!("setup={}", o.setup.as_str()));
    if l.legacy_sip {
        rec.label("compat=legacy-sip");
    }
    if l.mux_negotiate {
        rec.label("rtcp-mux-policy=negotiate");
    }
    if !l.pre.is_empty() {
        rec.label("local-pre-added");
    }
    if l.pre_offer {
        rec.label("local-created-offer-first");
    }
    if case.second.is_some() {
        rec.label("has-second-offer");
    }
    if case.steered {
        rec.label("steered:offer-lists-local-codecs");
    }
    if o.setup_session && o.place.setup == Lv::Legacy {
        rec.label("setup-at-session-level");
    }
    if o.profile == Profile::WebRtc {
        rec.label(format!("place:setup={}", o.place.setup.name()));
        rec.label(format!("place:ice={}", o.place.ice.name()));
        rec.label(format!("place:fingerprint={}", o.place.fp.name()));
        rec.label(format!("place:ice-options={}", o.place.ice_options.name()));
    }
    rec.label(format!("place:direction={}", o.place.dir.name()));
    rec.label(format!("place:extmap-allow-mixed={}", o.place.allow_mixed.name()));
    if !o.place.sess_ext.is_empty() {
        rec.label("place:session-level-extmap");
    }
    if o.dir_session {
        rec.label("direction-at-session-level");
    }
    let mut kinds = BTreeSet::new();
    for s in &o.sections {
        kinds.insert(s.kind.as_str());
        if s.codecs.iter().any(|c| c.rtx) || s.local_rtx {
            rec.label("offers-rtx");
        }
        if s.simulcast >= 2 {
            rec.label("offers-simulcast");
        }
        if s.codecs.iter().any(|c| c.remap.is_some()) {
            rec.label("remapped-dynamic-pt");
        }
        if s.extmaps.iter().any(|e| e.id <= 4) {
            rec.label("extmap-id-collides-with-preferred");
        }
    }
    for k in kinds {
        rec.label(format!("has-{}", k));
    }
    for l in rec.0.into_inner() {
        out.label(l);
    }
}

/// Labels of one case, each counted once.
#[derive(Default)]
struct LabelSet(parking_lot::Mutex<BTreeSet<String>>);
impl LabelSet {
    fn label(&self, l: impl Into<String>) {
        self.0.lock().insert(l.into());
    }
}

fn nontrivial(case: &Case) -> bool {
    let o = &case.offer;
    o.sections.len() >= 2
        || o.sections.iter().any(|s| {
            s.dir != Dir::SendRecv
                || !s.extmaps.is_empty()
                || !s.codecs.is_empty()
                || !s.include_local
        })
}

// ------------------------------------------------------------------ batch driver

fn select(ctx: &Ctx, fails: Vec<Fail>) -> Check {
    if fails.is_empty() {
        return Ok(());
    }
    if let Some(f) = fails.iter().find(|f| !ctx.is_known(&f.signature)) {
        return Err(f.clone());
    }
    Err(fails[0].clone())
}

/// Run `check` over `n` generated cases on worker threads; record in draw order; shrink the
/// first unknown failure on the calling thread.
fn batch<T, S>(ctx: &Ctx, sub: &str, n: usize, strat: &S, check: &(dyn Fn(&T, &CaseRec) -> Vec<Fail> + Sync))
where
    T: Debug + Clone + Serialize + DeserializeOwned + Send + Sync + 'static,
    S: Strategy<Value = T>,
{
    let one = |c: &T, rec: &CaseRec| -> Check { select(ctx, check(c, rec)) };
    if ctx.is_replay() {
        if let Some(c) = ctx.replay_case::<T>(sub) {
            if ctx.run_one(sub, &c, &one) {
                println!("replay: property={} sub={} PASS", ctx.prop, sub);
            }
        }
        return;
    }
    for c in ctx.regression_cases::<T>(sub) {
        ctx.run_one(sub, &c, &one);
    }
    let threads = std::thread::available_parallelism().map(|x| x.get()).unwrap_or(8).clamp(2, 16);
    let chunk = 2000usize;
    let mut done = 0usize;
    let mut k = 0;
    while done < n {
        let m = chunk.min(n - done);
        let t0 = std::time::Instant::now();
        let mut trees = ctx.draw(&format!("{}#{}", sub, k), m, strat);
        let cases: Vec<T> = trees.iter().map(|t| t.current()).collect();
        if debug_on() {
            eprintln!("{} chunk {}: draw {} ms", sub, k, t0.elapsed().as_millis());
        }
        let next = AtomicUsize::new(0);
        let results: Vec<parking_lot::Mutex<Option<(CaseRec, Check)>>> =
            (0..m).map(|_| parking_lot::Mutex::new(None)).collect();
        std::thread::scope(|sc| {
            for _ in 0..threads {
                sc.spawn(|| {
                    loop {
                        let i = next.fetch_add(1, Ordering::Relaxed);
                        if i >= m {
                            break;
                        }
                        let rec = CaseRec::default();
                        let res = guarded(|| one(&cases[i], &rec));
                        *results[i].lock() = Some((rec, res));
                    }
                });
            }
        });
        if debug_on() {
            eprintln!("{} chunk {}: +run {} ms", sub, k, t0.elapsed().as_millis());
        }
        for i in 0..m {
            let (rec, res) = results[i].lock().take().unwrap();
            let v = serde_json::to_value(&cases[i]).unwrap_or(serde_json::Value::Null);
            if let Err(f) = ctx.record(sub, &v, &rec, &res) {
                let failing = |c: &T| -> Option<Fail> {
                    match guarded(|| one(c, &CaseRec::default())) {
                        Err(f) if !ctx.is_known(&f.signature) => Some(f),
                        _ => None,
                    }
                };
                let min = ctx.shrink_tree(&mut trees[i], 400, |c| failing(c).is_some());
                let f2 = failing(&min).unwrap_or(f);
                ctx.violation(sub, &serde_json::to_value(&min).unwrap(), &f2);
                return;
            }
        }
        done += m;
        k += 1;
    }
}

// ------------------------------------------------------------------ sub-check: pure round trip

#[derive(Clone, Debug, Serialize, Deserialize)]
pub struct RtCase {
    pub local: Local,
    pub offer: Offer,
    pub second: Option<Second>,
    /// (where, which): extra valid lines spliced into the text; where = 0 session, 1.. = section index+1
    pub extra: Vec<(u8, u16)>,
    pub as_answer: bool,
}

const SESSION_EXTRA: &[&str] = &[
    "a=ice-lite",
    "a=recvonly",
    "a=charset:UTF-8",
    "a=group:LS a b",
    "a=msid-semantic:WMS",
    "a=identity:eyJpZHAiOnsiZG9tYWluIjoiZXhhbXBsZS5vcmcifX0=",
    "a=extmap:7 urn:ietf:params:rtp-hdrext:toffset",
    "a=rtcp-xr:voip-metrics",
    "a=sdplang:en",
    "a=x-custom:val:with:colons=and=equals",
];
const SESSION_TIME_EXTRA: &[&str] = &["r=604800 3600 0 90000", "z=2882844526 -1h 2898848070 0", "k=prompt"];
const MEDIA_EXTRA: &[&str] = &[
    "a=ptime:20",
    "a=maxptime:120",
    "a=label:cam1",
    "a=content:main",
    "a=imageattr:96 send * recv [x=[480:16:800],y=[320:16:640]]",
    "a=rtcp-fb:* nack",
    "a=rtcp:9 IN IP4 0.0.0.0",
    "a=rtcp:53020 IN IP6 2001:db8::1",
    "a=candidate:2 1 tcp 1518280447 127.0.0.1 9 typ host tcptype active",
    "a=candidate:3 1 udp 1686052607 127.0.0.1 50999 typ srflx raddr 127.0.0.1 rport 50998",
    "a=remote-candidates:1 127.0.0.1 50000",
    "a=ice-options:trickle renomination",
    "a=fmtp:126 profile-level-id=42e01f; packetization-mode=1",
    "a=ssrc:123456 label:with spaces and : colons",
    "a=x-google-flag:conference",
    "a=bundle-only",
    "a=end-of-candidates",
    "a=setup:holdconn",
    "a=tls-id:abc3de65cddef001be82",
    "a=key-mgmt:mikey AQAFgM0XflABAAAAAAAAAAAAAAsAyO",
    "a=crypto:2 AES_CM_128_HMAC_SHA1_32 inline:WVNfX19zZW1jdGwgKCkgewkyMjA7fQp9CnVubGVz|2^20|1:4 FEC_ORDER=FEC_SRTP",
];

fn splice(text: &str, extra: &[(u8, u16)], lf: bool) -> String {
    let eol = if lf { "\n" } else { "\r\n" };
    let lines: Vec<&str> = text.split(eol).filter(|l| !l.is_empty()).collect();
    let mut out: Vec<String> = Vec::new();
    let mut sec = 0usize; // 0 = session
    let nsec = lines.iter().filter(|l| l.starts_with("m=")).count();
    let flush_media = |out: &mut Vec<String>, sec: usize| {
        for (w, which) in extra {
            if *w as usize == sec && sec > 0 {
                out.push(MEDIA_EXTRA[crate::engine::pick(*which, MEDIA_EXTRA.len())].to_string());
            }
        }
    };
    for l in lines {
        if l.starts_with("m=") {
            flush_media(&mut out, sec);
            sec += 1;
        }
        out.push(l.to_string());
        if l.starts_with("t=") && sec == 0 {
            for (w, which) in extra {
                if *w == 0 && which % 4 == 0 {
                    out.push(SESSION_TIME_EXTRA[crate::engine::pick(*which, SESSION_TIME_EXTRA.len())].to_string());
                }
            }
            for (w, which) in extra {
                if *w == 0 && which % 4 != 0 {
                    out.push(SESSION_EXTRA[crate::engine::pick(*which, SESSION_EXTRA.len())].to_string());
                }
            }
        }
    }
    flush_media(&mut out, sec);
    let _ = nsec;
    let mut s = out.join(eol);
    s.push_str(eol);
    s
}

fn check_roundtrip(c: &RtCase, rec: &CaseRec) -> Vec<Fail> {
    let mut fails = Vec::new();
    let r1 = resolve(&c.local, &c.offer);
    let r = match &c.second {
        Some(s) => apply_second(&r1, &c.local, &c.offer, s, false),
        None => r1,
    };
    let text = splice(&emit(&c.offer, &r), &c.extra, c.offer.lf_only);
    let ty = if c.as_answer { SdpType::Answer } else { SdpType::Offer };
    match SessionDescription::parse(ty, &text) {
        Ok(d) => {
            rec.label("rt:parsed");
            rec.label(format!("rt:sections={}", d.media_sections.len()));
            rec.label(format!("rt:profile={:?}", c.offer.profile));
            if !c.extra.is_empty() {
                rec.label("rt:with-extra-lines");
            }
            if c.offer.lf_only {
                rec.label("rt:lf-line-endings");
            }
            if c.second.is_some() {
                rec.label("rt:second-offer-text");
            }
            rec.nontrivial();
            // the parse itself must have kept what the generator wrote on each m= line
            if d.media_sections.len() != r.secs.len() {
                fails.push(Fail::new(
                    "parse-section-count",
                    format!("text has {} m= lines, parsed {}\n{}", r.secs.len(), d.media_sections.len(), text),
                ));
            }
            round_trip(&d, "parsed-offer", &mut fails);
            for f in fails.iter_mut() {
                f.msg = format!("{}\ninput:\n{}", f.msg, text);
            }
        }
        Err(e) => {
            rec.label(format!("rt:rejected:parse:{}", short_err(&e)));
        }
    }
    fails
}

// ------------------------------------------------------------------ sub-check: local offers

#[derive(Clone, Debug, Serialize, Deserialize)]
pub struct LoCase {
    pub local: Local,
    /// added after the first offer was applied locally; a second offer is then created
    pub later: Vec<PreOp>,
}

async fn local_offer(c: &LoCase, rec: &CaseRec) -> Vec<Fail> {
    let mut fails = Vec::new();
    let pc = PeerConnection::new(build_config(&c.local));
    let mut keep = Keep::default();
    apply_pre(&pc, &c.local, &mut keep);
    rec.label(format!("lo:mode={:?}", c.local.mode));
    match pc.create_offer().await {
        Ok(o1) => {
            rec.label(format!("lo:offered:sections={}", o1.media_sections.len()));
            rec.nontrivial();
            round_trip(&o1, "local-offer", &mut fails);
            if !c.later.is_empty() {
                // a fresh offer from the same connection after more media was added
                let l2 = Local { pre: c.later.clone(), ..c.local.clone() };
                apply_pre(&pc, &l2, &mut keep);
                if let Ok(o2) = pc.create_offer().await {
                    rec.label("lo:re-offered");
                    round_trip(&o2, "local-offer", &mut fails);
                }
            }
        }
        Err(e) => rec.label(format!("lo:create_offer-failed:{}", short_err(&e))),
    }
    pc.close();
    drop(keep);
    fails
}

// ------------------------------------------------------------------ entry point

/// Development knob only (smaller runs while working on the module); unset in normal use.
fn dev_n(var: &str, default: usize) -> usize {
    std::env::var(var).ok().and_then(|v| v.parse().ok()).unwrap_or(default)
}

pub fn run(ctx: &mut Ctx) {
    ctx.level = "exploration";
    ctx.rule = "answer: offers are built from a grammar as SDP text (1-6 m= sections of audio/video/application/image in any order; numeric / alphabetic / absent mids; per-section codec lists over opus, PCMU, PCMA, G722, G729, telephone-event 8k/48k, CN, ISAC, VP8, VP9, H264 x2, AV1, H265, ulpfec, rtx(apt=) with customary or re-mapped dynamic PTs and static PTs with/without rtpmap; extmap ids 1-14 over 11 URIs; attributes legal at both levels (setup, direction, ice-ufrag/pwd, fingerprint, ice-options, extmap, extmap-allow-mixed) placed session-only / media-only / both equal / both different with the media level winning / session + some sections restating / session + some sections overriding, judged against the effective per-section value; BUNDLE all / proper subset / absent; rtcp-mux, rtcp-rsize; setup actpass/active/passive; loopback candidates; ssrc, ssrc-group FID, msid, rid+simulcast; WebRTC / RTP-AVP / RTP-SAVP dialect) x local configuration (transport mode x sdp_compatibility x rtcp_mux_policy x 6 capability sets x pre-added transceivers / tracks / data channel / an abandoned local offer) x optional second offer on the same connection (changed directions, re-ordered / removed / added codecs without re-binding PTs, optional new trailing section). Non-trivial = the offer was accepted and answered and has >= 2 sections, or a codec list different from the local configuration, or a non-default direction, or a header extension; distinct by case digest. roundtrip: the same grammar plus spliced valid session/media lines, parsed and printed without a PeerConnection. local-offer: offers created by the stack from generated local configurations.".into();
    ctx.assumptions = vec![
        "offers rejected by SessionDescription::parse, set_remote_description or create_answer are outside the statement (counted under rejected:*)".into(),
        "an answer may add a=mid where the offer carried none (JSEP lets the answerer generate one)".into(),
        "round trip compares descriptions modulo the printer's stable partition of media attributes (ice-ufrag, ice-pwd, fingerprint, setup, candidate before a=mid; order inside each class preserved)".into(),
        "a=fmtp parameters other than apt=, rtcp-fb, ports, transport protocol and ICE/crypto attributes of the answer are not part of the statement and are not judged".into(),
        "a second offer keeps the DTLS setup value of the first one or falls back to actpass (in every section)".into(),
        "sections of one offer differ in their effective a=setup only when nothing is bundled (RFC 8859: IDENTICAL inside a BUNDLE group) and only as actpass beside one determinate role, never active beside passive; holdconn is not offered (RFC 5763 does not use it)".into(),
        "the offered value of a section is the media-level attribute if the section has one, else the session-level one (RFC 8866 5.13, RFC 4145 4, RFC 3264 5.1, RFC 8285 6)".into(),
        "all sockets are bound to 127.0.0.1 (bind_ip) and offered addresses are loopback".into(),
    ];

    let rt = tokio::runtime::Builder::new_multi_thread()
        .worker_threads(8)
        .enable_all()
        .build()
        .expect("tokio runtime");

    // ---- answer validity
    let steer = STEER_SIGS.iter().any(|s| ctx.is_known(s));
    let steered_count = AtomicUsize::new(0);
    let case_strategy = (local_strategy(), offer_strategy(), prop::option::weighted(0.4, second_strategy()), 0..4u8)
        .prop_map(move |(local, (mut offer, cross), mut second, roll)| {
            normalise(&local, &mut offer, &mut second, Some(cross));
            // Known finding steering: three cases out of four list the answerer's configured
            // codecs in every RTP section so the remaining clauses can be searched.
            let steered = steer && roll != 0;
            if steered {
                for s in offer.sections.iter_mut() {
                    if s.kind.is_rtp() {
                        s.include_local = true;
                    }
                }
                if let Some(sec) = second.as_mut() {
                    if let Some(a) = sec.append.as_mut() {
                        if a.kind.is_rtp() {
                            a.include_local = true;
                        }
                    }
                }
            }
            Case { local, offer, second, steered }
        });
    let n_answer = dev_n("VERIF_C08_ANSWER_N", ctx.scale(40_000usize, 600_000usize));
    {
        let ctx_ref: &Ctx = ctx;
        let check = |c: &Case, rec: &CaseRec| -> Vec<Fail> {
            classify(c, rec);
            if c.steered {
                steered_count.fetch_add(1, Ordering::Relaxed);
            }
            let fut = async {
                match tokio::time::timeout(Duration::from_secs(60), negotiate(c, rec)).await {
                    Ok(f) => f,
                    Err(_) => {
                        rec.inconclusive_timing();
                        rec.label("negotiation-did-not-finish-in-60s");
                        Vec::new()
                    }
                }
            };
            let t0 = std::time::Instant::now();
            let fails = rt.block_on(fut);
            if debug_on() {
                let ms = t0.elapsed().as_millis();
                if ms > 15 {
                    eprintln!("slow case {} ms mode={:?} profile={:?} second={} sections={}", ms, c.local.mode, c.offer.profile, c.second.is_some(), c.offer.sections.len());
                }
            }
            rec.set_nontrivial(nontrivial(c));
            if std::env::var("VERIF_C08_SURVEY").is_ok() {
                // development aid: histogram of every clause failure instead of stopping at the first
                let mut seen = BTreeSet::new();
                for f in &fails {
                    if seen.insert(f.signature.clone()) {
                        rec.label(format!("survey:{}", f.signature));
                        if let Ok(want) = std::env::var("VERIF_C08_SHOW") {
                            static SHOWN: AtomicUsize = AtomicUsize::new(0);
                            if f.signature == want {
                                let k = SHOWN.fetch_add(1, Ordering::Relaxed);
                                if k < 3 {
                                    let _ = std::fs::write(
                                        format!("/tmp/c08show-{}.txt", k),
                                        format!("=== {}\n{}\ncase: {}\n", f.signature, f.msg, serde_json::to_string(c).unwrap()),
                                    );
                                }
                            }
                        }
                    }
                }
                return Vec::new();
            }
            fails
        };
        batch(ctx_ref, "answer", n_answer, &case_strategy, &check);
    }
    let sc = steered_count.load(Ordering::Relaxed) as u64;
    if sc > 0 {
        for s in STEER_SIGS {
            ctx.note_excluded(s, sc);
        }
    }

    // ---- pure parse / print round trip
    let rt_strategy = (
        local_strategy(),
        offer_strategy(),
        prop::option::weighted(0.3, second_strategy()),
        prop::collection::vec((0..7u8, any::<u16>()), 0..6),
        any::<bool>(),
    )
        .prop_map(|(local, (mut offer, cross), mut second, extra, as_answer)| {
            normalise(&local, &mut offer, &mut second, Some(cross));
            RtCase { local, offer, second, extra, as_answer }
        });
    let n_rt = dev_n("VERIF_C08_RT_N", ctx.scale(60_000usize, 1_500_000usize));
    {
        let ctx_ref: &Ctx = ctx;
        batch(ctx_ref, "roundtrip", n_rt, &rt_strategy, &|c: &RtCase, rec: &CaseRec| check_roundtrip(c, rec));
    }

    // ---- locally created offers
    let preop = prop_oneof![
        (
            prop_oneof![Just(Kind::Audio), Just(Kind::Video), Just(Kind::Application), Just(Kind::Image)],
            prop_oneof![Just(Dir::SendRecv), Just(Dir::SendOnly), Just(Dir::RecvOnly), Just(Dir::Inactive)]
        )
            .prop_map(|(k, d)| PreOp::Transceiver(k, d)),
        prop_oneof![Just(Kind::Audio), Just(Kind::Video)].prop_map(PreOp::Track),
        Just(PreOp::DataChannel),
    ];
    let lo_strategy = (
        local_strategy(),
        prop::collection::vec(preop.clone(), 1..5),
        prop::collection::vec(preop, 0..3),
    )
        .prop_map(|(mut local, pre, later)| {
            local.pre = pre;
            local.pre_offer = false;
            LoCase { local, later }
        });
    let n_lo = dev_n("VERIF_C08_LO_N", ctx.scale(6_000usize, 100_000usize));
    {
        let ctx_ref: &Ctx = ctx;
        let check = |c: &LoCase, rec: &CaseRec| -> Vec<Fail> {
            rt.block_on(async {
                match tokio::time::timeout(Duration::from_secs(60), local_offer(c, rec)).await {
                    Ok(f) => f,
                    Err(_) => {
                        rec.inconclusive_timing();
                        Vec::new()
                    }
                }
            })
        };
        batch(ctx_ref, "local-offer", n_lo, &lo_strategy, &check);
    }

    ctx.set_exhaustive(false);
    ctx.set_extra("steered_cases", json!(sc));
    let fds = std::fs::read_dir("/proc/self/fd").map(|d| d.count()).unwrap_or(0);
    ctx.set_extra("open_fds_at_end", json!(fds));
    rt.shutdown_timeout(Duration::from_secs(2));
}
