//! Case types and proptest strategies for C03.

use crate::engine::hexbytes;
use proptest::prelude::*;
use serde::{Deserialize, Serialize};

#[derive(Clone, Debug, PartialEq, Serialize, Deserialize)]
pub enum Payload {
    /// plaintext SCTP-looking packet (common header + DATA chunk, valid CRC32c)
    Sctp { len: u16 },
    Alert { level: u8, desc: u8 },
    Random(#[serde(with = "hexbytes")] Vec<u8>),
    /// forged handshake message; `wellformed`: body shaped so the type's decoder accepts it
    Hs { msg_type: u8, msg_seq: u16, wellformed: bool, len: u8 },
    Ccs,
    Empty,
}

#[derive(Clone, Debug, PartialEq, Serialize, Deserialize)]
pub enum Prot {
    /// body = payload as is
    Plain,
    /// AES-GCM under a key nobody negotiated
    RandomKey { #[serde(with = "hexbytes")] key: Vec<u8>, #[serde(with = "hexbytes")] iv: Vec<u8> },
    /// sealed with the receiver's own write key (wrong direction)
    OwnKey,
    /// negotiated peer key, but AAD built from another epoch/sequence than the header carries
    PeerKeyAadMismatch { aad_epoch: u16, seq_delta: u16 },
    /// negotiated peer key, AAD == header, explicit nonce differs from header (authentic)
    PeerKeyNonceDiffers { nonce: u64 },
    /// negotiated peer key, everything consistent (authentic)
    PeerKey,
}

#[derive(Clone, Debug, PartialEq, Serialize, Deserialize)]
pub enum Inj {
    Crafted { ct: u8, epoch: u16, seq: u64, payload: Payload, prot: Prot, src: u8, lead: bool },
    Flip { rec: u16, pos: u16, bit: u8, src: u8 },
    Trunc { rec: u16, pos: u16, src: u8 },
    Extend { rec: u16, #[serde(with = "hexbytes")] extra: Vec<u8>, src: u8 },
    /// genuine plaintext + header, re-encrypted under a random key
    Rekey { rec: u16, #[serde(with = "hexbytes")] key: Vec<u8>, src: u8 },
    /// genuine ciphertext kept, header epoch / sequence rewritten
    Header { rec: u16, epoch: Option<u16>, seq_xor: u32, src: u8 },
    /// a record the target itself emitted, sent back to it
    Reflect { rec: u16, src: u8 },
    Replay { rec: u16, src: u8 },
    /// every single-bit flip of genuine record `rec` (must be <= 128 bytes, else skipped)
    AllFlips { rec: u16 },
    /// every proper prefix of genuine record `rec`
    AllTruncs { rec: u16 },
    /// the full crafted grid (see `rx::grid`)
    Grid,
}

#[derive(Clone, Debug, Serialize, Deserialize)]
pub struct RxCase {
    pub a_is_client: bool,
    /// which endpoint receives the injections
    pub to_a: bool,
    /// sizes of the genuine payloads each side sends before the injections start
    pub genuine: Vec<u16>,
    pub injs: Vec<Inj>,
    /// finally let the peer close(), hold its close_notify, flip/truncate it exhaustively
    pub alert_flips: bool,
}

#[derive(Clone, Copy, Debug, PartialEq, Serialize, Deserialize)]
pub enum Hold {
    /// server's CCS+Finished held: client has keys and sent Finished, still Handshaking
    ServerFinal,
    /// client's CCS+Finished held (ClientKeyExchange delivered): server has keys, still Handshaking
    ClientFinal,
}

#[derive(Clone, Debug, Serialize, Deserialize)]
pub struct MidCase {
    pub a_is_client: bool,
    pub hold: Hold,
    pub injs: Vec<Inj>,
}

#[derive(Clone, Debug, Serialize, Deserialize)]
pub struct TxTask {
    pub from_a: bool,
    pub sizes: Vec<u16>,
}

#[derive(Clone, Debug, Serialize, Deserialize)]
pub struct TxCase {
    pub a_is_client: bool,
    pub tasks: Vec<TxTask>,
    pub close_a: bool,
    pub close_b: bool,
    /// close() is issued by its own task released together with the sender tasks (races with them)
    /// instead of after they have finished
    #[serde(default)]
    pub race_close: bool,
    /// payload sizes the closing side sends, one call after the other, after its close()
    #[serde(default)]
    pub post_a: Vec<u16>,
    #[serde(default)]
    pub post_b: Vec<u16>,
    /// post-close sends start only once the close_notify is on the wire (else they race with it)
    #[serde(default)]
    pub post_wait_alert: bool,
}

/// close() while the handshake is frozen with keys negotiated (the alert is numbered by the
/// handshake context, not by the application-data counter).
#[derive(Clone, Debug, Serialize, Deserialize)]
pub struct CloseMidCase {
    pub a_is_client: bool,
    pub hold: Hold,
    pub salt: u8,
}

// ------------------------------------------------------------------ strategies

fn src() -> impl Strategy<Value = u8> {
    prop_oneof![2 => Just(0u8), 1 => Just(1u8), 1 => Just(2u8)]
}

fn content_type() -> impl Strategy<Value = u8> {
    prop_oneof![
        2 => Just(20u8),
        4 => Just(21u8),
        4 => Just(22u8),
        6 => Just(23u8),
        1 => Just(24u8),
        2 => prop::sample::select(vec![0u8, 19, 25, 26, 31, 63, 64, 255]),
    ]
}

fn epoch() -> impl Strategy<Value = u16> {
    prop_oneof![4 => Just(0u16), 4 => Just(1u16), 1 => Just(2u16), 1 => Just(0xFFFFu16)]
}

fn seq48() -> impl Strategy<Value = u64> {
    prop_oneof![
        Just(0u64),
        Just(1u64),
        Just(2u64),
        Just(0xFFFF_FFFF_FFFFu64),
        (0u64..64),
        any::<u64>().prop_map(|v| v & 0xFFFF_FFFF_FFFF),
    ]
}

pub fn payload() -> impl Strategy<Value = Payload> {
    prop_oneof![
        4 => prop_oneof![Just(0u16), Just(1), Just(16), Just(1100), 0u16..200].prop_map(|len| Payload::Sctp { len }),
        4 => Just(Payload::Alert { level: 1, desc: 0 }),
        1 => Just(Payload::Alert { level: 2, desc: 0 }),
        3 => (1u8..=2, any::<u8>()).prop_map(|(level, desc)| Payload::Alert { level, desc }),
        3 => prop::collection::vec(any::<u8>(), 0..80).prop_map(Payload::Random),
        5 => (
            prop::sample::select(vec![0u8, 1, 2, 3, 11, 12, 14, 16, 20, 99]),
            prop_oneof![0u16..8, Just(0xFFFFu16)],
            any::<bool>(),
            prop_oneof![Just(0u8), Just(12), any::<u8>()],
        )
            .prop_map(|(msg_type, msg_seq, wellformed, len)| Payload::Hs { msg_type, msg_seq, wellformed, len }),
        1 => Just(Payload::Ccs),
        1 => Just(Payload::Empty),
    ]
}

fn prot() -> impl Strategy<Value = Prot> {
    prop_oneof![
        6 => Just(Prot::Plain),
        2 => (prop::collection::vec(any::<u8>(), 16), prop::collection::vec(any::<u8>(), 4))
            .prop_map(|(key, iv)| Prot::RandomKey { key, iv }),
        2 => Just(Prot::OwnKey),
        3 => (epoch(), 0u16..4).prop_map(|(aad_epoch, seq_delta)| Prot::PeerKeyAadMismatch { aad_epoch, seq_delta }),
        1 => any::<u64>().prop_map(|nonce| Prot::PeerKeyNonceDiffers { nonce }),
        1 => Just(Prot::PeerKey),
    ]
}

pub fn crafted() -> impl Strategy<Value = Inj> {
    (content_type(), epoch(), seq48(), payload(), prot(), src(), prop::bool::weighted(0.15))
        .prop_map(|(ct, epoch, seq, payload, prot, src, lead)| Inj::Crafted { ct, epoch, seq, payload, prot, src, lead })
}

fn mutated() -> impl Strategy<Value = Inj> {
    prop_oneof![
        6 => (any::<u16>(), any::<u16>(), 0u8..8, src()).prop_map(|(rec, pos, bit, src)| Inj::Flip { rec, pos, bit, src }),
        // the header is where the interesting bits live: bias towards the first 21 bytes
        4 => (any::<u16>(), 0u16..2400, 0u8..8, src()).prop_map(|(rec, pos, bit, src)| Inj::Flip { rec, pos, bit, src }),
        3 => (any::<u16>(), any::<u16>(), src()).prop_map(|(rec, pos, src)| Inj::Trunc { rec, pos, src }),
        1 => (any::<u16>(), prop::collection::vec(any::<u8>(), 1..40), src()).prop_map(|(rec, extra, src)| Inj::Extend { rec, extra, src }),
        2 => (any::<u16>(), prop::collection::vec(any::<u8>(), 16), src()).prop_map(|(rec, key, src)| Inj::Rekey { rec, key, src }),
        3 => (any::<u16>(), prop::option::of(epoch()), prop_oneof![Just(0u32), Just(1u32), any::<u32>()], src())
            .prop_map(|(rec, epoch, seq_xor, src)| Inj::Header { rec, epoch, seq_xor, src }),
        2 => (any::<u16>(), src()).prop_map(|(rec, src)| Inj::Reflect { rec, src }),
        1 => (any::<u16>(), src()).prop_map(|(rec, src)| Inj::Replay { rec, src }),
    ]
}

fn genuine_sizes() -> impl Strategy<Value = Vec<u16>> {
    prop::collection::vec(
        prop_oneof![Just(1u16), Just(8), Just(28), Just(91), Just(1200), Just(1201), 1u16..300],
        1..4,
    )
}

pub fn rx_strategy() -> impl Strategy<Value = RxCase> {
    (
        any::<bool>(),
        any::<bool>(),
        genuine_sizes(),
        prop::collection::vec(prop_oneof![3 => crafted(), 2 => mutated()], 40..160),
        prop::bool::weighted(0.25),
    )
        .prop_map(|(a_is_client, to_a, genuine, injs, alert_flips)| RxCase { a_is_client, to_a, genuine, injs, alert_flips })
}

/// Exhaustive flips/truncations of small genuine records + `samples` sampled flips of a full-size one.
pub fn flip_strategy(samples: usize) -> impl Strategy<Value = RxCase> {
    (
        any::<bool>(),
        any::<bool>(),
        // payload sizes giving records of 38..=128 bytes
        prop::collection::vec(prop_oneof![Just(1u16), Just(2), Just(28), Just(91), 1u16..=91], 1..3),
        prop::bool::weighted(0.5),
        prop::collection::vec((0u16..1237, 0u8..8), samples),
    )
        .prop_map(move |(a_is_client, to_a, mut genuine, alert_flips, sampled)| {
            let mut injs = Vec::new();
            // genuine record 0 is the peer's Finished; 1.. are its ApplicationData records
            for rec in 0..=genuine.len() as u16 {
                injs.push(Inj::AllFlips { rec });
                injs.push(Inj::AllTruncs { rec });
            }
            // one full-size record, flipped at sampled positions
            genuine.push(1200);
            let big = genuine.len() as u16;
            for (byte, bit) in sampled {
                // pos is relative (pos/65536 of the record length): map the byte index back
                let pos = ((byte as u32 * 65536 + 65535) / 1237).min(65535) as u16;
                injs.push(Inj::Flip { rec: big, pos, bit, src: 0 });
            }
            RxCase { a_is_client, to_a, genuine, injs, alert_flips }
        })
}

pub fn mid_strategy() -> impl Strategy<Value = MidCase> {
    (
        any::<bool>(),
        prop_oneof![Just(Hold::ServerFinal), Just(Hold::ClientFinal)],
        prop::collection::vec(crafted(), 10..40),
    )
        .prop_map(|(a_is_client, hold, injs)| MidCase { a_is_client, hold, injs })
}

fn tx_size() -> impl Strategy<Value = u16> {
    prop_oneof![
        Just(0u16),
        Just(1),
        Just(1199),
        Just(1200),
        Just(1201),
        Just(2400),
        Just(2401),
        Just(6000),
        0u16..=6000,
    ]
}

pub fn tx_strategy() -> impl Strategy<Value = TxCase> {
    (
        any::<bool>(),
        prop::collection::vec(
            (any::<bool>(), prop::collection::vec(tx_size(), 1..=4)).prop_map(|(from_a, sizes)| TxTask { from_a, sizes }),
            1..=16,
        ),
        prop::bool::weighted(0.45),
        prop::bool::weighted(0.35),
        prop::bool::weighted(0.4),
        prop::collection::vec(tx_size(), 0..=3),
        prop::collection::vec(tx_size(), 0..=3),
        any::<bool>(),
    )
        .prop_map(|(a_is_client, tasks, close_a, close_b, race_close, post_a, post_b, post_wait_alert)| TxCase {
            a_is_client,
            tasks,
            close_a,
            close_b,
            race_close: race_close && (close_a || close_b),
            // only a side that closed has an "after close"
            post_a: if close_a { post_a } else { Vec::new() },
            post_b: if close_b { post_b } else { Vec::new() },
            post_wait_alert,
        })
}

pub fn close_mid_strategy() -> impl Strategy<Value = CloseMidCase> {
    (any::<bool>(), prop_oneof![Just(Hold::ServerFinal), Just(Hold::ClientFinal)], any::<u8>())
        .prop_map(|(a_is_client, hold, salt)| CloseMidCase { a_is_client, hold, salt })
}
