//! Send-side check: concurrent send() callers (+ close()).

use super::common::*;
use super::types::*;
use super::{SIG_CLOSE_NONCE, Shared};
use crate::engine::{CaseRec, Check, Fail};
use crate::net::fault::Side;
use crate::net::wire;
use bytes::Bytes;
use std::collections::HashMap;
use std::sync::Arc;
use std::sync::atomic::Ordering;
use std::time::Duration;

const MAX_RECORD: usize = 13 + 8 + 1200 + 16;

pub async fn run_tx(c: TxCase, sh: Shared) -> (CaseRec, Check) {
    let rec = CaseRec::default();
    let res = tx_inner(&c, &sh, &rec).await;
    (rec, res)
}

struct Call {
    from: Side,
    payload: Vec<u8>,
    consumed: usize,
}

async fn tx_inner(c: &TxCase, sh: &Shared, rec: &CaseRec) -> Check {
    let mut sess = Sess::build(c.a_is_client, &[], 40, 900, None).await?;
    let keys = sess.connected_keys(Duration::from_secs(10)).await?;
    let mut rx_a = sess.pair.a.app_rx.take().unwrap();
    let mut rx_b = sess.pair.b.app_rx.take().unwrap();
    // everything captured from here on was emitted after both sides reported Connected
    let t0 = sess.tap.lock().all.len();
    let before: Vec<(Side, Bytes)> = sess.tap.lock().all.clone();

    // the calls, numbered globally
    let mut calls: Vec<Call> = Vec::new();
    let mut plan: Vec<Vec<usize>> = Vec::new();
    for t in &c.tasks {
        let mut ids = Vec::new();
        for s in &t.sizes {
            let id = calls.len();
            calls.push(Call {
                from: if t.from_a { Side::A } else { Side::B },
                payload: pattern(id as u16 + 1, *s as usize),
                consumed: 0,
            });
            ids.push(id);
        }
        plan.push(ids);
    }
    let start = Arc::new(tokio::sync::Barrier::new(c.tasks.len()));
    let mut handles = Vec::new();
    for (ti, t) in c.tasks.iter().enumerate() {
        let dtls = if t.from_a { sess.pair.a.dtls.clone() } else { sess.pair.b.dtls.clone() };
        let payloads: Vec<Bytes> = plan[ti].iter().map(|id| Bytes::from(calls[*id].payload.clone())).collect();
        let start = start.clone();
        handles.push(tokio::spawn(async move {
            start.wait().await;
            let mut errs = Vec::new();
            for p in payloads {
                if let Err(e) = dtls.send(p).await {
                    errs.push(format!("{e}"));
                }
            }
            errs
        }));
    }
    for h in handles {
        let errs = h.await.map_err(|e| Fail::new("harness-task-panic", format!("sender task: {e}")))?;
        if !errs.is_empty() {
            return Err(Fail::new("send-failed-while-connected", format!("send() returned an error on a Connected transport: {}", errs[0])));
        }
    }
    let mut expect: HashMap<Side, usize> = HashMap::new();
    for cl in &calls {
        *expect.entry(cl.from).or_default() += cl.payload.len();
    }
    // deliveries are awaited before any close(): a closed endpoint stops reading
    let mut got_from_a: Vec<Vec<u8>> = Vec::new();
    let mut got_from_b: Vec<Vec<u8>> = Vec::new();
    for (side, rx, got) in [(Side::A, &mut rx_b, &mut got_from_a), (Side::B, &mut rx_a, &mut got_from_b)] {
        let n = *expect.get(&side).unwrap_or(&0);
        let deadline = tokio::time::Instant::now() + Duration::from_secs(8);
        let mut bytes = 0usize;
        while bytes < n {
            match tokio::time::timeout_at(deadline, rx.recv()).await {
                Ok(Some(b)) => {
                    bytes += b.len();
                    got.push(b.to_vec());
                }
                _ => break,
            }
        }
        if bytes < n {
            return Err(Fail::timing("delivery-incomplete", format!("peer received {}/{} payload bytes", bytes, n)));
        }
    }
    let data_from = |s: Side| calls.iter().any(|cl| cl.from == s && !cl.payload.is_empty());
    let close_after_data = (c.close_a && data_from(Side::A)) || (c.close_b && data_from(Side::B));
    let mut closes: std::collections::HashSet<Side> = std::collections::HashSet::new();
    if c.close_a {
        sess.pair.a.dtls.close();
        closes.insert(Side::A);
    }
    if c.close_b {
        sess.pair.b.dtls.close();
        closes.insert(Side::B);
    }
    if c.tasks.len() >= 2 || close_after_data {
        rec.nontrivial();
    }
    rec.label(format!("tx:tasks={}", match c.tasks.len() { 1 => "1", 2..=4 => "2-4", 5..=8 => "5-8", _ => "9-16" }));
    if close_after_data {
        rec.label("tx:close-after-data");
    }
    if c.tasks.iter().any(|t| t.from_a) && c.tasks.iter().any(|t| !t.from_a) {
        rec.label("tx:both-directions");
    }

    // wait until the wire shows everything
    let w0 = tokio::time::Instant::now();
    // per side: (ciphertext bytes beyond the 37-byte record overhead in type-23 datagrams, type-21 datagrams)
    let counts = |sess: &Sess, s: Side| -> (usize, usize) {
        let g = sess.tap.lock();
        let mut bytes = 0usize;
        let mut alerts = 0usize;
        for (x, d) in g.all[t0..].iter() {
            if *x != s || d.is_empty() {
                continue;
            }
            match d[0] {
                23 => bytes += d.len().saturating_sub(37),
                21 => alerts += 1,
                _ => {}
            }
        }
        (bytes, alerts)
    };
    loop {
        let mut done = true;
        let mut seen = Vec::new();
        for s in [Side::A, Side::B] {
            let (bytes, alerts) = counts(&sess, s);
            seen.push((s, bytes, alerts));
            if bytes < *expect.get(&s).unwrap_or(&0) || (closes.contains(&s) && alerts < 1) {
                done = false;
            }
        }
        if done {
            break;
        }
        if w0.elapsed() > Duration::from_secs(8) {
            return Err(Fail::timing(
                "capture-incomplete",
                format!("expected payload bytes {:?} and close alerts from {:?} on the wire after Connected, captured (side, bytes, alerts) {:?}", expect, closes, seen),
            ));
        }
        tokio::time::sleep(Duration::from_millis(1)).await;
    }
    tokio::time::sleep(Duration::from_millis(25)).await;
    let after: Vec<(Side, Bytes)> = sess.tap.lock().all[t0..].to_vec();

    // ---- every datagram after Connected
    let mut per_side_records: HashMap<Side, Vec<(wire::DtlsRec, Vec<u8>, Vec<u8>)>> = HashMap::new(); // (rec, plain, raw)
    for (side, d) in &after {
        let (k, iv) = write_key(&keys, sess.is_client(*side));
        let who = if sess.is_client(*side) { "client" } else { "server" };
        if d.len() > MAX_RECORD {
            return Err(Fail::new("datagram-exceeds-record-limit", format!("{who} emitted a {}-byte datagram (limit {MAX_RECORD})", d.len())));
        }
        let recs = wire::dtls_records(d);
        let used: usize = recs.iter().map(|r| 13 + r.body.len()).sum();
        if recs.is_empty() || used != d.len() {
            return Err(Fail::new("unparseable-datagram-after-connected", format!("{who} emitted a datagram that is not a sequence of DTLS records: {}", short_hex(d))));
        }
        for r in recs {
            let raw = d[r.offset..r.offset + 13 + r.body.len()].to_vec();
            // a byte-identical copy of something sent during the handshake is a flight retransmission
            if before.iter().any(|(s, b)| s == side && b[..] == d[..]) {
                rec.label("tx:handshake-retransmission-after-connected");
                continue;
            }
            let closing = if *side == Side::A { c.close_a } else { c.close_b };
            let type_ok = r.content_type == 23 || (r.content_type == 21 && closing);
            if !type_ok || r.epoch == 0 {
                return Err(Fail::new(
                    "cleartext-or-unexpected-record-after-connected",
                    format!("{who} emitted a type-{} epoch-{} record after Connected: {}", r.content_type, r.epoch, short_hex(&raw)),
                ));
            }
            let Some(plain) = wire::dtls_open(&k, &iv, &r) else {
                return Err(Fail::new(
                    "sent-record-does-not-open-under-negotiated-keys",
                    format!("{who} emitted a type-{} record (epoch {}, seq {}) that does not authenticate under its write key: {}", r.content_type, r.epoch, r.seq, short_hex(&raw)),
                ));
            };
            if plain.len() > 1200 || raw.len() > MAX_RECORD {
                return Err(Fail::new("record-exceeds-limit", format!("{who} emitted a record with {} plaintext bytes ({} on the wire)", plain.len(), raw.len())));
            }
            sh.records_sent_checked.fetch_add(1, Ordering::Relaxed);
            per_side_records.entry(*side).or_default().push((r, plain, raw));
        }
    }

    // ---- reassembly: per send() call the plaintexts concatenate (in sequence order) to the payload
    for side in [Side::A, Side::B] {
        let who = if sess.is_client(side) { "client" } else { "server" };
        let mut recs: Vec<&(wire::DtlsRec, Vec<u8>, Vec<u8>)> = per_side_records.get(&side).map(|v| v.iter().collect()).unwrap_or_default();
        recs.sort_by_key(|(r, _, _)| (r.epoch, r.seq));
        for (r, plain, _) in recs {
            if r.content_type != 23 {
                continue;
            }
            // prefer the call this plaintext completes, then any call it continues
            let fits = |cl: &Call| cl.from == side && !plain.is_empty() && cl.consumed < cl.payload.len() && cl.payload[cl.consumed..].starts_with(plain);
            let idx = calls
                .iter()
                .position(|cl| fits(cl) && cl.payload.len() - cl.consumed == plain.len())
                .or_else(|| calls.iter().position(|cl| fits(cl)));
            let hit = idx.map(|i| &mut calls[i]);
            match hit {
                Some(cl) => cl.consumed += plain.len(),
                None => {
                    return Err(Fail::new(
                        "sent-record-matches-no-payload",
                        format!("{who} emitted record (epoch {}, seq {}) whose {}-byte plaintext [{}] continues no send() payload", r.epoch, r.seq, plain.len(), short_hex(plain)),
                    ));
                }
            }
        }
    }
    for (id, cl) in calls.iter().enumerate() {
        if cl.consumed != cl.payload.len() {
            return Err(Fail::new(
                "payload-not-fully-transmitted",
                format!("send() call {id} ({} bytes) returned Ok but only {} bytes appeared on the wire", cl.payload.len(), cl.consumed),
            ));
        }
    }

    // ---- (epoch, sequence) and explicit-nonce uniqueness per key over everything the side ever emitted
    let all: Vec<(Side, Bytes)> = sess.tap.lock().all.clone();
    for side in [Side::A, Side::B] {
        let who = if sess.is_client(side) { "client" } else { "server" };
        let mut seen: HashMap<(u16, u64), (u8, Vec<u8>)> = HashMap::new();
        let mut nonces: HashMap<Vec<u8>, (u8, Vec<u8>)> = HashMap::new();
        let mut tolerated = 0u64;
        for (s, d) in &all {
            if *s != side {
                continue;
            }
            for r in wire::dtls_records(d) {
                if r.epoch == 0 {
                    continue;
                }
                let raw = d[r.offset..r.offset + 13 + r.body.len()].to_vec();
                let mut clash: Option<(u8, Vec<u8>, &'static str)> = None;
                match seen.get(&(r.epoch, r.seq)) {
                    Some((t, old)) if old != &raw => clash = Some((*t, old.clone(), "(epoch, sequence number)")),
                    Some(_) => {}
                    None => {
                        seen.insert((r.epoch, r.seq), (r.content_type, raw.clone()));
                    }
                }
                if r.body.len() >= 8 {
                    let n = r.body[..8].to_vec();
                    match nonces.get(&n) {
                        Some((t, old)) if old != &raw => {
                            if clash.is_none() {
                                clash = Some((*t, old.clone(), "explicit nonce"));
                            }
                        }
                        Some(_) => {}
                        None => {
                            nonces.insert(n, (r.content_type, raw.clone()));
                        }
                    }
                }
                if let Some((t_old, old, what)) = clash {
                    let mut types = [t_old, r.content_type];
                    types.sort();
                    let sig = if types == [21, 23] { SIG_CLOSE_NONCE } else { "nonce-reuse" };
                    if sh.is_known(sig) && sig == SIG_CLOSE_NONCE && tolerated == 0 {
                        // tolerate exactly one alert/appdata clash per side, keep checking the rest
                        tolerated += 1;
                        sh.hit(sig, 1);
                        rec.label("tx:tolerated-known-close-nonce-reuse");
                        continue;
                    }
                    return Err(Fail::new(
                        sig,
                        format!(
                            "{who} sealed two different records under one key with the same {what}: epoch {} seq {} — type {} [{}] and type {} [{}]",
                            r.epoch, r.seq, t_old, short_hex(&old), r.content_type, short_hex(&raw)
                        ),
                    ));
                }
            }
        }
    }

    // ---- the peer's upper layer saw exactly the record plaintexts (secondary, loss-free path)
    for (side, got) in [(Side::A, &mut got_from_a), (Side::B, &mut got_from_b)] {
        let mut want: Vec<Vec<u8>> = per_side_records
            .get(&side)
            .map(|v| v.iter().filter(|(r, _, _)| r.content_type == 23).map(|(_, p, _)| p.clone()).collect())
            .unwrap_or_default();
        want.sort();
        got.sort();
        if want != *got {
            return Err(Fail::new("delivered-differs-from-sent-records", "the peer's upper layer received payloads different from the sealed record plaintexts"));
        }
    }
    let _ = &mut sess;
    Ok(())
}
