//! Send-side check: concurrent send() callers (+ close()).

use super::common::*;
use super::types::*;
use super::{SIG_CLOSE_NONCE, Shared};
use crate::engine::{CaseRec, Check, Fail};
use crate::net::fault::Side;
use crate::net::wire;
use bytes::Bytes;
use std::collections::HashMap;
use std::sync::Arc;
use std::sync::atomic::Ordering;
use std::time::Duration;

const MAX_RECORD: usize = 13 + 8 + 1200 + 16;

pub async fn run_tx(c: TxCase, sh: Shared) -> (CaseRec, Check) {
    let rec = CaseRec::default();
    let res = tx_inner(&c, &sh, &rec).await;
    (rec, res)
}

struct Call {
    from: Side,
    payload: Vec<u8>,
    consumed: usize,
    /// send() returned Ok
    ok: bool,
    after_close: bool,
}

fn alerts_on_wire(sess: &Sess, t0: usize, s: Side) -> usize {
    sess.tap.lock().all[t0..].iter().filter(|(x, d)| *x == s && !d.is_empty() && d[0] == 21).count()
}

async fn tx_inner(c: &TxCase, sh: &Shared, rec: &CaseRec) -> Check {
    let mut sess = Sess::build(c.a_is_client, &[], 40, 900, None).await?;
    let keys = sess.connected_keys(Duration::from_secs(10)).await?;
    let mut rx_a = sess.pair.a.app_rx.take().unwrap();
    let mut rx_b = sess.pair.b.app_rx.take().unwrap();
    // everything captured from here on was emitted after both sides reported Connected
    let t0 = sess.tap.lock().all.len();
    let before: Vec<(Side, Bytes)> = sess.tap.lock().all.clone();
    let closer = |s: Side| if s == Side::A { c.close_a } else { c.close_b };
    let dtls_of = |s: Side| if s == Side::A { sess.pair.a.dtls.clone() } else { sess.pair.b.dtls.clone() };

    // the calls, numbered globally: first the concurrent tasks, then the post-close calls
    let mut calls: Vec<Call> = Vec::new();
    let mut plan: Vec<Vec<usize>> = Vec::new();
    for t in &c.tasks {
        let mut ids = Vec::new();
        for s in &t.sizes {
            let id = calls.len();
            calls.push(Call {
                from: if t.from_a { Side::A } else { Side::B },
                payload: pattern(id as u16 + 1, *s as usize),
                consumed: 0,
                ok: false,
                after_close: false,
            });
            ids.push(id);
        }
        plan.push(ids);
    }
    let mut post_plan: Vec<(Side, Vec<usize>)> = Vec::new();
    for (side, sizes) in [(Side::A, &c.post_a), (Side::B, &c.post_b)] {
        if !closer(side) || sizes.is_empty() {
            continue;
        }
        let mut ids = Vec::new();
        for s in sizes {
            let id = calls.len();
            calls.push(Call { from: side, payload: pattern(id as u16 + 1, *s as usize), consumed: 0, ok: false, after_close: true });
            ids.push(id);
        }
        post_plan.push((side, ids));
    }

    // ---- phase 1: concurrent senders (+ close() racing with them)
    let racers: Vec<Side> = if c.race_close { [Side::A, Side::B].into_iter().filter(|s| closer(*s)).collect() } else { Vec::new() };
    let start = Arc::new(tokio::sync::Barrier::new(c.tasks.len() + racers.len()));
    let mut handles = Vec::new();
    for (ti, t) in c.tasks.iter().enumerate() {
        let dtls = dtls_of(if t.from_a { Side::A } else { Side::B });
        let payloads: Vec<(usize, Bytes)> = plan[ti].iter().map(|id| (*id, Bytes::from(calls[*id].payload.clone()))).collect();
        let start = start.clone();
        handles.push(tokio::spawn(async move {
            start.wait().await;
            let mut out = Vec::new();
            for (id, p) in payloads {
                out.push((id, dtls.send(p).await.map_err(|e| format!("{e}"))));
            }
            out
        }));
    }
    let mut close_handles = Vec::new();
    for s in &racers {
        let dtls = dtls_of(*s);
        let start = start.clone();
        close_handles.push(tokio::spawn(async move {
            start.wait().await;
            dtls.close();
        }));
    }
    let mut results: Vec<(usize, Result<(), String>)> = Vec::new();
    for h in handles {
        results.extend(h.await.map_err(|e| Fail::new("harness-task-panic", format!("sender task: {e}")))?);
    }
    for h in close_handles {
        h.await.map_err(|e| Fail::new("harness-task-panic", format!("closer task: {e}")))?;
    }

    // deliveries are awaited before a non-racing close(): a closed endpoint stops reading
    let mut got_from_a: Vec<Vec<u8>> = Vec::new();
    let mut got_from_b: Vec<Vec<u8>> = Vec::new();
    if !c.race_close {
        for (side, rx, got) in [(Side::A, &mut rx_b, &mut got_from_a), (Side::B, &mut rx_a, &mut got_from_b)] {
            let n: usize = calls.iter().filter(|cl| cl.from == side && !cl.after_close).map(|cl| cl.payload.len()).sum();
            let deadline = tokio::time::Instant::now() + Duration::from_secs(8);
            let mut bytes = 0usize;
            while bytes < n {
                match tokio::time::timeout_at(deadline, rx.recv()).await {
                    Ok(Some(b)) => {
                        bytes += b.len();
                        got.push(b.to_vec());
                    }
                    _ => break,
                }
            }
            if bytes < n {
                return Err(Fail::timing("delivery-incomplete", format!("peer received {}/{} payload bytes", bytes, n)));
            }
        }
        if c.close_a {
            sess.pair.a.dtls.close();
        }
        if c.close_b {
            sess.pair.b.dtls.close();
        }
    }
    let closes: std::collections::HashSet<Side> = [Side::A, Side::B].into_iter().filter(|s| closer(*s)).collect();

    // ---- phase 2: the closing side keeps sending (close() leaves its state Connected)
    let mut post_handles = Vec::new();
    for (side, ids) in &post_plan {
        let dtls = dtls_of(*side);
        let payloads: Vec<(usize, Bytes)> = ids.iter().map(|id| (*id, Bytes::from(calls[*id].payload.clone()))).collect();
        if c.post_wait_alert {
            let w = tokio::time::Instant::now();
            while alerts_on_wire(&sess, t0, *side) == 0 {
                if w.elapsed() > Duration::from_secs(8) {
                    return Err(Fail::timing("capture-incomplete", format!("close() of side {:?} put no alert on the wire within 8 s", side)));
                }
                tokio::time::sleep(Duration::from_micros(200)).await;
            }
        }
        post_handles.push(tokio::spawn(async move {
            let mut out = Vec::new();
            for (id, p) in payloads {
                out.push((id, dtls.send(p).await.map_err(|e| format!("{e}"))));
            }
            out
        }));
    }
    for h in post_handles {
        results.extend(h.await.map_err(|e| Fail::new("harness-task-panic", format!("post-close sender: {e}")))?);
    }
    for (id, r) in results {
        match r {
            Ok(()) => calls[id].ok = true,
            Err(e) => {
                // only the peer's close_notify may take a side out of Connected
                if !closer(calls[id].from.other()) {
                    return Err(Fail::new("send-failed-while-connected", format!("send() call {id} returned an error although the peer never closed: {e}")));
                }
                rec.label("tx:send-refused-after-peer-close");
            }
        }
    }
    if sess.tap.lock().foreign > 0 {
        rec.label("tx:stray-stun-datagram-ignored");
    }
    let mut expect: HashMap<Side, usize> = HashMap::new();
    for cl in calls.iter().filter(|cl| cl.ok) {
        *expect.entry(cl.from).or_default() += cl.payload.len();
    }
    let data_from = |s: Side| calls.iter().any(|cl| cl.from == s && !cl.payload.is_empty());
    let close_after_data = (c.close_a && data_from(Side::A)) || (c.close_b && data_from(Side::B));
    let send_after_close = calls.iter().any(|cl| cl.after_close && !cl.payload.is_empty());
    if c.tasks.len() >= 2 || close_after_data {
        rec.nontrivial();
    }
    rec.label(format!("tx:tasks={}", match c.tasks.len() { 1 => "1", 2..=4 => "2-4", 5..=8 => "5-8", _ => "9-16" }));
    if close_after_data {
        rec.label("tx:close-after-data");
    }
    if !racers.is_empty() {
        rec.label("tx:close-racing-with-senders");
    }
    if send_after_close {
        rec.label(if c.post_wait_alert { "tx:send-after-close(alert-on-wire)" } else { "tx:send-after-close(racing-alert)" });
    }
    if c.tasks.iter().any(|t| t.from_a) && c.tasks.iter().any(|t| !t.from_a) {
        rec.label("tx:both-directions");
    }

    // wait until the wire shows everything
    let w0 = tokio::time::Instant::now();
    // per side: (ciphertext bytes beyond the 37-byte record overhead in type-23 datagrams, type-21 datagrams)
    let counts = |sess: &Sess, s: Side| -> (usize, usize) {
        let g = sess.tap.lock();
        let mut bytes = 0usize;
        let mut alerts = 0usize;
        for (x, d) in g.all[t0..].iter() {
            if *x != s || d.is_empty() {
                continue;
            }
            match d[0] {
                23 => bytes += d.len().saturating_sub(37),
                21 => alerts += 1,
                _ => {}
            }
        }
        (bytes, alerts)
    };
    loop {
        let mut done = true;
        let mut seen = Vec::new();
        for s in [Side::A, Side::B] {
            let (bytes, alerts) = counts(&sess, s);
            seen.push((s, bytes, alerts));
            if bytes < *expect.get(&s).unwrap_or(&0) || (closes.contains(&s) && alerts < 1) {
                done = false;
            }
        }
        if done {
            break;
        }
        if w0.elapsed() > Duration::from_secs(8) {
            return Err(Fail::timing(
                "capture-incomplete",
                format!("expected payload bytes {:?} and close alerts from {:?} on the wire after Connected, captured (side, bytes, alerts) {:?}", expect, closes, seen),
            ));
        }
        tokio::time::sleep(Duration::from_millis(1)).await;
    }
    tokio::time::sleep(Duration::from_millis(25)).await;
    let after: Vec<(Side, Bytes)> = sess.tap.lock().all[t0..].to_vec();

    // ---- every datagram after Connected
    let mut per_side_records: HashMap<Side, Vec<(wire::DtlsRec, Vec<u8>, Vec<u8>)>> = HashMap::new(); // (rec, plain, raw)
    for (side, d) in &after {
        let (k, iv) = write_key(&keys, sess.is_client(*side));
        let who = if sess.is_client(*side) { "client" } else { "server" };
        if d.len() > MAX_RECORD {
            return Err(Fail::new("datagram-exceeds-record-limit", format!("{who} emitted a {}-byte datagram (limit {MAX_RECORD})", d.len())));
        }
        let recs = wire::dtls_records(d);
        let used: usize = recs.iter().map(|r| 13 + r.body.len()).sum();
        if recs.is_empty() || used != d.len() {
            return Err(Fail::new("unparseable-datagram-after-connected", format!("{who} emitted a datagram that is not a sequence of DTLS records: {}", short_hex(d))));
        }
        for r in recs {
            let raw = d[r.offset..r.offset + 13 + r.body.len()].to_vec();
            // a byte-identical copy of something sent during the handshake is a flight retransmission
            if before.iter().any(|(s, b)| s == side && b[..] == d[..]) {
                rec.label("tx:handshake-retransmission-after-connected");
                continue;
            }
            let closing = if *side == Side::A { c.close_a } else { c.close_b };
            let type_ok = r.content_type == 23 || (r.content_type == 21 && closing);
            if !type_ok || r.epoch == 0 {
                return Err(Fail::new(
                    "cleartext-or-unexpected-record-after-connected",
                    format!("{who} emitted a type-{} epoch-{} record after Connected: {}", r.content_type, r.epoch, short_hex(&raw)),
                ));
            }
            let Some(plain) = wire::dtls_open(&k, &iv, &r) else {
                return Err(Fail::new(
                    "sent-record-does-not-open-under-negotiated-keys",
                    format!("{who} emitted a type-{} record (epoch {}, seq {}) that does not authenticate under its write key: {}", r.content_type, r.epoch, r.seq, short_hex(&raw)),
                ));
            };
            if plain.len() > 1200 || raw.len() > MAX_RECORD {
                return Err(Fail::new("record-exceeds-limit", format!("{who} emitted a record with {} plaintext bytes ({} on the wire)", plain.len(), raw.len())));
            }
            sh.records_sent_checked.fetch_add(1, Ordering::Relaxed);
            per_side_records.entry(*side).or_default().push((r, plain, raw));
        }
    }

    // ---- reassembly: per send() call the plaintexts concatenate (in sequence order) to the payload
    for side in [Side::A, Side::B] {
        let who = if sess.is_client(side) { "client" } else { "server" };
        let mut recs: Vec<&(wire::DtlsRec, Vec<u8>, Vec<u8>)> = per_side_records.get(&side).map(|v| v.iter().collect()).unwrap_or_default();
        recs.sort_by_key(|(r, _, _)| (r.epoch, r.seq));
        for (r, plain, _) in recs {
            if r.content_type != 23 {
                continue;
            }
            // prefer the call this plaintext completes, then any call it continues
            let fits = |cl: &Call| cl.from == side && !plain.is_empty() && cl.consumed < cl.payload.len() && cl.payload[cl.consumed..].starts_with(plain);
            let idx = calls
                .iter()
                .position(|cl| fits(cl) && cl.payload.len() - cl.consumed == plain.len())
                .or_else(|| calls.iter().position(|cl| fits(cl)));
            let hit = idx.map(|i| &mut calls[i]);
            match hit {
                Some(cl) => cl.consumed += plain.len(),
                None => {
                    return Err(Fail::new(
                        "sent-record-matches-no-payload",
                        format!("{who} emitted record (epoch {}, seq {}) whose {}-byte plaintext [{}] continues no send() payload", r.epoch, r.seq, plain.len(), short_hex(plain)),
                    ));
                }
            }
        }
    }
    for (id, cl) in calls.iter().enumerate() {
        if cl.ok && cl.consumed != cl.payload.len() {
            return Err(Fail::new(
                "payload-not-fully-transmitted",
                format!("send() call {id} ({} bytes) returned Ok but only {} bytes appeared on the wire", cl.payload.len(), cl.consumed),
            ));
        }
    }

    // ---- (epoch, sequence) and explicit-nonce uniqueness per key over everything the side ever emitted
    let all: Vec<(Side, Bytes)> = sess.tap.lock().all.clone();
    for side in [Side::A, Side::B] {
        let who = if sess.is_client(side) { "client" } else { "server" };
        let mut seen: HashMap<(u16, u64), (u8, Vec<u8>)> = HashMap::new();
        let mut nonces: HashMap<Vec<u8>, (u8, Vec<u8>)> = HashMap::new();
        let mut tolerated = 0u64;
        for (s, d) in &all {
            if *s != side {
                continue;
            }
            for r in wire::dtls_records(d) {
                if r.epoch == 0 {
                    continue;
                }
                let raw = d[r.offset..r.offset + 13 + r.body.len()].to_vec();
                let mut clash: Option<(u8, Vec<u8>, &'static str)> = None;
                match seen.get(&(r.epoch, r.seq)) {
                    Some((t, old)) if old != &raw => clash = Some((*t, old.clone(), "(epoch, sequence number)")),
                    Some(_) => {}
                    None => {
                        seen.insert((r.epoch, r.seq), (r.content_type, raw.clone()));
                    }
                }
                if r.body.len() >= 8 {
                    let n = r.body[..8].to_vec();
                    match nonces.get(&n) {
                        Some((t, old)) if old != &raw => {
                            if clash.is_none() {
                                clash = Some((*t, old.clone(), "explicit nonce"));
                            }
                        }
                        Some(_) => {}
                        None => {
                            nonces.insert(n, (r.content_type, raw.clone()));
                        }
                    }
                }
                if let Some((t_old, old, what)) = clash {
                    let mut types = [t_old, r.content_type];
                    types.sort();
                    let sig = if types == [21, 23] { SIG_CLOSE_NONCE } else { "nonce-reuse" };
                    if sh.is_known(sig) && sig == SIG_CLOSE_NONCE && tolerated == 0 {
                        // tolerate exactly one alert/appdata clash per side, keep checking the rest
                        tolerated += 1;
                        sh.hit(sig, 1);
                        rec.label("tx:tolerated-known-close-nonce-reuse");
                        continue;
                    }
                    return Err(Fail::new(
                        sig,
                        format!(
                            "{who} sealed two different records under one key with the same {what}: epoch {} seq {} — type {} [{}] and type {} [{}]",
                            r.epoch, r.seq, t_old, short_hex(&old), r.content_type, short_hex(&raw)
                        ),
                    ));
                }
            }
        }
    }

    // ---- the peer's upper layer saw exactly the record plaintexts (secondary, loss-free path);
    // an endpoint that called close() itself stops reading, there only inclusion can be demanded
    for (side, rx, got) in [(Side::A, &mut rx_b, &mut got_from_a), (Side::B, &mut rx_a, &mut got_from_b)] {
        let mut want: Vec<Vec<u8>> = per_side_records
            .get(&side)
            .map(|v| v.iter().filter(|(r, _, _)| r.content_type == 23).map(|(_, p, _)| p.clone()).collect())
            .unwrap_or_default();
        let receiver_closed = closes.contains(&side.other());
        if receiver_closed {
            while let Ok(b) = rx.try_recv() {
                got.push(b.to_vec());
            }
        } else {
            let n: usize = want.iter().map(|p| p.len()).sum();
            let mut bytes: usize = got.iter().map(|p| p.len()).sum();
            let deadline = tokio::time::Instant::now() + Duration::from_secs(8);
            while bytes < n {
                match tokio::time::timeout_at(deadline, rx.recv()).await {
                    Ok(Some(b)) => {
                        bytes += b.len();
                        got.push(b.to_vec());
                    }
                    _ => break,
                }
            }
            if bytes < n {
                return Err(Fail::timing("delivery-incomplete", format!("peer received {}/{} payload bytes", bytes, n)));
            }
        }
        want.sort();
        got.sort();
        let ok = if receiver_closed {
            let mut w = want.clone();
            got.iter().all(|g| match w.iter().position(|x| x == g) {
                Some(i) => {
                    w.swap_remove(i);
                    true
                }
                None => false,
            })
        } else {
            want == *got
        };
        if !ok {
            return Err(Fail::new("delivered-differs-from-sent-records", "the peer's upper layer received payloads different from the sealed record plaintexts"));
        }
    }
    let _ = &mut sess;
    Ok(())
}

pub async fn run_close_mid(c: CloseMidCase, sh: Shared) -> (CaseRec, Check) {
    let rec = CaseRec::default();
    let res = close_mid_inner(&c, &sh, &rec).await;
    (rec, res)
}

/// close() while the handshake is frozen with keys negotiated: the alert takes its record number
/// from the handshake context. Everything the closing side sealed must carry distinct (epoch, seq)
/// / explicit nonces and - when the harness can know the keys - open under its write key.
async fn close_mid_inner(c: &CloseMidCase, sh: &Shared, rec: &CaseRec) -> Check {
    use crate::net::rig::state_name;
    use crate::net::wire::DClass;
    let client = if c.a_is_client { Side::A } else { Side::B };
    let server = client.other();
    let (hold_side, target) = match c.hold {
        Hold::ServerFinal => (server, client),
        Hold::ClientFinal => (client, server),
    };
    let hold = [(hold_side, DClass::ChangeCipherSpec), (hold_side, DClass::Finished)];
    let sess = Sess::build(c.a_is_client, &hold, 40, 16, Some((Duration::from_secs(12), Duration::from_secs(40)))).await?;
    let w = tokio::time::Instant::now();
    while sess.tap.lock().stash.len() < 2 {
        if w.elapsed() > Duration::from_secs(8) {
            return Err(Fail::timing("hold-missed", format!("handshake did not reach the held flight within 8 s ({:?})", c.hold)));
        }
        tokio::time::sleep(Duration::from_millis(1)).await;
    }
    // ClientFinal: give the server the time to process the ClientKeyExchange that was let through
    if c.hold == Hold::ClientFinal {
        tokio::time::sleep(Duration::from_millis(20)).await;
    }
    let st = sess.pair.end(target).dtls.get_state();
    if state_name(&st) != "Handshaking" {
        return Err(Fail::timing("hold-state-unexpected", format!("target is {} while its peer's final flight is held", state_name(&st))));
    }
    let keys = if c.hold == Hold::ServerFinal {
        let w0 = tokio::time::Instant::now();
        loop {
            match sess.pair.end(server).dtls.get_state() {
                rustrtc::transports::dtls::DtlsState::Connected(k, _) => break Some(k.keys.clone()),
                _ if w0.elapsed() > Duration::from_secs(5) => return Err(Fail::timing("hold-state-unexpected", "server not Connected 5 s after its final flight")),
                _ => tokio::time::sleep(Duration::from_micros(200)).await,
            }
        }
    } else {
        None
    };
    let n0 = sess.emitted_count(target);
    sess.pair.end(target).dtls.close();
    let w = tokio::time::Instant::now();
    while sess.emitted_count(target) == n0 {
        if w.elapsed() > Duration::from_secs(5) {
            return Err(Fail::timing("capture-incomplete", "close() with negotiated keys put nothing on the wire within 5 s"));
        }
        tokio::time::sleep(Duration::from_micros(300)).await;
    }
    tokio::time::sleep(Duration::from_millis(10)).await;
    rec.nontrivial();
    rec.label(match c.hold {
        Hold::ServerFinal => "tx:close-midhandshake(client, epoch 1)",
        Hold::ClientFinal => "tx:close-midhandshake(server, epoch 0)",
    });
    let who = if sess.is_client(target) { "client" } else { "server" };
    let emitted = sess.emitted(target);
    let mut seen: HashMap<(u16, u64), Vec<u8>> = HashMap::new();
    let mut alerts = 0;
    for (i, d) in emitted.iter().enumerate() {
        for r in wire::dtls_records(d) {
            let raw = d[r.offset..r.offset + 13 + r.body.len()].to_vec();
            // records sealed under the session key: every epoch >= 1 record, and whatever close() emitted
            let sealed = r.epoch >= 1 || i >= n0;
            if !sealed {
                continue;
            }
            if r.content_type == 21 {
                alerts += 1;
            }
            if let Some(old) = seen.get(&(r.epoch, r.seq)) {
                if old != &raw {
                    return Err(Fail::new(
                        "nonce-reuse",
                        format!("{who} (closing mid-handshake) sealed two different records with (epoch {}, seq {}): [{}] and [{}]", r.epoch, r.seq, short_hex(old), short_hex(&raw)),
                    ));
                }
            } else {
                seen.insert((r.epoch, r.seq), raw.clone());
            }
            if let (Some(k), true) = (&keys, r.epoch >= 1) {
                let (key, iv) = write_key(k, sess.is_client(target));
                if wire::dtls_open(&key, &iv, &r).is_none() {
                    return Err(Fail::new(
                        "sent-record-does-not-open-under-negotiated-keys",
                        format!("{who} emitted a type-{} record (epoch {}, seq {}) that does not authenticate under its write key: {}", r.content_type, r.epoch, r.seq, short_hex(&raw)),
                    ));
                }
                sh.records_sent_checked.fetch_add(1, Ordering::Relaxed);
            }
        }
    }
    if alerts > 0 {
        rec.label("tx:close-midhandshake-alert-captured");
    }
    Ok(())
}
