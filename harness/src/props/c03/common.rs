//! Session plumbing shared by the receive and send checks: datagram tap, key access, sealing.

use crate::engine::Fail;
use crate::net::fault::{Action, CustomFn, Rule, Side};
use crate::net::rig::{Pair, PairSpec, state_name};
use crate::net::wire::{self, DClass};
use aes_gcm::aead::{Aead, KeyInit, Payload as GcmPayload};
use aes_gcm::{Aes128Gcm, Nonce};
use bytes::Bytes;
use parking_lot::Mutex;
use rustrtc::transports::dtls::{DtlsState, SessionKeys};
use std::net::SocketAddr;
use std::sync::Arc;
use std::time::Duration;

pub const ALL_CLASSES: [DClass; 13] = [
    DClass::ClientHello,
    DClass::HelloVerifyRequest,
    DClass::ServerHello,
    DClass::Certificate,
    DClass::ServerKeyExchange,
    DClass::ServerHelloDone,
    DClass::ClientKeyExchange,
    DClass::ChangeCipherSpec,
    DClass::Finished,
    DClass::AppData,
    DClass::Alert,
    DClass::OtherHandshake,
    DClass::Other,
];

#[derive(Default)]
pub struct TapInner {
    /// every datagram an endpoint put on the wire, in capture order
    pub all: Vec<(Side, Bytes)>,
    /// datagrams swallowed by a hold rule (released by the harness)
    pub stash: Vec<(Side, Bytes)>,
    /// well-formed STUN messages seen on a proxy socket (stray traffic of other processes)
    pub foreign: u64,
}

/// RFC 5389 framing: two zero top bits, magic cookie, length field == remaining bytes (multiple of 4).
pub fn is_stun(b: &[u8]) -> bool {
    b.len() >= 20
        && b[0] < 0x40
        && !(20..64).contains(&b[0])
        && b[4..8] == [0x21, 0x12, 0xA4, 0x42]
        && u16::from_be_bytes([b[2], b[3]]) as usize == b.len() - 20
        && b.len() % 4 == 0
}

pub type Tap = Arc<Mutex<TapInner>>;

fn side_idx(s: Side) -> u8 {
    match s {
        Side::A => 0,
        Side::B => 1,
    }
}

/// Rules that route every datagram through the tap (`Custom(0|1)`) and swallow the first datagram of
/// each `hold` (side, class) into the stash (`Custom(2|3)`).
pub fn tap_rules(hold: &[(Side, DClass)], hs_cap: u16, app_cap: u16) -> Vec<Rule<DClass>> {
    let mut r = Vec::new();
    for (s, c) in hold {
        r.push(Rule { from: *s, class: *c, ordinal: 0, action: Action::Custom(2 + side_idx(*s)) });
    }
    for side in [Side::A, Side::B] {
        for class in ALL_CLASSES {
            let n = match class {
                DClass::AppData => app_cap,
                DClass::Alert => 8,
                _ => hs_cap,
            };
            for ordinal in 0..n {
                if ordinal == 0 && hold.contains(&(side, class)) {
                    continue;
                }
                r.push(Rule { from: side, class, ordinal, action: Action::Custom(side_idx(side)) });
            }
        }
    }
    r
}

pub fn install_tap(pair: &Pair) -> Tap {
    let tap: Tap = Arc::new(Mutex::new(TapInner::default()));
    let t = tap.clone();
    let f: CustomFn = Arc::new(move |k: u8, b: &Bytes| {
        let side = if k & 1 == 0 { Side::A } else { Side::B };
        let mut g = t.lock();
        if is_stun(b) {
            // not emitted by the endpoint under test: other processes on this host probe loopback
            // ports with ICE connectivity checks, and the proxy socket cannot tell the sender
            g.foreign += 1;
            return vec![b.clone()];
        }
        g.all.push((side, b.clone()));
        if k >= 2 {
            g.stash.push((side, b.clone()));
            Vec::new()
        } else {
            vec![b.clone()]
        }
    });
    pair.dgram.lock().custom = Some(f);
    tap
}

pub fn harness_err(e: impl std::fmt::Display) -> Fail {
    Fail::timing("harness-error", format!("rig failed: {e}"))
}

pub struct Sess {
    pub pair: Pair,
    pub tap: Tap,
    pub a_is_client: bool,
}

impl Sess {
    pub async fn build(a_is_client: bool, hold: &[(Side, DClass)], hs_cap: u16, app_cap: u16, timers: Option<(Duration, Duration)>) -> Result<Sess, Fail> {
        let mut spec = PairSpec::plain();
        spec.a_is_client = a_is_client;
        spec.dgram_rules = tap_rules(hold, hs_cap, app_cap);
        if let Some(t) = timers {
            spec.dtls_timers = Some(t);
        }
        let pair = Pair::build(spec).await.map_err(harness_err)?;
        let tap = install_tap(&pair);
        Ok(Sess { pair, tap, a_is_client })
    }

    pub fn is_client(&self, s: Side) -> bool {
        (s == Side::A) == self.a_is_client
    }


    pub async fn connected_keys(&self, limit: Duration) -> Result<SessionKeys, Fail> {
        let (sa, sb) = self.pair.wait_dtls(limit).await;
        match (&sa, &sb) {
            (DtlsState::Connected(ca, _), DtlsState::Connected(cb, _)) => {
                if ca.keys != cb.keys {
                    return Err(Fail::new("endpoints-disagree-on-keys", "both Connected with different session keys"));
                }
                Ok(ca.keys.clone())
            }
            _ => Err(Fail::timing(
                "handshake-incomplete",
                format!("handshake did not complete: A={} B={}", state_name(&sa), state_name(&sb)),
            )),
        }
    }

    /// datagrams `side` emitted so far
    pub fn emitted(&self, side: Side) -> Vec<Bytes> {
        self.tap.lock().all.iter().filter(|(s, _)| *s == side).map(|(_, b)| b.clone()).collect()
    }

    pub fn emitted_count(&self, side: Side) -> usize {
        self.tap.lock().all.iter().filter(|(s, _)| *s == side).count()
    }
}

/// (key, iv) a side writes with.
pub fn write_key(keys: &SessionKeys, is_client: bool) -> (Vec<u8>, Vec<u8>) {
    if is_client {
        (keys.client_write_key.clone(), keys.client_write_iv.clone())
    } else {
        (keys.server_write_key.clone(), keys.server_write_iv.clone())
    }
}

/// Seal with full control: header (epoch, seq), AAD sequence and explicit nonce chosen independently.
pub fn seal_ex(key: &[u8], iv: &[u8], ct: u8, hdr_epoch: u16, hdr_seq: u64, aad_full_seq: u64, nonce: u64, plain: &[u8]) -> Vec<u8> {
    let mut n = [0u8; 12];
    n[..4].copy_from_slice(&iv[..4]);
    n[4..].copy_from_slice(&nonce.to_be_bytes());
    let mut aad = [0u8; 13];
    aad[..8].copy_from_slice(&aad_full_seq.to_be_bytes());
    aad[8] = ct;
    aad[9] = 0xFE;
    aad[10] = 0xFD;
    aad[11..].copy_from_slice(&(plain.len() as u16).to_be_bytes());
    let cipher = Aes128Gcm::new_from_slice(key).expect("key");
    let c = cipher.encrypt(Nonce::from_slice(&n), GcmPayload { msg: plain, aad: &aad }).expect("seal");
    let mut body = nonce.to_be_bytes().to_vec();
    body.extend_from_slice(&c);
    wire::dtls_record_bytes(ct, hdr_epoch, hdr_seq & 0xFFFF_FFFF_FFFF, &body)
}

pub fn third_party(i: u8, peer: SocketAddr) -> SocketAddr {
    match i {
        0 => peer,
        1 => SocketAddr::from(([127, 0, 0, 1], 9)),
        _ => SocketAddr::from(([198, 51, 100, 7], 4444)),
    }
}

pub fn short_hex(b: &[u8]) -> String {
    let n = b.len().min(96);
    let mut s = crate::engine::hex(&b[..n]);
    if b.len() > n {
        s.push_str(&format!("..({} bytes)", b.len()));
    }
    s
}

/// Deterministic payload pattern: every 4-byte word is (tag low byte, word index hi, lo, tag high byte ^ 0xA5),
/// so any word-aligned chunk - even a 1-byte tail - names its payload (tags 1..=255 are distinct in byte 0).
pub fn pattern(tag: u16, len: usize) -> Vec<u8> {
    let mut v = Vec::with_capacity(len + 4);
    let mut j = 0u16;
    while v.len() < len {
        v.extend_from_slice(&[tag as u8, (j >> 8) as u8, j as u8, (tag >> 8) as u8 ^ 0xA5]);
        j = j.wrapping_add(1);
    }
    v.truncate(len);
    v
}
