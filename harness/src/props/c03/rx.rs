//! Receive-side checks: established sessions and sessions frozen mid-handshake.

use super::common::*;
use super::types::*;
use super::{SIG_PLAIN_APP_EST, SIG_PLAIN_APP_HS, SIG_PLAIN_CLOSE_EST, SIG_PLAIN_CLOSE_HS, SIG_PLAIN_HS_FAILS_EST, Shared};
use crate::engine::{CaseRec, Check, Fail, pick};
use crate::net::fault::Side;
use crate::net::rig::state_name;
use crate::net::wire::{self, DClass};
use bytes::Bytes;
use std::sync::atomic::Ordering;
use std::time::Duration;
use tokio::sync::mpsc::UnboundedReceiver;

#[derive(Clone, Copy, PartialEq, Debug)]
enum Phase {
    Established,
    Handshaking,
}

impl Phase {
    fn name(self) -> &'static str {
        match self {
            Phase::Established => "established",
            Phase::Handshaking => "handshaking",
        }
    }
    fn expect_state(self) -> &'static str {
        match self {
            Phase::Established => "Connected",
            Phase::Handshaking => "Handshaking",
        }
    }
}

/// Restrictions applied by construction while building crafted records.
#[derive(Clone, Copy, Default)]
struct Lim {
    /// forged handshake messages carry message_seq < this (duplicates only)
    hs_seq_below: Option<u16>,
    no_client_hello: bool,
    no_lead: bool,
}

struct Env {
    /// (key, iv) the target decrypts with (= the peer's write key); None when the harness cannot know it
    peer_key: Option<(Vec<u8>, Vec<u8>)>,
    /// (key, iv) the target itself writes with
    own_key: Option<(Vec<u8>, Vec<u8>)>,
    /// genuine datagrams with protected records the peer emitted towards the target (Finished, app data)
    gen_to: Vec<Vec<u8>>,
    /// genuine protected datagrams the target itself emitted
    gen_own: Vec<Vec<u8>>,
    lim: Lim,
}

struct Built {
    dgram: Vec<u8>,
    src: u8,
    desc: String,
    labels: Vec<String>,
}

fn payload_kind(p: &Payload) -> &'static str {
    match p {
        Payload::Sctp { .. } => "sctp-like",
        Payload::Alert { desc: 0, .. } => "close-notify",
        Payload::Alert { .. } => "alert-other",
        Payload::Random(_) => "random",
        Payload::Hs { .. } => "handshake-msg",
        Payload::Ccs => "ccs",
        Payload::Empty => "empty",
    }
}

fn prot_kind(p: &Prot) -> &'static str {
    match p {
        Prot::Plain => "plain",
        Prot::RandomKey { .. } => "random-key",
        Prot::OwnKey => "own-key",
        Prot::PeerKeyAadMismatch { .. } => "peer-key-aad-mismatch",
        Prot::PeerKeyNonceDiffers { .. } => "peer-key-nonce-differs(authentic)",
        Prot::PeerKey => "peer-key(authentic)",
    }
}

fn hs_message(msg_type: u8, msg_seq: u16, wellformed: bool, len: u8) -> Vec<u8> {
    let body: Vec<u8> = if wellformed {
        match msg_type {
            // Certificate: list of one 40-byte "certificate"
            11 => {
                let cert = vec![0x30u8; 40];
                let mut b = vec![0, 0, (cert.len() + 3) as u8, 0, 0, cert.len() as u8];
                b.extend_from_slice(&cert);
                b
            }
            // ServerKeyExchange: named curve secp256r1, 65-byte point, ecdsa-sha256, 8-byte signature
            12 => {
                let mut b = vec![3, 0, 23, 65, 4];
                b.extend_from_slice(&[0x11; 64]);
                b.extend_from_slice(&[4, 3, 0, 8]);
                b.extend_from_slice(&[0x22; 8]);
                b
            }
            // ClientKeyExchange: 65-byte point
            16 => {
                let mut b = vec![65, 4];
                b.extend_from_slice(&[0x33; 64]);
                b
            }
            20 => vec![0x5A; 12],
            _ => vec![0xA5; len as usize],
        }
    } else {
        vec![0xA5; len as usize]
    };
    let l = body.len() as u32;
    let mut v = vec![msg_type, (l >> 16) as u8, (l >> 8) as u8, l as u8];
    v.extend_from_slice(&msg_seq.to_be_bytes());
    v.extend_from_slice(&[0, 0, 0]);
    v.extend_from_slice(&[(l >> 16) as u8, (l >> 8) as u8, l as u8]);
    v.extend_from_slice(&body);
    v
}

fn payload_bytes(p: &Payload, lim: &Lim) -> Vec<u8> {
    match p {
        Payload::Sctp { len } => {
            let mut data = vec![0, 0, 0, 1, 0, 0, 0, 0, 0, 0, 0, 51];
            data.extend_from_slice(&pattern(0xC03, *len as usize));
            wire::sctp_build(5000, 5000, 0x1234_5678, &[(wire::CT_DATA, 3, data)])
        }
        Payload::Alert { level, desc } => vec![*level, *desc],
        Payload::Random(b) => b.clone(),
        Payload::Hs { msg_type, msg_seq, wellformed, len } => {
            let mut t = *msg_type;
            if lim.no_client_hello && t == 1 {
                t = 2;
            }
            let s = match lim.hs_seq_below {
                Some(n) if n > 0 => *msg_seq % n,
                _ => *msg_seq,
            };
            hs_message(t, s, *wellformed, *len)
        }
        Payload::Ccs => vec![1],
        Payload::Empty => Vec::new(),
    }
}

const FALLBACK_KEY: [u8; 16] = [0x42; 16];
const FALLBACK_IV: [u8; 4] = [0x24; 4];

fn build_crafted(ct: u8, epoch: u16, seq: u64, payload: &Payload, prot: &Prot, src: u8, lead: bool, env: &Env) -> Built {
    let plain = payload_bytes(payload, &env.lim);
    let seq = seq & 0xFFFF_FFFF_FFFF;
    let full = |e: u16, s: u64| ((e as u64) << 48) | (s & 0xFFFF_FFFF_FFFF);
    let mut prot_used = prot_kind(prot);
    let (mut ct, mut epoch) = (ct, epoch);
    let rec = match prot {
        Prot::Plain => wire::dtls_record_bytes(ct, epoch, seq, &plain),
        Prot::RandomKey { key, iv } => seal_ex(key, iv, ct, epoch, seq, full(epoch, seq), full(epoch, seq), &plain),
        Prot::OwnKey => match &env.own_key {
            Some((k, iv)) => seal_ex(k, iv, ct, epoch, seq, full(epoch, seq), full(epoch, seq), &plain),
            None => {
                prot_used = "random-key";
                seal_ex(&FALLBACK_KEY, &FALLBACK_IV, ct, epoch, seq, full(epoch, seq), full(epoch, seq), &plain)
            }
        },
        Prot::PeerKeyAadMismatch { aad_epoch, seq_delta } => match &env.peer_key {
            Some((k, iv)) => {
                let mut aad = full(*aad_epoch, seq.wrapping_add(*seq_delta as u64));
                if aad == full(epoch, seq) {
                    aad = full(*aad_epoch, seq.wrapping_add(1));
                }
                seal_ex(k, iv, ct, epoch, seq, aad, aad, &plain)
            }
            None => {
                prot_used = "random-key";
                seal_ex(&FALLBACK_KEY, &FALLBACK_IV, ct, epoch, seq, full(epoch, seq), full(epoch, seq), &plain)
            }
        },
        Prot::PeerKey | Prot::PeerKeyNonceDiffers { .. } => match &env.peer_key {
            Some((k, iv)) => {
                // authentic records are only built as (ignored) ApplicationData / Heartbeat in a real epoch,
                // so the session survives them
                if ct != 24 {
                    ct = 23;
                }
                if epoch == 0 {
                    epoch = 1;
                }
                let nonce = match prot {
                    Prot::PeerKeyNonceDiffers { nonce } if *nonce != full(epoch, seq) => *nonce,
                    Prot::PeerKeyNonceDiffers { .. } => full(epoch, seq) ^ 1,
                    _ => full(epoch, seq),
                };
                seal_ex(k, iv, ct, epoch, seq, full(epoch, seq), nonce, &plain)
            }
            None => {
                prot_used = "random-key";
                seal_ex(&FALLBACK_KEY, &FALLBACK_IV, ct, epoch, seq, full(epoch, seq), full(epoch, seq), &plain)
            }
        },
    };
    let mut dgram = Vec::new();
    let mut led = false;
    if lead && !env.lim.no_lead && !env.gen_to.is_empty() {
        // a verbatim genuine record in front (ApplicationData if there is one)
        let g = env.gen_to.get(1).unwrap_or(&env.gen_to[0]);
        dgram.extend_from_slice(g);
        led = true;
    }
    dgram.extend_from_slice(&rec);
    let ct_label = if (20..=24).contains(&ct) { format!("rx:ct={ct}") } else { "rx:ct=invalid".to_string() };
    let claims = matches!(prot, Prot::Plain) && epoch >= 1;
    let mut extra_labels = Vec::new();
    if claims {
        extra_labels.push("rx:plaintext-claiming-protected-epoch".to_string());
    }
    let mut b = Built {
        desc: format!(
            "crafted ct={ct} epoch={epoch} seq={seq} payload={payload:?} prot={prot_used} lead={led} src={src}"
        ),
        labels: vec![
            ct_label,
            format!("rx:epoch={epoch:#x}"),
            format!("rx:payload={}", payload_kind(payload)),
            format!("rx:prot={prot_used}"),
            format!("rx:src={}", if src == 0 { "peer" } else { "third-party" }),
        ],
        dgram,
        src,
    };
    b.labels.extend(extra_labels);
    b
}

/// Unprotected records whose header claims a protected epoch: every session frozen mid-handshake gets
/// this fixed set in front of its generated injections (content type x epoch x sequence x source).
fn claimed_epoch_prelude() -> Vec<Inj> {
    let mut v = Vec::new();
    let seqs = [0u64, 1, 5, 0xFFFF_FFFF_FFFF, 0x7F00_0000_0001, 2];
    let mut k = 0usize;
    for (ct, payload) in [
        (23u8, Payload::Sctp { len: 16 }),
        (21, Payload::Alert { level: 1, desc: 0 }),
        (22, Payload::Hs { msg_type: 20, msg_seq: 1, wellformed: true, len: 12 }),
        (20, Payload::Ccs),
        (23, Payload::Random(vec![0x17; 3])),
        (21, Payload::Alert { level: 2, desc: 0 }),
    ] {
        for epoch in [1u16, 2, 0xFFFF] {
            for src in [0u8, 1 + (k as u8 & 1)] {
                v.push(Inj::Crafted { ct, epoch, seq: seqs[k % seqs.len()], payload: payload.clone(), prot: Prot::Plain, src, lead: false });
                k += 1;
            }
        }
    }
    v
}

pub fn grid() -> Vec<Inj> {
    let payloads = [
        Payload::Sctp { len: 16 },
        Payload::Alert { level: 1, desc: 0 },
        Payload::Alert { level: 2, desc: 40 },
        Payload::Random((0u8..24).map(|i| i.wrapping_mul(37) ^ 0x5C).collect()),
        Payload::Hs { msg_type: 20, msg_seq: 3, wellformed: true, len: 12 },
        Payload::Hs { msg_type: 20, msg_seq: 5, wellformed: true, len: 12 },
        Payload::Hs { msg_type: 11, msg_seq: 5, wellformed: true, len: 0 },
        Payload::Ccs,
    ];
    let mut v = Vec::new();
    for ct in [20u8, 21, 22, 23, 24, 25] {
        for epoch in [0u16, 1, 2, 0xFFFF] {
            for payload in &payloads {
                for prot in [
                    Prot::Plain,
                    Prot::RandomKey { key: vec![7; 16], iv: vec![9; 4] },
                    Prot::OwnKey,
                    Prot::PeerKeyAadMismatch { aad_epoch: epoch, seq_delta: 1 },
                ] {
                    for src in 0..3u8 {
                        v.push(Inj::Crafted { ct, epoch, seq: 5, payload: payload.clone(), prot: prot.clone(), src, lead: false });
                    }
                }
            }
        }
    }
    v
}

fn mutated(kind: &str, src: u8, dgram: Vec<u8>, what: String) -> Built {
    Built { dgram, src, desc: format!("{kind} {what} src={src}"), labels: vec![format!("rx:mut={kind}")] }
}

fn expand(inj: &Inj, env: &Env, out: &mut Vec<Built>) {
    let g = |rec: u16| -> Option<(usize, &Vec<u8>)> {
        if env.gen_to.is_empty() {
            None
        } else {
            let i = pick(rec, env.gen_to.len());
            Some((i, &env.gen_to[i]))
        }
    };
    let at = |pos: u16, len: usize| ((pos as usize) * len) >> 16;
    match inj {
        Inj::Crafted { ct, epoch, seq, payload, prot, src, lead } => {
            out.push(build_crafted(*ct, *epoch, *seq, payload, prot, *src, *lead, env));
        }
        Inj::Flip { rec, pos, bit, src } => {
            if let Some((i, d)) = g(*rec) {
                let mut v = d.clone();
                let p = at(*pos, v.len());
                v[p] ^= 1 << (bit & 7);
                out.push(mutated("flip", *src, v, format!("genuine[{i}] byte {p} bit {}", bit & 7)));
            }
        }
        Inj::Trunc { rec, pos, src } => {
            if let Some((i, d)) = g(*rec) {
                let p = at(*pos, d.len()).max(1);
                out.push(mutated("truncate", *src, d[..p].to_vec(), format!("genuine[{i}] to {p} of {} bytes", d.len())));
            }
        }
        Inj::Extend { rec, extra, src } => {
            if let Some((i, d)) = g(*rec) {
                let mut v = d.clone();
                v.extend_from_slice(extra);
                out.push(mutated("extend", *src, v, format!("genuine[{i}] + {} bytes", extra.len())));
            }
        }
        Inj::Rekey { rec, key, src } => {
            if let (Some((i, d)), Some((pk, piv))) = (g(*rec), &env.peer_key) {
                if let Some(r) = wire::dtls_records(d).first() {
                    if let Some(plain) = wire::dtls_open(pk, piv, r) {
                        let full = ((r.epoch as u64) << 48) | r.seq;
                        let mut k = key.clone();
                        k.resize(16, 0);
                        if &k == pk {
                            k[0] ^= 1;
                        }
                        let v = seal_ex(&k, piv, r.content_type, r.epoch, r.seq, full, full, &plain);
                        out.push(mutated("rekey", *src, v, format!("genuine[{i}] plaintext under a random key")));
                    }
                }
            }
        }
        Inj::Header { rec, epoch, seq_xor, src } => {
            if let Some((i, d)) = g(*rec) {
                let mut v = d.clone();
                if v.len() >= 13 {
                    let old = v[..13].to_vec();
                    if let Some(e) = epoch {
                        v[3..5].copy_from_slice(&e.to_be_bytes());
                    }
                    let x = seq_xor.to_be_bytes();
                    for k in 0..4 {
                        v[7 + k] ^= x[k];
                    }
                    if v[..13] == old[..] {
                        v[10] ^= 1;
                    }
                    out.push(mutated("header-rewrite", *src, v, format!("genuine[{i}] epoch {:?} seq^{:#x}", epoch, seq_xor)));
                }
            }
        }
        Inj::Reflect { rec, src } => {
            if !env.gen_own.is_empty() {
                let i = pick(*rec, env.gen_own.len());
                out.push(mutated("reflect", *src, env.gen_own[i].clone(), format!("own[{i}]")));
            }
        }
        Inj::Replay { rec, src } => {
            if let Some((i, d)) = g(*rec) {
                out.push(mutated("replay", *src, d.clone(), format!("genuine[{i}] verbatim")));
            }
        }
        Inj::AllFlips { rec } => {
            if let Some(d) = env.gen_to.get(*rec as usize) {
                if d.len() <= 128 {
                    for p in 0..d.len() {
                        for bit in 0..8 {
                            let mut v = d.clone();
                            v[p] ^= 1 << bit;
                            out.push(mutated("all-flips", 0, v, format!("genuine[{rec}] byte {p} bit {bit}")));
                        }
                    }
                }
            }
        }
        Inj::AllTruncs { rec } => {
            if let Some(d) = env.gen_to.get(*rec as usize) {
                if d.len() <= 1300 {
                    for l in 1..d.len() {
                        out.push(mutated("all-truncations", 0, d[..l].to_vec(), format!("genuine[{rec}] to {l} of {} bytes", d.len())));
                    }
                }
            }
        }
        Inj::Grid => {
            for i in grid() {
                expand(&i, env, out);
            }
        }
    }
}

/// What the independent reader says about an injected datagram.
struct Auth {
    /// plaintexts of ApplicationData records that authenticate under the negotiated peer key
    app: Vec<Vec<u8>>,
    /// some non-ApplicationData record authenticates (it may legitimately change state)
    other: bool,
}

fn analyze(dgram: &[u8], key: &Option<(Vec<u8>, Vec<u8>)>) -> Auth {
    let mut a = Auth { app: Vec::new(), other: false };
    let Some((k, iv)) = key else { return a };
    for r in wire::dtls_records(dgram) {
        if r.epoch == 0 {
            continue;
        }
        if let Some(p) = wire::dtls_open(k, iv, &r) {
            if r.content_type == 23 {
                a.app.push(p);
            } else {
                a.other = true;
            }
        }
    }
    a
}

struct Shape {
    plain_app_bodies: Vec<Vec<u8>>,
    plain_close_notify: bool,
    plain_hs_types: Vec<u8>,
    /// raw bodies of ApplicationData records whose header claims a protected epoch (>= 1): the upper
    /// layer may see the *plaintext* of such a record if it authenticates, never the body itself
    claimed_app_bodies: Vec<Vec<u8>>,
    /// an alert record claiming epoch >= 1 whose raw body reads as close_notify
    claimed_close_notify: bool,
}

fn shape(dgram: &[u8]) -> Shape {
    let mut s = Shape {
        plain_app_bodies: Vec::new(),
        plain_close_notify: false,
        plain_hs_types: Vec::new(),
        claimed_app_bodies: Vec::new(),
        claimed_close_notify: false,
    };
    for r in wire::dtls_records(dgram) {
        if r.epoch != 0 {
            match r.content_type {
                23 => s.claimed_app_bodies.push(r.body.clone()),
                21 => {
                    if r.body.len() >= 2 && r.body[1] == 0 {
                        s.claimed_close_notify = true;
                    }
                }
                _ => {}
            }
            continue;
        }
        match r.content_type {
            23 => s.plain_app_bodies.push(r.body.clone()),
            21 => {
                if r.body.len() >= 2 && r.body[1] == 0 {
                    s.plain_close_notify = true;
                }
            }
            22 => {
                if let Some(h) = wire::hs_header(&r.body) {
                    s.plain_hs_types.push(h.msg_type);
                }
            }
            _ => {}
        }
    }
    s
}

enum Barrier {
    /// authentic marker record (needs the negotiated key)
    Marker,
    /// duplicate ClientHello makes the (server) target retransmit its 4-datagram flight
    Echo,
}

struct Target<'a> {
    sess: &'a Sess,
    to: Side,
    rx: UnboundedReceiver<Bytes>,
    phase: Phase,
    barrier: Barrier,
    env: Env,
    marker_n: u64,
    sh: &'a Shared,
    rec: &'a CaseRec,
    /// all genuine datagrams (for the novelty count)
    genuine_all: Vec<Vec<u8>>,
    novel: u64,
}

enum BarEnd {
    Reached,
    /// the marker record's sealed body came up undecrypted
    MarkerRaw,
    ChannelClosed,
    Timeout,
}

impl<'a> Target<'a> {
    fn peer_addr(&self) -> std::net::SocketAddr {
        self.sess.pair.end(self.to).proxy_addr
    }

    async fn barrier(&mut self) -> (Vec<Bytes>, BarEnd) {
        let mut got = Vec::new();
        match self.barrier {
            Barrier::Marker => {
                let (k, iv) = self.env.peer_key.clone().expect("marker barrier needs keys");
                self.marker_n += 1;
                let mut plain = b"\x00C03MARK".to_vec();
                plain.extend_from_slice(&self.marker_n.to_be_bytes());
                let seq = 0x7F00_0000_0000u64 + self.marker_n;
                let full = (1u64 << 48) | seq;
                let m = seal_ex(&k, &iv, 23, 1, seq, full, full, &plain);
                let raw_body = m[13..].to_vec();
                self.sess.pair.inject(self.to, Bytes::from(m), self.peer_addr()).await;
                let deadline = tokio::time::sleep(Duration::from_secs(4));
                tokio::pin!(deadline);
                loop {
                    tokio::select! {
                        x = self.rx.recv() => match x {
                            Some(b) if b[..] == plain[..] => return (got, BarEnd::Reached),
                            Some(b) if b[..] == raw_body[..] => return (got, BarEnd::MarkerRaw),
                            Some(b) => got.push(b),
                            None => return (got, BarEnd::ChannelClosed),
                        },
                        _ = &mut deadline => return (got, BarEnd::Timeout),
                    }
                }
            }
            Barrier::Echo => {
                let before = self.sess.emitted_count(self.to);
                let ch = wire::dtls_record_bytes(22, 0, 0x0000_7000_0000, &hs_message(1, 0, false, 0));
                self.sess.pair.inject(self.to, Bytes::from(ch), self.peer_addr()).await;
                let t0 = tokio::time::Instant::now();
                let mut end = BarEnd::Timeout;
                while t0.elapsed() < Duration::from_secs(4) {
                    if self.sess.emitted_count(self.to) >= before + 4 {
                        end = BarEnd::Reached;
                        break;
                    }
                    tokio::time::sleep(Duration::from_micros(300)).await;
                }
                while let Ok(b) = self.rx.try_recv() {
                    got.push(b);
                }
                (got, end)
            }
        }
    }

    /// Inject one datagram, wait for the barrier and judge. Ok(true) = session still usable.
    async fn inject(&mut self, b: &Built) -> Result<bool, Fail> {
        let sh = self.sh;
        let ph = self.phase.name();
        let sig_app = if self.phase == Phase::Established { SIG_PLAIN_APP_EST } else { SIG_PLAIN_APP_HS };
        let sig_close = if self.phase == Phase::Established { SIG_PLAIN_CLOSE_EST } else { SIG_PLAIN_CLOSE_HS };
        if b.dgram.is_empty() {
            return Ok(true);
        }
        let shp = shape(&b.dgram);
        // known session-killing shapes are not executed (the session must survive to test the rest)
        if shp.plain_close_notify && sh.is_known(sig_close) {
            sh.hit(sig_close, 1);
            self.rec.label("rx:skipped-known-session-killer");
            return Ok(true);
        }
        if self.phase == Phase::Established
            && sh.is_known(SIG_PLAIN_HS_FAILS_EST)
            && shp.plain_hs_types.iter().any(|t| matches!(t, 11 | 12 | 20))
        {
            sh.hit(SIG_PLAIN_HS_FAILS_EST, 1);
            self.rec.label("rx:skipped-known-session-killer");
            return Ok(true);
        }
        for l in &b.labels {
            self.rec.label(l.clone());
        }
        sh.injections.fetch_add(1, Ordering::Relaxed);
        if !self.genuine_all.iter().any(|g| g[..] == b.dgram[..]) {
            self.novel += 1;
            sh.injections_novel.fetch_add(1, Ordering::Relaxed);
        }
        let src = third_party(b.src, self.peer_addr());
        self.sess.pair.inject(self.to, Bytes::from(b.dgram.clone()), src).await;
        let (delivered, end) = self.barrier().await;
        let state = self.sess.pair.end(self.to).dtls.get_state();
        let auth = analyze(&b.dgram, &self.env.peer_key);
        let ctx = |what: &str| -> String {
            format!(
                "{what}: injected into the {} endpoint ({}) from {}: {} ; datagram {}",
                if self.sess.is_client(self.to) { "client" } else { "server" },
                ph,
                src,
                b.desc,
                short_hex(&b.dgram)
            )
        };
        // 1. upper layer
        let mut legit = auth.app.clone();
        for d in &delivered {
            if let Some(i) = legit.iter().position(|p| p[..] == d[..]) {
                legit.swap_remove(i);
                self.rec.label("rx:authentic-delivered");
                continue;
            }
            let sig = if shp.plain_app_bodies.iter().any(|p| p[..] == d[..]) {
                sig_app.to_string()
            } else if shp.claimed_app_bodies.iter().any(|p| p[..] == d[..]) {
                format!("plaintext-protected-epoch-record-delivered({ph})")
            } else {
                format!("unauthenticated-payload-delivered({ph})")
            };
            if sh.is_known(&sig) {
                sh.hit(&sig, 1);
                self.rec.label("rx:tolerated-known-finding");
                continue;
            }
            return Err(Fail::new(
                sig,
                ctx(&format!("upper layer received {} bytes [{}] that no authenticated record carried", d.len(), short_hex(d))),
            ));
        }
        // 2. connection state
        let name = state_name(&state);
        if name != self.phase.expect_state() {
            if auth.other {
                return Ok(false);
            }
            let sig = if name == "Closed" && shp.plain_close_notify {
                sig_close.to_string()
            } else if name == "Closed" && shp.claimed_close_notify {
                format!("plaintext-protected-epoch-alert-acted-on({ph})")
            } else if name == "Failed" && !shp.plain_hs_types.is_empty() && self.phase == Phase::Established {
                SIG_PLAIN_HS_FAILS_EST.to_string()
            } else {
                format!("unauthenticated-record-changed-state({ph})")
            };
            if sh.is_known(&sig) {
                sh.hit(&sig, 1);
                return Ok(false);
            }
            return Err(Fail::new(sig, ctx(&format!("state went {} -> {}", self.phase.expect_state(), name))));
        }
        match end {
            BarEnd::Reached => Ok(true),
            BarEnd::MarkerRaw => Err(Fail::new(
                format!("sealed-record-delivered-undecrypted({ph})"),
                ctx("the authentic marker record sent after this injection reached the upper layer as its raw sealed body (explicit nonce || ciphertext || tag): a record claiming epoch 1 was handed up without being opened"),
            )),
            _ => Err(Fail::timing(
                "barrier-timeout",
                ctx("the barrier after the injection was not reached within 4 s although the state did not change"),
            )),
        }
    }
}

async fn recv_n(rx: &mut UnboundedReceiver<Bytes>, n: usize, limit: Duration) -> Vec<Bytes> {
    let mut out = Vec::new();
    let deadline = tokio::time::sleep(limit);
    tokio::pin!(deadline);
    while out.len() < n {
        tokio::select! {
            x = rx.recv() => match x { Some(b) => out.push(b), None => break },
            _ = &mut deadline => break,
        }
    }
    out
}

async fn recv_bytes(rx: &mut UnboundedReceiver<Bytes>, n: usize, limit: Duration) -> Vec<Bytes> {
    let mut out = Vec::new();
    let mut have = 0usize;
    let deadline = tokio::time::sleep(limit);
    tokio::pin!(deadline);
    while have < n {
        tokio::select! {
            x = rx.recv() => match x { Some(b) => { have += b.len(); out.push(b) }, None => break },
            _ = &mut deadline => break,
        }
    }
    out
}

fn protected_only(d: &[Bytes]) -> Vec<Vec<u8>> {
    d.iter()
        .filter(|b| wire::dtls_records(b).iter().any(|r| r.epoch >= 1))
        .map(|b| b.to_vec())
        .collect()
}

fn chunks_of(p: &[u8]) -> Vec<Vec<u8>> {
    p.chunks(1200).map(|c| c.to_vec()).collect()
}

pub async fn run_rx(c: RxCase, sh: Shared) -> (CaseRec, Check) {
    let rec = CaseRec::default();
    let res = rx_inner(&c, &sh, &rec).await;
    (rec, res)
}

async fn rx_inner(c: &RxCase, sh: &Shared, rec: &CaseRec) -> Check {
    let to = if c.to_a { Side::A } else { Side::B };
    let peer = to.other();
    // the peer's close_notify is held so that it can be mutated before it is delivered
    let hold = [(peer, DClass::Alert)];
    let mut sess = Sess::build(c.a_is_client, &hold, 40, 64, None).await?;
    let keys = sess.connected_keys(Duration::from_secs(10)).await?;
    let mut rx_to = sess.pair.end_mut(to).app_rx.take().unwrap();
    let mut rx_peer = sess.pair.end_mut(peer).app_rx.take().unwrap();
    let to_is_client = sess.is_client(to);
    rec.label(if to_is_client { "rx:target=client" } else { "rx:target=server" });

    // genuine traffic in both directions
    let mut want_to = Vec::new();
    let mut want_peer = Vec::new();
    for (i, len) in c.genuine.iter().enumerate() {
        let p = pattern(0x1000 + i as u16, *len as usize);
        want_to.extend(chunks_of(&p));
        sess.pair.end(peer).dtls.send(Bytes::from(p)).await.map_err(|e| Fail::new("send-failed", format!("{e}")))?;
        let q = pattern(0x2000 + i as u16, *len as usize);
        want_peer.extend(chunks_of(&q));
        sess.pair.end(to).dtls.send(Bytes::from(q)).await.map_err(|e| Fail::new("send-failed", format!("{e}")))?;
    }
    let bytes = |v: &Vec<Vec<u8>>| v.iter().map(|x| x.len()).sum::<usize>();
    let got_to = recv_bytes(&mut rx_to, bytes(&want_to), Duration::from_secs(6)).await;
    let got_peer = recv_bytes(&mut rx_peer, bytes(&want_peer), Duration::from_secs(6)).await;
    let blen = |v: &Vec<Bytes>| v.iter().map(|x| x.len()).sum::<usize>();
    if blen(&got_to) < bytes(&want_to) || blen(&got_peer) < bytes(&want_peer) {
        return Err(Fail::timing("genuine-delivery-incomplete", format!("{}/{} and {}/{} genuine payload bytes delivered", blen(&got_to), bytes(&want_to), blen(&got_peer), bytes(&want_peer))));
    }
    let cat = |v: &Vec<Bytes>| v.iter().flat_map(|x| x.iter().copied()).collect::<Vec<u8>>();
    let catv = |v: &Vec<Vec<u8>>| v.iter().flatten().copied().collect::<Vec<u8>>();
    if cat(&got_to) != catv(&want_to) || cat(&got_peer) != catv(&want_peer) {
        return Err(Fail::new("genuine-roundtrip-mismatch", "payload bytes delivered differ from the payloads sent (no injection yet)"));
    }

    let gen_to = protected_only(&sess.emitted(peer));
    let gen_own = protected_only(&sess.emitted(to));
    let mut genuine_all = gen_to.clone();
    genuine_all.extend(gen_own.iter().cloned());
    let env = Env {
        peer_key: Some(write_key(&keys, !to_is_client)),
        own_key: Some(write_key(&keys, to_is_client)),
        gen_to,
        gen_own,
        lim: Lim::default(),
    };
    let mut built = Vec::new();
    // plaintext claiming the current and a future epoch is part of every generated session
    // (the enumerated grid and the replays run exactly what they say)
    let prelude = if c.injs.len() >= 40 { claimed_epoch_prelude() } else { Vec::new() };
    for i in prelude.iter().chain(c.injs.iter()) {
        expand(i, &env, &mut built);
    }
    let mut t = Target {
        sess: &sess,
        to,
        rx: rx_to,
        phase: Phase::Established,
        barrier: Barrier::Marker,
        env,
        marker_n: 0,
        sh,
        rec,
        genuine_all,
        novel: 0,
    };
    let mut alive = true;
    for b in &built {
        if !t.inject(b).await? {
            alive = false;
            break;
        }
    }
    if t.novel > 0 {
        rec.nontrivial();
    }
    if !alive {
        rec.label("rx:session-ended-by-known-finding-or-authentic-record");
        return Ok(());
    }

    // the connection still works in both directions
    let live = b"C03-LIVE-after-injections".to_vec();
    sess.pair.end(peer).dtls.send(Bytes::from(live.clone())).await.map_err(|e| Fail::new("send-failed", format!("{e}")))?;
    let got = recv_n(&mut t.rx, 1, Duration::from_secs(5)).await;
    if got.len() != 1 {
        return Err(Fail::timing("receiver-dead-after-injections", "a genuine record sent after the injections was not delivered within 5 s"));
    }
    if got[0][..] != live[..] {
        return Err(Fail::new("unauthenticated-payload-delivered(established)", format!("after the injections the upper layer received [{}] instead of the genuine payload", short_hex(&got[0]))));
    }
    sess.pair.end(to).dtls.send(Bytes::from(live.clone())).await.map_err(|e| Fail::new("send-failed", format!("{e}")))?;
    let got = recv_n(&mut rx_peer, 1, Duration::from_secs(5)).await;
    if got.len() != 1 || got[0][..] != live[..] {
        return Err(Fail::timing("sender-dead-after-injections", "the injected endpoint could no longer send to its peer"));
    }

    if c.alert_flips {
        // genuine close_notify: held by the tap, mutated exhaustively, finally delivered
        sess.pair.end(peer).dtls.close();
        let t0 = tokio::time::Instant::now();
        let alert = loop {
            if let Some((_, b)) = sess.tap.lock().stash.iter().find(|(s, _)| *s == peer) {
                break Some(b.to_vec());
            }
            if t0.elapsed() > Duration::from_secs(5) {
                break None;
            }
            tokio::time::sleep(Duration::from_millis(1)).await;
        };
        let Some(alert) = alert else {
            return Err(Fail::timing("close-alert-not-captured", "peer close() did not put an alert datagram on the wire within 5 s"));
        };
        t.genuine_all.push(alert.clone());
        t.env.gen_to = vec![alert.clone()];
        let mut built = Vec::new();
        expand(&Inj::AllFlips { rec: 0 }, &t.env, &mut built);
        expand(&Inj::AllTruncs { rec: 0 }, &t.env, &mut built);
        rec.label("rx:genuine-close-notify-mutated");
        for b in &built {
            if !t.inject(b).await? {
                return Ok(());
            }
        }
        // control: the genuine alert itself is honoured (shows the state oracle can see a close)
        let addr = t.peer_addr();
        sess.pair.inject(to, Bytes::from(alert), addr).await;
        let _ = t.barrier().await;
        if state_name(&sess.pair.end(to).dtls.get_state()) == "Closed" {
            rec.label("rx:control-genuine-close-notify-honoured");
        } else {
            rec.label("rx:control-genuine-close-notify-ignored");
        }
    }
    drop(t);
    let _ = &mut sess;
    Ok(())
}

pub async fn run_mid(c: MidCase, sh: Shared) -> (CaseRec, Check) {
    let rec = CaseRec::default();
    let res = mid_inner(&c, &sh, &rec).await;
    (rec, res)
}

async fn mid_inner(c: &MidCase, sh: &Shared, rec: &CaseRec) -> Check {
    let client = if c.a_is_client { Side::A } else { Side::B };
    let server = client.other();
    let (hold_side, target) = match c.hold {
        Hold::ServerFinal => (server, client),
        Hold::ClientFinal => (client, server),
    };
    let peer = target.other();
    let hold = [(hold_side, DClass::ChangeCipherSpec), (hold_side, DClass::Finished)];
    // long retransmit interval: the frozen handshake must not be restarted by timers
    let mut sess = Sess::build(c.a_is_client, &hold, 260, 16, Some((Duration::from_secs(12), Duration::from_secs(40)))).await?;
    let t0 = tokio::time::Instant::now();
    loop {
        if sess.tap.lock().stash.len() >= 2 {
            break;
        }
        if t0.elapsed() > Duration::from_secs(8) {
            return Err(Fail::timing("hold-missed", format!("handshake did not reach the held flight within 8 s ({:?})", c.hold)));
        }
        tokio::time::sleep(Duration::from_millis(1)).await;
    }
    let rx_t = sess.pair.end_mut(target).app_rx.take().unwrap();
    let mut rx_p = sess.pair.end_mut(peer).app_rx.take().unwrap();
    let (peer_key, own_key, barrier, lim) = match c.hold {
        Hold::ServerFinal => {
            // the server is Connected already: its state carries the negotiated keys
            // the server reports Connected right after handing its final flight to the socket
            let w0 = tokio::time::Instant::now();
            let keys = loop {
                match sess.pair.end(server).dtls.get_state() {
                    rustrtc::transports::dtls::DtlsState::Connected(k, _) => break k.keys.clone(),
                    s if w0.elapsed() > Duration::from_secs(5) => {
                        return Err(Fail::timing("hold-state-unexpected", format!("server is {} 5 s after sending its final flight", state_name(&s))));
                    }
                    _ => tokio::time::sleep(Duration::from_micros(200)).await,
                }
            };
            (
                Some(write_key(&keys, false)),
                Some(write_key(&keys, true)),
                Barrier::Marker,
                Lim { hs_seq_below: Some(4), no_client_hello: false, no_lead: true },
            )
        }
        Hold::ClientFinal => (None, None, Barrier::Echo, Lim { hs_seq_below: Some(2), no_client_hello: true, no_lead: true }),
    };
    rec.label(match c.hold {
        Hold::ServerFinal => "mid:target=client-awaiting-server-finished",
        Hold::ClientFinal => "mid:target=server-awaiting-client-finished",
    });
    let st = sess.pair.end(target).dtls.get_state();
    if state_name(&st) != "Handshaking" {
        return Err(Fail::timing("hold-state-unexpected", format!("target is {} while its peer's final flight is held", state_name(&st))));
    }
    let env = Env { peer_key, own_key, gen_to: Vec::new(), gen_own: Vec::new(), lim };
    let mut built = Vec::new();
    // generated cases carry >= 10 injections; hand-reduced replays run exactly what they say
    let prelude = if c.injs.len() >= 10 { claimed_epoch_prelude() } else { Vec::new() };
    for i in prelude.iter().chain(c.injs.iter()) {
        if matches!(i, Inj::Crafted { .. }) {
            expand(i, &env, &mut built);
        }
    }
    let genuine_all: Vec<Vec<u8>> = sess.tap.lock().all.iter().map(|(_, b)| b.to_vec()).collect();
    let mut t = Target {
        sess: &sess,
        to: target,
        rx: rx_t,
        phase: Phase::Handshaking,
        barrier,
        env,
        marker_n: 0,
        sh,
        rec,
        genuine_all,
        novel: 0,
    };
    // make sure everything delivered so far (e.g. ClientKeyExchange) has been processed. Only the echo
    // barrier needs this; the marker barrier is itself a record claiming epoch 1 and comes after the
    // first injection.
    if matches!(t.barrier, Barrier::Echo) {
        let (pre, end) = t.barrier().await;
        if let Some(d) = pre.first() {
            return Err(Fail::new(
                "unauthenticated-payload-delivered(handshaking)",
                format!("before any injection and before the handshake completed the upper layer received {} item(s), first {} bytes [{}]: nothing authenticated has been sent yet", pre.len(), d.len(), short_hex(d)),
            ));
        }
        if !matches!(end, BarEnd::Reached) {
            return Err(Fail::timing("hold-barrier-failed", "initial barrier not reached within 4 s and nothing was delivered"));
        }
    }
    let mut alive = true;
    for b in &built {
        if !t.inject(b).await? {
            alive = false;
            break;
        }
    }
    if t.novel > 0 {
        rec.nontrivial();
    }
    if !alive {
        rec.label("mid:session-ended-by-known-finding");
        return Ok(());
    }
    // release the held flight
    let stash: Vec<Bytes> = sess.tap.lock().stash.iter().map(|(_, b)| b.clone()).collect();
    let addr = t.peer_addr();
    for b in stash {
        sess.pair.inject(target, b, addr).await;
    }
    let (sa, sb) = sess.pair.wait_dtls(Duration::from_secs(10)).await;
    if state_name(&sa) != "Connected" || state_name(&sb) != "Connected" {
        return Err(Fail::timing(
            "handshake-failed-after-unauthenticated-records",
            format!("after releasing the held flight: A={} B={} ({:?}, {} injections)", state_name(&sa), state_name(&sb), c.hold, built.len()),
        ));
    }
    let p1 = b"C03-MID-peer-to-target".to_vec();
    let p2 = b"C03-MID-target-to-peer".to_vec();
    sess.pair.end(peer).dtls.send(Bytes::from(p1.clone())).await.map_err(|e| Fail::new("send-failed", format!("{e}")))?;
    sess.pair.end(target).dtls.send(Bytes::from(p2.clone())).await.map_err(|e| Fail::new("send-failed", format!("{e}")))?;
    let g1 = recv_n(&mut t.rx, 1, Duration::from_secs(5)).await;
    let g2 = recv_n(&mut rx_p, 1, Duration::from_secs(5)).await;
    if g1.len() != 1 || g2.len() != 1 {
        return Err(Fail::timing("no-data-after-release", "genuine data did not flow after the handshake completed"));
    }
    if g1[0][..] != p1[..] || g2[0][..] != p2[..] {
        return Err(Fail::new(
            "unauthenticated-payload-delivered(handshaking)",
            format!("first payloads after the handshake are [{}] / [{}] instead of the genuine ones", short_hex(&g1[0]), short_hex(&g2[0])),
        ));
    }
    drop(t);
    let _ = &mut sess;
    Ok(())
}
