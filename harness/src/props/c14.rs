//! C14 - SRTP-mandatory modes never send or accept cleartext media.
//!
//! Engine 1 (this file): an `RtpTransport::new(conn, true)` over an `IceConn` whose socket is a real
//! loopback UDP socket and whose remote address is a harness capture socket. Generated op sequences
//! (<= 25) are interpreted one op at a time (`seq-ops`) or split over 2-4 tasks released on a barrier
//! (`racing-ops`). Everything that reaches a capture socket, a listener channel, the RTCP listener,
//! an `RtpObserver` or a bridge target's capture socket is judged with the independent SRTP model
//! `refimpl::srtp` and the harness' own RTP/RTCP byte builders.
//!
//! Cross-mode bridges: auxiliary plain source transports (`srtp_required = false`) bridge INTO the required
//! transport under test / required targets and receive cleartext; the required leg must still only emit
//! datagrams protected under its own key, after its own keys.
//!
//! Engine 2 (`c14_pc.rs`): two PeerConnections (DTLS-SRTP and SDES) through a harness proxy.

use crate::engine::{AsyncCheck, CaseRec, Check, Ctx, Fail};
use crate::refimpl::rtpwire::{self, RtpFields};
use crate::refimpl::srtp::{self as rs, Profile, RocState, Srtp};
use bytes::Bytes;
use parking_lot::Mutex;
use proptest::prelude::*;
use rustrtc::peer_connection::RtpObserver;
use rustrtc::rtp::{
    GenericNack, Goodbye, PictureLossIndication, ReceiverReport, RtcpPacket, RtpHeader, RtpHeaderExtension,
    RtpPacket, SenderReport,
};
use rustrtc::srtp::{SrtpKeyingMaterial, SrtpProfile, SrtpSession};
use rustrtc::transports::PacketReceiver;
use rustrtc::transports::ice::IceSocketWrapper;
use rustrtc::transports::ice::conn::IceConn;
use rustrtc::transports::rtp::{
    RtpRewriteBridgeOptions, RtpRewriteBridgeParams, RtpRewriteRule, RtpTransport,
};
use serde::{Deserialize, Serialize};
use sha1::{Digest, Sha1};
use std::collections::HashMap;
use std::net::SocketAddr;
use std::sync::Arc;
use tokio::sync::{mpsc, watch};

// ---------------------------------------------------------------------------------------------
// keys
// ---------------------------------------------------------------------------------------------

/// Key set `ks`: profile = ks % 3, master keys derived from SHA-1 of a label (deterministic, all distinct).
pub fn ks_profile(ks: u8) -> Profile {
    match ks % 3 {
        0 => Profile::AesCm128HmacSha1_80,
        1 => Profile::AesCm128HmacSha1_32,
        _ => Profile::AeadAes128Gcm,
    }
}

fn sut_profile(p: Profile) -> SrtpProfile {
    match p {
        Profile::AesCm128HmacSha1_80 => SrtpProfile::Aes128Sha1_80,
        Profile::AesCm128HmacSha1_32 => SrtpProfile::Aes128Sha1_32,
        Profile::AeadAes128Gcm => SrtpProfile::AeadAes128Gcm,
        Profile::NullHmacSha1_80 => SrtpProfile::NullCipherHmac,
    }
}

/// (master key, master salt) of direction `dir` (0 = the transport's tx, 1 = its rx) of owner `who`
/// (0 = transport under test, 1.. = bridge targets, 99 = never installed anywhere).
fn key_material(who: u8, ks: u8, dir: u8, salt_len: usize) -> (Vec<u8>, Vec<u8>) {
    let mut out = Vec::new();
    let mut ctr = 0u8;
    while out.len() < 16 + salt_len {
        let mut h = Sha1::new();
        h.update(b"C14-key");
        h.update([who, ks, dir, ctr]);
        out.extend_from_slice(&h.finalize());
        ctr += 1;
    }
    (out[..16].to_vec(), out[16..16 + salt_len].to_vec())
}

#[derive(Clone)]
struct KeySet {
    ks: u8,
    tx: Srtp,
    rx: Srtp,
}

fn keyset(who: u8, ks: u8) -> KeySet {
    let profile = ks_profile(ks);
    let (tk, ts) = key_material(who, ks, 0, profile.salt_len());
    let (rk, rsalt) = key_material(who, ks, 1, profile.salt_len());
    KeySet {
        ks,
        tx: Srtp::new(profile, &tk, &ts).expect("ref keys"),
        rx: Srtp::new(profile, &rk, &rsalt).expect("ref keys"),
    }
}

fn sut_session(who: u8, ks: u8) -> SrtpSession {
    let profile = ks_profile(ks);
    let (tk, ts) = key_material(who, ks, 0, profile.salt_len());
    let (rk, rsalt) = key_material(who, ks, 1, profile.salt_len());
    SrtpSession::new(
        sut_profile(profile),
        SrtpKeyingMaterial::new(tk, ts),
        SrtpKeyingMaterial::new(rk, rsalt),
    )
    .expect("srtp session")
}

// ---------------------------------------------------------------------------------------------
// case description
// ---------------------------------------------------------------------------------------------

pub const SSRCS: [u32; 3] = [0x1111_0001, 0x2222_0002, 0xFFFF_FFF3];

#[derive(Clone, Debug, Serialize, Deserialize, PartialEq)]
pub struct Pkt {
    pub ssrc_ix: u8,
    pub seq: u16,
    pub ts: u32,
    pub pt: u8,
    pub marker: bool,
    pub csrcs: u8,
    pub ext: bool,
    pub pad: u8,
    pub len: u8,
    pub fill: u8,
}

#[derive(Clone, Copy, Debug, Serialize, Deserialize, PartialEq)]
pub enum RtcpKind {
    Rr,
    Sr,
    Pli,
    Nack,
    Bye,
    RrPli,
}

/// Which key an inbound protected datagram is produced under.
#[derive(Clone, Copy, Debug, Serialize, Deserialize, PartialEq)]
pub enum KeySel {
    /// the rx key of the key set installed at that moment (racing: of the first StartSrtp of the list)
    Current,
    /// the rx key of key set `k` (genuine only if that is the installed one)
    Set(u8),
    /// the transport's own tx key (a reflected packet)
    Tx,
    /// a key never installed anywhere
    Unrelated,
}

#[derive(Clone, Copy, Debug, Serialize, Deserialize, PartialEq)]
pub enum Target {
    /// srtp_required, no keys until a TargetKeys op
    ReqNoKeys,
    /// srtp_required, keys from the start
    ReqKeys,
    /// control: not required, no keys until a TargetKeys op (cleartext relay is legitimate)
    PlainNoKeys,
    /// not required but keyed from the start
    PlainKeys,
    /// the transport itself (PeerConnection::bridge_rtp_with_rewrite_to_self)
    Myself,
}

const TARGETS: [Target; 5] =
    [Target::ReqNoKeys, Target::ReqKeys, Target::PlainNoKeys, Target::PlainKeys, Target::Myself];

fn target_ix(t: Target) -> usize {
    TARGETS.iter().position(|x| *x == t).unwrap()
}

#[derive(Clone, Debug, Serialize, Deserialize, PartialEq)]
pub struct BridgeCfg {
    pub rules_api: bool,
    pub fixed_ssrc: Option<u32>,
    pub ssrc_offset: u32,
    pub out_pt: Option<u8>,
    pub dtmf: Option<(u8, u8)>,
    pub init_seq: Option<u16>,
    pub init_ts: Option<u32>,
    pub strip_ext: bool,
    pub mid: bool,
    /// bridge_rewrite_rules_to_with_video: packets with PT 96 go to this second target
    #[serde(default)]
    pub video_to: Option<Target>,
}

#[derive(Clone, Debug, Serialize, Deserialize, PartialEq)]
pub enum Op {
    StartSrtp { ks: u8 },
    SendRaw { p: Pkt },
    /// `send` of bytes that are not RTP (garbage / RTCP-looking / short)
    SendRawBytes {
        #[serde(with = "crate::engine::hexbytes")]
        b: Vec<u8>,
    },
    SendRtp { p: Pkt },
    SendRtcp { kind: RtcpKind, ssrc_ix: u8 },
    SendRtcpSync { ssrc_ix: u8, reason: bool },
    RecvClearRtp { p: Pkt, via_conn: bool },
    RecvClearRtcp { kind: RtcpKind, ssrc_ix: u8, via_conn: bool },
    RecvProtRtp { p: Pkt, key: KeySel, tamper: Option<u16>, via_conn: bool },
    RecvProtRtcp { kind: RtcpKind, ssrc_ix: u8, key: KeySel, tamper: Option<u16>, index: u32, via_conn: bool },
    /// feed the most recent datagram the transport itself emitted back into it
    RecvReflected { via_conn: bool },
    Bridge { to: Target, cfg: BridgeCfg },
    ClearBridge,
    ClearListeners,
    RegisterListeners,
    TargetKeys { to: Target, ks: u8 },
    /// auxiliary PLAIN source `src` (srtp_required = false, own IceConn/socket) installs a rewrite bridge INTO
    /// `to`; here `Target::Myself` means the SRTP-required transport under test (cross-mode bridge)
    AuxBridge { src: u8, to: Target, cfg: BridgeCfg },
    AuxClearBridge { src: u8 },
    /// cleartext RTP arrives on the plain source (legitimate on that leg)
    AuxRecvClearRtp { src: u8, p: Pkt, via_conn: bool },
    AuxRecvClearRtcp { src: u8, kind: RtcpKind, ssrc_ix: u8, via_conn: bool },
}

pub const N_AUX: usize = 2;

#[derive(Clone, Debug, Serialize, Deserialize)]
pub struct Case {
    pub ops: Vec<Op>,
    /// racing mode: task of op i is `tasks[i] % n_tasks`
    pub n_tasks: u8,
    pub tasks: Vec<u8>,
}

// ---------------------------------------------------------------------------------------------
// byte builders (harness-owned)
// ---------------------------------------------------------------------------------------------

const TAG0: u8 = 0xC1;
const TAG1: u8 = 0x4E;

/// Payload of the RTP packet of op `idx`: a 4-byte tag naming the op, then filler.
fn payload(idx: usize, p: &Pkt) -> Vec<u8> {
    let mut v = vec![TAG0, TAG1, idx as u8, !(idx as u8)];
    v.extend(std::iter::repeat(p.fill).take(p.len as usize));
    v
}

fn tag_of(payload: &[u8]) -> Option<usize> {
    if payload.len() >= 4 && payload[0] == TAG0 && payload[1] == TAG1 && payload[3] == !payload[2] {
        Some(payload[2] as usize)
    } else {
        None
    }
}

fn ext_block(idx: usize) -> Vec<u8> {
    rtpwire::one_byte_block(&[rtpwire::Elem { id: 5, data: vec![idx as u8, 0xEE, 0x01] }], &[])
}

fn rtp_bytes(idx: usize, p: &Pkt, marker: bool) -> Vec<u8> {
    let csrcs: Vec<u32> = (0..p.csrcs.min(3)).map(|i| 0xC5C0_0000 + i as u32).collect();
    let ext = ext_block(idx);
    rtpwire::rtp_packet(&RtpFields {
        marker,
        pt: p.pt & 0x7f,
        seq: p.seq,
        ts: p.ts,
        ssrc: SSRCS[p.ssrc_ix as usize % 3],
        csrcs: &csrcs,
        ext: if p.ext { Some((0xBEDE, &ext)) } else { None },
        payload: &payload(idx, p),
        padding: p.pad,
        pad_fill: p.pad,
    })
}

fn rtp_struct(idx: usize, p: &Pkt) -> RtpPacket {
    let mut h = RtpHeader::new(p.pt & 0x7f, p.seq, p.ts, SSRCS[p.ssrc_ix as usize % 3]);
    h.marker = p.marker;
    h.csrcs = (0..p.csrcs.min(3)).map(|i| 0xC5C0_0000 + i as u32).collect();
    if p.ext {
        h.extension = Some(RtpHeaderExtension::new(0xBEDE, ext_block(idx)));
    }
    let mut pk = RtpPacket::new(h, payload(idx, p));
    pk.padding_len = p.pad;
    pk
}

/// The 32-bit word that names op `idx` inside an RTCP packet.
fn rtcp_tagword(idx: usize) -> u32 {
    0xC14E_0000 | ((idx as u32) << 8) | (!(idx as u8)) as u32
}

fn rtcp_tag_of(word: u32) -> Option<usize> {
    if word >> 16 == 0xC14E && ((word >> 8) as u8) == !(word as u8) {
        Some(((word >> 8) & 0xff) as usize)
    } else {
        None
    }
}

fn rtcp_hdr(b: &mut Vec<u8>, count: u8, pt: u8, words_minus_one: u16) {
    b.push(0x80 | (count & 0x1f));
    b.push(pt);
    b.extend_from_slice(&words_minus_one.to_be_bytes());
}

/// Own RTCP encodings (RFC 3550 6.4.1/6.4.2/6.6, RFC 4585 6.2.1/6.3.1). The op index is carried in
/// a field that survives parsing: media SSRC (PLI/NACK), RTP timestamp (SR), second source (BYE/RR).
fn rtcp_bytes(idx: usize, kind: RtcpKind, ssrc: u32, reason: bool) -> Vec<u8> {
    let tag = rtcp_tagword(idx);
    let mut b = Vec::new();
    match kind {
        RtcpKind::Rr | RtcpKind::RrPli => {
            // one report block whose SSRC field is the tag
            rtcp_hdr(&mut b, 1, 201, 7);
            b.extend_from_slice(&ssrc.to_be_bytes());
            b.extend_from_slice(&tag.to_be_bytes());
            b.extend_from_slice(&[0; 20]);
            if kind == RtcpKind::RrPli {
                rtcp_hdr(&mut b, 1, 206, 2);
                b.extend_from_slice(&ssrc.to_be_bytes());
                b.extend_from_slice(&tag.to_be_bytes());
            }
        }
        RtcpKind::Sr => {
            rtcp_hdr(&mut b, 0, 200, 6);
            b.extend_from_slice(&ssrc.to_be_bytes());
            b.extend_from_slice(&[0, 0, 0, 1, 0, 0, 0, 2]);
            b.extend_from_slice(&tag.to_be_bytes());
            b.extend_from_slice(&7u32.to_be_bytes());
            b.extend_from_slice(&700u32.to_be_bytes());
        }
        RtcpKind::Pli => {
            rtcp_hdr(&mut b, 1, 206, 2);
            b.extend_from_slice(&ssrc.to_be_bytes());
            b.extend_from_slice(&tag.to_be_bytes());
        }
        RtcpKind::Nack => {
            rtcp_hdr(&mut b, 1, 205, 3);
            b.extend_from_slice(&ssrc.to_be_bytes());
            b.extend_from_slice(&tag.to_be_bytes());
            b.extend_from_slice(&(idx as u16 + 100).to_be_bytes());
            b.extend_from_slice(&0u16.to_be_bytes());
        }
        RtcpKind::Bye => {
            if reason {
                // "op" + 1 digit-ish byte, padded to 32 bits: len byte + 3 text bytes
                rtcp_hdr(&mut b, 2, 203, 3);
                b.extend_from_slice(&ssrc.to_be_bytes());
                b.extend_from_slice(&tag.to_be_bytes());
                b.extend_from_slice(&[3, b'b', b'y', b'e']);
            } else {
                rtcp_hdr(&mut b, 2, 203, 2);
                b.extend_from_slice(&ssrc.to_be_bytes());
                b.extend_from_slice(&tag.to_be_bytes());
            }
        }
    }
    b
}

fn rtcp_structs(idx: usize, kind: RtcpKind, ssrc: u32, reason: bool) -> Vec<RtcpPacket> {
    let tag = rtcp_tagword(idx);
    let rr = || {
        RtcpPacket::ReceiverReport(ReceiverReport {
            sender_ssrc: ssrc,
            report_blocks: vec![rustrtc::rtp::ReportBlock {
                ssrc: tag,
                fraction_lost: 0,
                packets_lost: 0,
                highest_sequence: 0,
                jitter: 0,
                last_sender_report: 0,
                delay_since_last_sender_report: 0,
            }],
        })
    };
    let pli = || RtcpPacket::PictureLossIndication(PictureLossIndication { sender_ssrc: ssrc, media_ssrc: tag });
    match kind {
        RtcpKind::Rr => vec![rr()],
        RtcpKind::RrPli => vec![rr(), pli()],
        RtcpKind::Sr => vec![RtcpPacket::SenderReport(SenderReport {
            sender_ssrc: ssrc,
            ntp_most: 1,
            ntp_least: 2,
            rtp_timestamp: tag,
            packet_count: 7,
            octet_count: 700,
            report_blocks: vec![],
        })],
        RtcpKind::Pli => vec![pli()],
        RtcpKind::Nack => vec![RtcpPacket::GenericNack(GenericNack {
            sender_ssrc: ssrc,
            media_ssrc: tag,
            lost_packets: vec![idx as u16 + 100],
        })],
        RtcpKind::Bye => vec![RtcpPacket::Goodbye(Goodbye {
            sources: vec![ssrc, tag],
            reason: if reason { Some("bye".to_string()) } else { None },
        })],
    }
}

/// Which op does a delivered / decrypted RTCP compound name (scan every 32-bit word).
fn rtcp_find_tag(plain: &[u8]) -> Option<usize> {
    plain.chunks_exact(4).find_map(|w| rtcp_tag_of(u32::from_be_bytes([w[0], w[1], w[2], w[3]])))
}

fn rtcp_structs_tag(pkts: &[RtcpPacket]) -> Option<usize> {
    for p in pkts {
        let words: Vec<u32> = match p {
            RtcpPacket::ReceiverReport(r) => r.report_blocks.iter().map(|b| b.ssrc).collect(),
            RtcpPacket::SenderReport(s) => vec![s.rtp_timestamp],
            RtcpPacket::PictureLossIndication(p) => vec![p.media_ssrc],
            RtcpPacket::GenericNack(n) => vec![n.media_ssrc],
            RtcpPacket::Goodbye(g) => g.sources.clone(),
            _ => vec![],
        };
        if let Some(t) = words.into_iter().find_map(rtcp_tag_of) {
            return Some(t);
        }
    }
    None
}

// ---------------------------------------------------------------------------------------------
// rig
// ---------------------------------------------------------------------------------------------

#[derive(Default)]
struct Obs {
    ingress: Mutex<Vec<RtpPacket>>,
    egress: Mutex<Vec<RtpPacket>>,
}

impl RtpObserver for Obs {
    fn on_ingress(&self, packet: &RtpPacket, _src: SocketAddr) {
        self.ingress.lock().push(packet.clone());
    }
    fn on_egress(&self, packet: &RtpPacket, _dst: SocketAddr) {
        self.egress.lock().push(packet.clone());
    }
}

struct Node {
    t: Arc<RtpTransport>,
    conn: Arc<IceConn>,
    /// harness capture socket (= the node's remote address); std socket in non-blocking mode so a
    /// drain after an op reads straight from the kernel queue (loopback delivery is synchronous).
    peer: std::net::UdpSocket,
    peer_addr: SocketAddr,
    /// the node's own socket: the only legitimate source of what the capture socket reads
    sock_addr: SocketAddr,
    strays: std::sync::atomic::AtomicU32,
    obs: Arc<Obs>,
    _sock_tx: watch::Sender<Option<IceSocketWrapper>>,
}

impl Node {
    async fn new(required: bool, label: &str) -> Node {
        let peer = std::net::UdpSocket::bind("127.0.0.1:0").expect("bind capture");
        peer.set_nonblocking(true).expect("nonblocking");
        let peer_addr = peer.local_addr().unwrap();
        let sock = Arc::new(tokio::net::UdpSocket::bind("127.0.0.1:0").await.expect("bind"));
        let sock_addr = sock.local_addr().unwrap();
        let (tx, rx) = watch::channel(Some(IceSocketWrapper::Udp(sock)));
        let conn = IceConn::new(rx, peer_addr, Some(label.to_string()));
        let t = Arc::new(RtpTransport::new(conn.clone(), required));
        conn.set_rtp_receiver(t.clone());
        let obs = Arc::new(Obs::default());
        t.add_observer(obs.clone());
        Node { t, conn, peer, peer_addr, sock_addr, strays: std::sync::atomic::AtomicU32::new(0), obs, _sock_tx: tx }
    }

    fn drain(&self) -> Vec<Vec<u8>> {
        let mut out = Vec::new();
        let mut buf = [0u8; 4096];
        loop {
            match self.peer.recv_from(&mut buf) {
                // other processes on this machine may hit a recycled ephemeral port: not ours, not judged
                Ok((n, src)) if src == self.sock_addr => out.push(buf[..n].to_vec()),
                Ok(_) => {
                    self.strays.fetch_add(1, std::sync::atomic::Ordering::Relaxed);
                }
                Err(_) => break,
            }
        }
        out
    }
}

struct Sinks {
    prov_rx: mpsc::Receiver<(RtpPacket, SocketAddr)>,
    ssrc_rx: mpsc::Receiver<(RtpPacket, SocketAddr)>,
    rtcp_rx: mpsc::Receiver<Vec<RtcpPacket>>,
    prov_tx: mpsc::Sender<(RtpPacket, SocketAddr)>,
    ssrc_tx: mpsc::Sender<(RtpPacket, SocketAddr)>,
    rtcp_tx: mpsc::Sender<Vec<RtcpPacket>>,
}

impl Sinks {
    fn new() -> Sinks {
        let (prov_tx, prov_rx) = mpsc::channel(256);
        let (ssrc_tx, ssrc_rx) = mpsc::channel(256);
        let (rtcp_tx, rtcp_rx) = mpsc::channel(256);
        Sinks { prov_rx, ssrc_rx, rtcp_rx, prov_tx, ssrc_tx, rtcp_tx }
    }
    fn register(&self, t: &RtpTransport) {
        t.register_provisional_listener(self.prov_tx.clone());
        t.register_listener_sync(SSRCS[1], self.ssrc_tx.clone());
        t.register_rtcp_listener(self.rtcp_tx.clone());
    }
}

// ---------------------------------------------------------------------------------------------
// interpretation
// ---------------------------------------------------------------------------------------------

/// What the harness knows about the input it fed with op `idx`.
#[derive(Clone, Debug, PartialEq)]
enum InClass {
    Genuine,
    /// protected under the right key but fed while no key was installed
    BeforeKeys,
    ClearRtp,
    ClearRtcp,
    WrongKey,
    Tampered,
    Reflected,
    /// cleartext fed to a plain (srtp_required = false) source leg: legitimate there; whatever a
    /// required leg makes of it must be protected under that leg's own key
    PlainLeg,
    /// cleartext RTCP fed to a plain source leg: never relayed by the bridge
    PlainLegRtcp,
}

impl InClass {
    fn name(&self) -> &'static str {
        match self {
            InClass::Genuine => "genuine",
            InClass::BeforeKeys => "protected-before-keys",
            InClass::ClearRtp => "cleartext-rtp",
            InClass::ClearRtcp => "cleartext-rtcp",
            InClass::WrongKey => "wrongkey",
            InClass::Tampered => "tampered",
            InClass::Reflected => "reflected",
            InClass::PlainLeg => "plain-leg-rtp",
            InClass::PlainLegRtcp => "plain-leg-rtcp",
        }
    }
}

#[derive(Clone, Debug)]
struct InInfo {
    class: InClass,
    /// plain RTP bytes (or RTCP compound) the datagram was made from
    plain: Vec<u8>,
    rtcp: bool,
}

#[derive(Clone, Debug)]
struct OutInfo {
    name: &'static str,
    /// acceptable plaintexts
    expect: Vec<Vec<u8>>,
    used: bool,
}

fn set_marker(mut b: Vec<u8>) -> Vec<u8> {
    if b.len() > 1 {
        b[1] |= 0x80;
    }
    b
}

/// Try to open `d` under `k` as SRTP (any plausible ROC) or SRTCP.
fn open_under(k: &Srtp, d: &[u8]) -> Option<Vec<u8>> {
    let rocs = (0u32..40).chain((1u32..6).map(|x| 0u32.wrapping_sub(x)));
    if let Some((_, p)) = k.unprotect_rtp_any_roc(d, rocs) {
        return Some(p);
    }
    k.unprotect_rtcp(d).ok().map(|r| r.packet)
}

/// Payload of a plain RTP packet (harness' own header walk; padding removed).
fn plain_rtp_payload(p: &[u8]) -> Option<Vec<u8>> {
    let hl = rs::rtp_header_len(p)?;
    let mut end = p.len();
    if p[0] & 0x20 != 0 {
        let n = *p.last()? as usize;
        if n == 0 || hl + n > end {
            return None;
        }
        end -= n;
    }
    Some(p[hl..end].to_vec())
}

fn apply_bridge(t: &RtpTransport, dst: Arc<RtpTransport>, video_dst: Option<Arc<RtpTransport>>, cfg: &BridgeCfg) {
    let params = RtpRewriteBridgeParams {
        ssrc_offset: cfg.ssrc_offset,
        fixed_out_ssrc: cfg.fixed_ssrc,
        payload_type: cfg.out_pt.map(|x| x & 0x7f),
        dtmf_payload_type: cfg.dtmf.map(|(a, b)| (a & 0x7f, b & 0x7f)),
        initial_sequence_number: cfg.init_seq,
        initial_timestamp_offset: cfg.init_ts,
        strip_extensions: cfg.strip_ext,
    };
    if cfg.rules_api {
        let mut rules = RtpRewriteRule::from_params(params);
        if cfg.mid {
            for r in rules.iter_mut() {
                r.sdes_mid_extension_id = Some(3);
                r.sdes_mid = Some("1".to_string());
            }
        }
        let options = RtpRewriteBridgeOptions {
            strip_extensions: cfg.strip_ext,
            initial_sequence_number: cfg.init_seq,
            initial_timestamp_offset: cfg.init_ts,
            initial_output_timestamp: if cfg.mid { cfg.init_ts } else { None },
        };
        match video_dst {
            Some(v) => t.bridge_rewrite_rules_to_with_video(dst, Some(v), [96u8].into_iter().collect(), options, rules),
            None => t.bridge_rewrite_rules_to(dst, options, rules),
        }
    } else {
        t.bridge_rewrite_to(dst, params);
    }
}

/// The prepared action of one op (everything that depends on harness state resolved).
enum Act {
    Start(u8),
    SendRaw(Vec<u8>),
    SendRtp(RtpPacket),
    SendRtcp(Vec<RtcpPacket>),
    SendRtcpSync(Vec<RtcpPacket>),
    Recv(Vec<u8>, bool),
    Bridge(Target, BridgeCfg),
    ClearBridge,
    ClearListeners,
    RegisterListeners,
    TargetKeys(Target, u8),
    AuxBridge(usize, Target, BridgeCfg),
    AuxClearBridge(usize),
    AuxRecv(usize, Vec<u8>, bool),
    Nothing,
}

struct World {
    t: Node,
    targets: Vec<Node>,
    /// plain source legs (srtp_required = false, never keyed)
    aux: Vec<Node>,
    sinks: Sinks,
}

impl World {
    async fn new() -> World {
        let t = Node::new(true, "T").await;
        let mut targets = Vec::new();
        for (i, tg) in TARGETS.iter().enumerate() {
            match tg {
                Target::Myself => {}
                _ => {
                    let required = matches!(tg, Target::ReqNoKeys | Target::ReqKeys);
                    let n = Node::new(required, "target").await;
                    if matches!(tg, Target::ReqKeys | Target::PlainKeys) {
                        n.t.start_srtp(sut_session(1 + i as u8, 0));
                    }
                    targets.push(n);
                }
            }
        }
        let mut aux = Vec::new();
        for _ in 0..N_AUX {
            aux.push(Node::new(false, "plain-src").await);
        }
        let sinks = Sinks::new();
        sinks.register(&t.t);
        World { t, targets, aux, sinks }
    }

    fn target_transport(&self, tg: Target) -> Arc<RtpTransport> {
        match tg {
            Target::Myself => self.t.t.clone(),
            _ => self.targets[target_ix(tg)].t.clone(),
        }
    }

    async fn perform(&self, act: Act, buf: &mut Vec<u8>) {
        match act {
            Act::Start(ks) => self.t.t.start_srtp(sut_session(0, ks)),
            Act::SendRaw(b) => {
                let _ = self.t.t.send(&b).await;
            }
            Act::SendRtp(p) => {
                let _ = self.t.t.send_rtp(p).await;
            }
            Act::SendRtcp(ps) => {
                let _ = self.t.t.send_rtcp(&ps).await;
            }
            Act::SendRtcpSync(ps) => self.t.t.send_rtcp_sync(&ps),
            Act::Recv(b, via_conn) => {
                if via_conn {
                    self.t.conn.receive(Bytes::from(b), self.t.peer_addr, buf).await;
                } else {
                    self.t.t.receive(Bytes::from(b), self.t.peer_addr, buf).await;
                }
            }
            Act::Bridge(tg, cfg) => {
                let v = cfg.video_to.map(|x| self.target_transport(x));
                apply_bridge(&self.t.t, self.target_transport(tg), v, &cfg)
            }
            Act::ClearBridge => self.t.t.clear_bridge_rewrite(),
            Act::ClearListeners => {
                self.t.t.clear_listeners();
            }
            Act::RegisterListeners => self.sinks.register(&self.t.t),
            Act::TargetKeys(tg, ks) => {
                if tg != Target::Myself {
                    self.targets[target_ix(tg)].t.start_srtp(sut_session(1 + target_ix(tg) as u8, ks));
                }
            }
            Act::AuxBridge(src, tg, cfg) => {
                let v = cfg.video_to.map(|x| self.target_transport(x));
                apply_bridge(&self.aux[src % N_AUX].t, self.target_transport(tg), v, &cfg)
            }
            Act::AuxClearBridge(src) => self.aux[src % N_AUX].t.clear_bridge_rewrite(),
            Act::AuxRecv(src, b, via_conn) => {
                let n = &self.aux[src % N_AUX];
                if via_conn {
                    n.conn.receive(Bytes::from(b), n.peer_addr, buf).await;
                } else {
                    n.t.receive(Bytes::from(b), n.peer_addr, buf).await;
                }
            }
            Act::Nothing => {}
        }
    }

    fn teardown(&self) {
        // break the Arc cycle of a self-bridge
        self.t.t.clear_bridge_rewrite();
        for a in &self.aux {
            a.t.clear_bridge_rewrite();
            a.t.clear_observers();
        }
        self.t.t.clear_observers();
        self.t.t.clear_listeners();
    }
}

/// Harness-side knowledge that evolves with the sequence (sequential) or is fixed up front (racing).
struct Model {
    /// key sets installed on T, in order
    t_keys: Vec<KeySet>,
    /// key sets installed on each target, in order
    target_keys: Vec<Vec<KeySet>>,
    /// inbound ROC bookkeeping per (ks, ssrc): mirrors what a conformant receiver would estimate
    in_roc: HashMap<(u8, u8, u32), RocState>,
    ins: HashMap<usize, InInfo>,
    outs: HashMap<usize, OutInfo>,
    last_emitted: Option<Vec<u8>>,
    unrelated: KeySet,
    /// index of the first StartSrtp op (list order)
    first_key_op: Option<usize>,
    racing: bool,
    /// relayed datagrams / egress callbacks on a leg that derive from cleartext fed to a plain source
    cross_relays: std::cell::Cell<u32>,
}

impl Model {
    fn new() -> Model {
        let mut target_keys = Vec::new();
        for (i, tg) in TARGETS.iter().enumerate() {
            if *tg == Target::Myself {
                continue;
            }
            target_keys.push(if matches!(tg, Target::ReqKeys | Target::PlainKeys) {
                vec![keyset(1 + i as u8, 0)]
            } else {
                vec![]
            });
        }
        Model {
            t_keys: vec![],
            target_keys,
            in_roc: HashMap::new(),
            ins: HashMap::new(),
            outs: HashMap::new(),
            last_emitted: None,
            unrelated: keyset(99, 0),
            first_key_op: None,
            racing: false,
            cross_relays: std::cell::Cell::new(0),
        }
    }

    /// Resolve the protecting context of an inbound datagram. Returns (context, genuine?).
    /// `current`: the key set regarded as installed (None = none).
    fn resolve(&self, key: KeySel, current: Option<&KeySet>) -> (Srtp, bool, u8) {
        match key {
            KeySel::Current => match current {
                Some(k) => (k.rx.clone(), true, k.ks),
                None => {
                    let k = keyset(0, 0);
                    (k.rx, false, 0)
                }
            },
            KeySel::Set(ks) => {
                let k = keyset(0, ks);
                let genuine = current.map(|c| c.ks == ks).unwrap_or(false);
                (k.rx, genuine, ks)
            }
            KeySel::Tx => match current {
                Some(k) => (k.tx.clone(), false, 100 + k.ks),
                None => (keyset(0, 0).tx, false, 100),
            },
            KeySel::Unrelated => {
                // same profile as the installed set so that only the key differs
                let ks = current.map(|c| c.ks).unwrap_or(0);
                (keyset(99, ks).rx, false, 200)
            }
        }
    }
}

fn tamper(mut d: Vec<u8>, pos: u16) -> Vec<u8> {
    if d.is_empty() {
        return d;
    }
    // bit positions biased to header / first payload byte / tag by the generator; never touch the
    // version bits (a packet that is no longer RTP at all says nothing about authentication)
    let bit = (pos as usize) % (d.len() * 8);
    let (byte, b) = (bit / 8, bit % 8);
    if byte == 0 && b >= 6 {
        let last = d.len() - 1;
        d[last] ^= 1;
    } else {
        d[byte] ^= 1 << b;
    }
    d
}

/// Build the action of op `idx` and record what the harness knows about it.
/// `current`: the key set T is regarded to have (sequential: really installed; racing: first of list).
/// `sure`: in racing mode nothing is "before keys" for certain.
fn prepare(idx: usize, op: &Op, m: &mut Model, current: Option<KeySet>, racing: bool, installed_anywhere: &[u8]) -> Act {
    let cur = current.as_ref();
    let genuine_under = |ks_used: u8, nominal: bool| -> bool {
        if racing {
            // genuine iff the rx key belongs to a key set some StartSrtp of the case installs
            nominal || installed_anywhere.contains(&ks_used)
        } else {
            nominal
        }
    };
    match op {
        Op::StartSrtp { ks } => Act::Start(*ks),
        Op::SendRaw { p } => {
            let b = rtp_bytes(idx, p, p.marker);
            m.outs.insert(idx, OutInfo { name: "send", expect: vec![b.clone()], used: false });
            Act::SendRaw(b)
        }
        Op::SendRawBytes { b } => {
            // whatever comes out must still be b protected
            m.outs.insert(idx, OutInfo { name: "send", expect: vec![b.clone()], used: false });
            Act::SendRaw(b.clone())
        }
        Op::SendRtp { p } => {
            let b = rtp_bytes(idx, p, p.marker);
            // send_rtp forces the marker bit on the first packet of the transport
            m.outs.insert(idx, OutInfo { name: "send_rtp", expect: vec![b.clone(), set_marker(b)], used: false });
            Act::SendRtp(rtp_struct(idx, p))
        }
        Op::SendRtcp { kind, ssrc_ix } => {
            let ssrc = SSRCS[*ssrc_ix as usize % 3];
            let ps = rtcp_structs(idx, *kind, ssrc, false);
            let mut expect = vec![rtcp_bytes(idx, *kind, ssrc, false)];
            if let Ok(b) = rustrtc::rtp::marshal_rtcp_packets(&ps) {
                expect.push(b);
            }
            m.outs.insert(idx, OutInfo { name: "send_rtcp", expect, used: false });
            Act::SendRtcp(ps)
        }
        Op::SendRtcpSync { ssrc_ix, reason } => {
            let ssrc = SSRCS[*ssrc_ix as usize % 3];
            let ps = rtcp_structs(idx, RtcpKind::Bye, ssrc, *reason);
            let mut expect = vec![rtcp_bytes(idx, RtcpKind::Bye, ssrc, *reason)];
            if let Ok(b) = rustrtc::rtp::marshal_rtcp_packets(&ps) {
                expect.push(b);
            }
            m.outs.insert(idx, OutInfo { name: "send_rtcp_sync", expect, used: false });
            Act::SendRtcpSync(ps)
        }
        Op::RecvClearRtp { p, via_conn } => {
            let b = rtp_bytes(idx, p, p.marker);
            m.ins.insert(idx, InInfo { class: InClass::ClearRtp, plain: b.clone(), rtcp: false });
            Act::Recv(b, *via_conn)
        }
        Op::RecvClearRtcp { kind, ssrc_ix, via_conn } => {
            let b = rtcp_bytes(idx, *kind, SSRCS[*ssrc_ix as usize % 3], false);
            m.ins.insert(idx, InInfo { class: InClass::ClearRtcp, plain: b.clone(), rtcp: true });
            Act::Recv(b, *via_conn)
        }
        Op::RecvProtRtp { p, key, tamper: tp, via_conn } => {
            let plain = rtp_bytes(idx, p, p.marker);
            let (ctx, nominal, ks_used) = m.resolve(*key, cur);
            let ssrc = SSRCS[p.ssrc_ix as usize % 3];
            let roc = if racing {
                0
            } else {
                let st = m.in_roc.entry((0, ks_used, ssrc)).or_default();
                let v = st.estimate(p.seq);
                st.update(v, p.seq);
                v
            };
            let mut d = ctx.protect_rtp(&plain, roc).expect("ref protect");
            let mut class = if !genuine_under(ks_used, nominal) {
                if cur.is_none() && !racing && matches!(key, KeySel::Current | KeySel::Set(_)) {
                    InClass::BeforeKeys
                } else {
                    InClass::WrongKey
                }
            } else {
                InClass::Genuine
            };
            if let Some(pos) = tp {
                d = tamper(d, *pos);
                class = InClass::Tampered;
            }
            m.ins.insert(idx, InInfo { class, plain, rtcp: false });
            Act::Recv(d, *via_conn)
        }
        Op::RecvProtRtcp { kind, ssrc_ix, key, tamper: tp, index, via_conn } => {
            let plain = rtcp_bytes(idx, *kind, SSRCS[*ssrc_ix as usize % 3], false);
            let (ctx, nominal, ks_used) = m.resolve(*key, cur);
            // SRTCP index: strictly increasing with the op position keeps a replay window out of the picture
            let ix = (*index & 0x7fff_0000) | (idx as u32 + 1);
            let mut d = ctx.protect_rtcp(&plain, ix, true).expect("ref protect");
            let mut class = if !genuine_under(ks_used, nominal) {
                if cur.is_none() && !racing && matches!(key, KeySel::Current | KeySel::Set(_)) {
                    InClass::BeforeKeys
                } else {
                    InClass::WrongKey
                }
            } else {
                InClass::Genuine
            };
            if let Some(pos) = tp {
                d = tamper(d, *pos);
                class = InClass::Tampered;
            }
            m.ins.insert(idx, InInfo { class, plain, rtcp: true });
            Act::Recv(d, *via_conn)
        }
        Op::RecvReflected { via_conn } => match (&m.last_emitted, racing) {
            (Some(d), false) => {
                let d = d.clone();
                // what it decrypts to is irrelevant: nothing may come of it
                m.ins.insert(idx, InInfo { class: InClass::Reflected, plain: vec![], rtcp: rs::looks_like_rtcp(&d) });
                Act::Recv(d, *via_conn)
            }
            _ => Act::Nothing,
        },
        Op::Bridge { to, cfg } => Act::Bridge(*to, cfg.clone()),
        Op::ClearBridge => Act::ClearBridge,
        Op::ClearListeners => Act::ClearListeners,
        Op::RegisterListeners => Act::RegisterListeners,
        Op::TargetKeys { to, ks } => {
            if *to != Target::Myself {
                m.target_keys[target_ix(*to)].push(keyset(1 + target_ix(*to) as u8, *ks));
            }
            Act::TargetKeys(*to, *ks)
        }
        Op::AuxBridge { src, to, cfg } => Act::AuxBridge(*src as usize, *to, cfg.clone()),
        Op::AuxClearBridge { src } => Act::AuxClearBridge(*src as usize),
        Op::AuxRecvClearRtp { src, p, via_conn } => {
            let b = rtp_bytes(idx, p, p.marker);
            m.ins.insert(idx, InInfo { class: InClass::PlainLeg, plain: b.clone(), rtcp: false });
            Act::AuxRecv(*src as usize, b, *via_conn)
        }
        Op::AuxRecvClearRtcp { src, kind, ssrc_ix, via_conn } => {
            let b = rtcp_bytes(idx, *kind, SSRCS[*ssrc_ix as usize % 3], false);
            m.ins.insert(idx, InInfo { class: InClass::PlainLegRtcp, plain: b.clone(), rtcp: true });
            Act::AuxRecv(*src as usize, b, *via_conn)
        }
    }
}

// ---------------------------------------------------------------------------------------------
// oracles
// ---------------------------------------------------------------------------------------------

/// Classify a datagram that failed to open under the key it should be under.
fn classify_bad(d: &[u8], m: &Model, expect: &[Vec<u8>]) -> &'static str {
    if expect.iter().any(|e| e == d) {
        return "cleartext";
    }
    if let Some(pl) = plain_rtp_payload(d) {
        if tag_of(&pl).is_some() {
            return "cleartext";
        }
    }
    if rs::looks_like_rtcp(d) && rtcp_find_tag(d).is_some() {
        return "cleartext";
    }
    let mut others: Vec<&Srtp> = vec![&m.unrelated.rx, &m.unrelated.tx];
    for k in m.t_keys.iter() {
        others.push(&k.tx);
        others.push(&k.rx);
    }
    for ks in m.target_keys.iter() {
        for k in ks {
            others.push(&k.tx);
            others.push(&k.rx);
        }
    }
    if others.iter().any(|k| open_under(k, d).is_some()) {
        return "wrongkey";
    }
    "unauthenticated"
}

/// Padding octets are "ignored" content (RFC 3550 5.1): `send(bytes)` re-marshals them with the count value.
fn canon_padding(mut p: Vec<u8>) -> Vec<u8> {
    if let Some(hl) = rs::rtp_header_len(&p) {
        if p[0] & 0x20 != 0 && !p.is_empty() {
            let n = *p.last().unwrap() as usize;
            if n > 0 && hl + n <= p.len() {
                let l = p.len();
                for b in p[l - n..].iter_mut() {
                    *b = n as u8;
                }
            }
        }
    }
    p
}

/// Judge one datagram captured on T's own capture socket against every op performed so far
/// (late loopback delivery must not be blamed on a later op). `tx_keys`: every tx context installed so far.
fn judge_emitted(d: &[u8], m: &mut Model, tx_keys: &[Srtp], upto: usize) -> Result<(), Fail> {
    let mut cands: Vec<usize> = m.outs.keys().copied().filter(|i| *i <= upto).collect();
    cands.sort();
    // the op that supplied exactly these bytes as plaintext, if any (cleartext leak attribution)
    let by_clear = cands.iter().copied().find(|i| m.outs[i].expect.iter().any(|e| e == d));
    let phase_of = |i: Option<usize>, m: &Model| -> &'static str {
        match (i, m.first_key_op) {
            (_, None) => "before-keys",
            _ if m.racing => "racing",
            (Some(i), Some(k)) if i < k => "before-keys",
            _ => "after-keys",
        }
    };
    // a datagram that is plain RTP carrying the payload of some INPUT is a relayed packet that left in clear
    let relayed_clear = by_clear.is_none()
        && plain_rtp_payload(d).and_then(|pl| tag_of(&pl)).map(|t| m.ins.get(&t).map(|i| !i.rtcp).unwrap_or(false)).unwrap_or(false);
    let name_of = |i: Option<usize>, m: &Model| -> &'static str {
        i.and_then(|i| m.outs.get(&i)).map(|o| o.name).unwrap_or(if relayed_clear { "bridge-relay" } else { "unattributed" })
    };
    let all_expect: Vec<Vec<u8>> = cands.iter().flat_map(|i| m.outs[i].expect.clone()).collect();
    if tx_keys.is_empty() {
        let c = classify_bad(d, m, &all_expect);
        return Err(Fail::new(
            format!("{c}-emitted:{}-before-keys", name_of(by_clear, m)),
            format!("{} bytes left the transport while no SRTP session had been installed: {}", d.len(), crate::engine::hex(d)),
        ));
    }
    let opened = tx_keys.iter().rev().find_map(|k| open_under(k, d));
    let Some(plain) = opened else {
        let c = classify_bad(d, m, &all_expect);
        return Err(Fail::new(
            format!("{c}-emitted:{}-{}", name_of(by_clear, m), phase_of(by_clear, m)),
            format!("datagram does not open under any installed tx key ({c}): {}", crate::engine::hex(d)),
        ));
    };
    let plain_c = canon_padding(plain.clone());
    for i in cands.iter() {
        if let Some(o) = m.outs.get_mut(i) {
            if !o.used && o.expect.iter().any(|e| *e == plain || canon_padding(e.clone()) == plain_c) {
                o.used = true;
                return Ok(());
            }
        }
    }
    // a self-bridge relays genuine input through T's own tx key
    if let Some(pl) = plain_rtp_payload(&plain) {
        if let Some(tag) = tag_of(&pl) {
            if let Some(inp) = m.ins.get(&tag) {
                if !inp.rtcp {
                    return judge_relayed(tag, &pl, m, "bridge-relay");
                }
            }
        }
    }
    let dup = cands.iter().copied().find(|i| m.outs[i].expect.iter().any(|e| *e == plain));
    Err(Fail::new(
        format!("{}:{}", if dup.is_some() { "duplicate-emission" } else { "plaintext-mismatch" }, name_of(dup, m)),
        format!("datagram opens under the tx key but to a plaintext no pending op supplied: {}", crate::engine::hex(&plain)),
    ))
}

/// A relayed / delivered RTP payload names input op `tag`: it must be a genuine one with that payload.
fn judge_relayed(tag: usize, pl: &[u8], m: &Model, sink: &str) -> Result<(), Fail> {
    let Some(inp) = m.ins.get(&tag) else {
        return Err(Fail::new(format!("unknown-origin:{sink}"), format!("{sink} got a payload naming op {tag}, which fed nothing")));
    };
    let relay_sink = matches!(sink, "bridge-relay" | "bridge-target" | "observer-egress" | "target-observer-egress");
    if !(inp.class == InClass::Genuine || (inp.class == InClass::PlainLeg && relay_sink)) {
        return Err(Fail::new(
            format!("{}-accepted:{sink}", inp.class.name()),
            format!("{sink} received data derived from the {} input of op {tag}", inp.class.name()),
        ));
    }
    if inp.class == InClass::PlainLeg && matches!(sink, "bridge-relay" | "bridge-target") {
        m.cross_relays.set(m.cross_relays.get() + 1);
    }
    let want = plain_rtp_payload(&inp.plain).unwrap_or_default();
    if want != pl {
        return Err(Fail::new(
            format!("delivery-mismatch:{sink}"),
            format!("{sink} got payload {} for op {tag}, supplied {}", crate::engine::hex(pl), crate::engine::hex(&want)),
        ));
    }
    Ok(())
}

fn judge_rtp_sink(pk: &RtpPacket, m: &Model, sink: &str) -> Result<(), Fail> {
    match tag_of(&pk.payload) {
        Some(tag) => {
            if sink.ends_with("egress") && m.outs.contains_key(&tag) {
                // the application's own outbound packet seen by the egress hook
                return Ok(());
            }
            judge_relayed(tag, &pk.payload, m, sink)
        }
        None => Err(Fail::new(
            format!("unknown-origin:{sink}"),
            format!("{sink} got an RTP packet whose payload names no op: {}", crate::engine::hex(&pk.payload)),
        )),
    }
}

fn judge_rtcp_sink(pkts: &[RtcpPacket], m: &Model) -> Result<(), Fail> {
    let sink = "rtcp_listener";
    match rtcp_structs_tag(pkts) {
        Some(tag) => {
            let Some(inp) = m.ins.get(&tag) else {
                return Err(Fail::new(format!("unknown-origin:{sink}"), format!("{sink} got packets naming op {tag}, which fed nothing")));
            };
            if inp.class != InClass::Genuine {
                return Err(Fail::new(
                    format!("{}-accepted:{sink}", inp.class.name()),
                    format!("{sink} received {:?} derived from the {} input of op {tag}", pkts, inp.class.name()),
                ));
            }
            Ok(())
        }
        None => Err(Fail::new(format!("unknown-origin:{sink}"), format!("{sink} got {:?} naming no op", pkts))),
    }
}

/// Judge one datagram captured at a bridge target's capture socket.
fn judge_target(d: &[u8], ti: usize, m: &Model, keys: &[KeySet]) -> Result<(bool, bool), Fail> {
    let tg = TARGETS[ti];
    let required = matches!(tg, Target::ReqNoKeys | Target::ReqKeys);
    let sink = "bridge-target";
    let opened = keys.iter().rev().find_map(|k| open_under(&k.tx, d));
    let (plain, protected) = match opened {
        Some(p) => (p, true),
        None => {
            if required || !keys.is_empty() {
                let c = classify_bad(d, m, &[]);
                let when = if keys.is_empty() { "before-keys" } else { "after-keys" };
                return Err(Fail::new(
                    format!("{c}-emitted:bridge-target-{when}"),
                    format!("bridge target {:?} emitted a datagram that does not open under its tx key: {}", tg, crate::engine::hex(d)),
                ));
            }
            (d.to_vec(), false)
        }
    };
    let Some(pl) = plain_rtp_payload(&plain) else {
        return Err(Fail::new(format!("unknown-origin:{sink}"), format!("target {:?} emitted a non-RTP plaintext {}", tg, crate::engine::hex(&plain))));
    };
    match tag_of(&pl) {
        Some(tag) => judge_relayed(tag, &pl, m, sink).map(|_| (protected, required)),
        None => Err(Fail::new(format!("unknown-origin:{sink}"), format!("target {:?} relayed a payload naming no op: {}", tg, crate::engine::hex(&pl)))),
    }
}

// ---------------------------------------------------------------------------------------------
// running a case
// ---------------------------------------------------------------------------------------------

struct Tally {
    emitted: u32,
    delivered: u32,
    rtcp_delivered: u32,
    relayed_protected: u32,
    relayed_clear_control: u32,
}

fn drain_sinks(w: &mut World, m: &Model, tally: &mut Tally) -> Result<(), Fail> {
    while let Ok((pk, _)) = w.sinks.prov_rx.try_recv() {
        judge_rtp_sink(&pk, m, "listener")?;
        tally.delivered += 1;
    }
    while let Ok((pk, _)) = w.sinks.ssrc_rx.try_recv() {
        judge_rtp_sink(&pk, m, "listener")?;
        tally.delivered += 1;
    }
    while let Ok(pkts) = w.sinks.rtcp_rx.try_recv() {
        judge_rtcp_sink(&pkts, m)?;
        tally.rtcp_delivered += 1;
    }
    let ing: Vec<RtpPacket> = std::mem::take(&mut *w.t.obs.ingress.lock());
    for pk in ing {
        judge_rtp_sink(&pk, m, "observer-ingress")?;
    }
    let eg: Vec<RtpPacket> = std::mem::take(&mut *w.t.obs.egress.lock());
    for pk in eg {
        judge_rtp_sink(&pk, m, "observer-egress")?;
    }
    for n in w.targets.iter() {
        let eg: Vec<RtpPacket> = std::mem::take(&mut *n.obs.egress.lock());
        for pk in eg {
            judge_rtp_sink(&pk, m, "target-observer-egress")?;
        }
    }
    Ok(())
}

fn nontrivial_of(ops: &[Op], rec: &CaseRec) -> bool {
    let mut keys = false;
    let (mut send_before, mut clear_after, mut bridge) = (false, false, false);
    // list-order view of the cross-mode situation: where each plain source is bridged into, who is keyed
    let mut aux_to: [Option<Target>; N_AUX] = [None; N_AUX];
    let mut tkeyed = [false, true, false, true];
    let (mut x_before, mut x_after, mut x_plain) = (false, false, false);
    for op in ops {
        match op {
            Op::AuxBridge { src, to, .. } => {
                bridge = true;
                aux_to[*src as usize % N_AUX] = Some(*to);
            }
            Op::AuxClearBridge { src } => aux_to[*src as usize % N_AUX] = None,
            Op::TargetKeys { to, .. } if *to != Target::Myself => tkeyed[target_ix(*to)] = true,
            Op::AuxRecvClearRtp { src, .. } => match aux_to[*src as usize % N_AUX] {
                Some(Target::Myself) => {
                    if keys { x_after = true } else { x_before = true }
                }
                Some(t @ (Target::ReqNoKeys | Target::ReqKeys)) => {
                    if tkeyed[target_ix(t)] { x_after = true } else { x_before = true }
                }
                Some(_) => x_plain = true,
                None => {}
            },
            Op::StartSrtp { .. } => {
                if keys {
                    rec.label("rekey");
                }
                keys = true;
            }
            Op::SendRaw { .. } | Op::SendRawBytes { .. } | Op::SendRtp { .. } | Op::SendRtcp { .. } | Op::SendRtcpSync { .. } => {
                if !keys {
                    send_before = true;
                }
            }
            Op::RecvClearRtp { .. } | Op::RecvClearRtcp { .. } => {
                if keys {
                    clear_after = true;
                }
            }
            Op::Bridge { to, cfg } => {
                bridge = true;
                if *to == Target::Myself || cfg.video_to == Some(Target::Myself) {
                    rec.label("self-bridge");
                }
                if cfg.video_to.is_some() && cfg.rules_api {
                    rec.label("bridge-with-video-target");
                }
            }
            _ => {}
        }
    }
    if send_before {
        rec.label("send-before-keys");
    }
    if clear_after {
        rec.label("cleartext-recv-after-keys");
    }
    if bridge {
        rec.label("bridge-op");
    }
    if !keys {
        rec.label("never-keyed");
    }
    if x_before {
        rec.label("plain-src-into-required-before-keys");
    }
    if x_after {
        rec.label("plain-src-into-required-after-keys");
    }
    if x_plain {
        rec.label("plain-src-into-plain-target");
    }
    send_before || clear_after || bridge
}

fn judge_wires(w: &World, m: &mut Model, upto: usize, tally: &mut Tally) -> Result<(), Fail> {
    let tx: Vec<Srtp> = m.t_keys.iter().map(|k| k.tx.clone()).collect();
    for d in w.t.drain() {
        judge_emitted(&d, m, &tx, upto)?;
        tally.emitted += 1;
        m.last_emitted = Some(d);
    }
    for ti in 0..w.targets.len() {
        for d in w.targets[ti].drain() {
            let keys = m.target_keys[ti].clone();
            let (protected, _req) = judge_target_racing(&d, ti, m, &keys)?;
            if protected {
                tally.relayed_protected += 1;
            } else {
                tally.relayed_clear_control += 1;
            }
        }
    }
    Ok(())
}

async fn run_seq(case: Case) -> (CaseRec, Check) {
    let rec = CaseRec::default();
    rec.set_nontrivial(nontrivial_of(&case.ops, &rec));
    let mut w = World::new().await;
    let mut m = Model::new();
    let mut tally = Tally { emitted: 0, delivered: 0, rtcp_delivered: 0, relayed_protected: 0, relayed_clear_control: 0 };
    let mut buf = Vec::new();
    let res: Check = async {
        for (idx, op) in case.ops.iter().enumerate() {
            let current = m.t_keys.last().cloned();
            let act = prepare(idx, op, &mut m, current, false, &[]);
            w.perform(act, &mut buf).await;
            // judge what is already on the wires BEFORE accounting for a key installation of this op
            judge_wires(&w, &mut m, idx, &mut tally)?;
            if let Op::StartSrtp { ks } = op {
                m.t_keys.push(keyset(0, *ks));
                m.in_roc.clear();
                if m.first_key_op.is_none() {
                    m.first_key_op = Some(idx);
                }
            }
            drain_sinks(&mut w, &m, &mut tally)?;
        }
        // settle: loopback delivery may be deferred to ksoftirqd under load
        tokio::time::sleep(std::time::Duration::from_millis(2)).await;
        judge_wires(&w, &mut m, case.ops.len(), &mut tally)?;
        drain_sinks(&mut w, &m, &mut tally)
    }
    .await;
    w.teardown();
    label_strays(&rec, &w);
    label_cross(&rec, &m);
    label_tally(&rec, &tally);
    (rec, res)
}

fn label_strays(rec: &CaseRec, w: &World) {
    let n: u32 = std::iter::once(&w.t).chain(w.targets.iter()).map(|n| n.strays.load(std::sync::atomic::Ordering::Relaxed)).sum();
    if n > 0 {
        rec.label("foreign-datagram-ignored");
    }
}

fn label_cross(rec: &CaseRec, m: &Model) {
    if m.cross_relays.get() > 0 {
        rec.label("cross-mode-relay-seen-on-wire");
    }
}

fn label_tally(rec: &CaseRec, t: &Tally) {
    if t.emitted > 0 {
        rec.label("emitted-protected");
    }
    if t.delivered > 0 {
        rec.label("genuine-rtp-delivered");
    }
    if t.rtcp_delivered > 0 {
        rec.label("genuine-rtcp-delivered");
    }
    if t.relayed_protected > 0 {
        rec.label("relayed-protected");
    }
    if t.relayed_clear_control > 0 {
        rec.label("relayed-clear-by-plain-control-target");
    }
}

async fn run_race(case: Case) -> (CaseRec, Check) {
    let rec = CaseRec::default();
    rec.set_nontrivial(nontrivial_of(&case.ops, &rec));
    rec.label(format!("race-{}-tasks", case.n_tasks.clamp(2, 4)));
    let w = World::new().await;
    let mut m = Model::new();
    let installed: Vec<u8> = case.ops.iter().filter_map(|o| if let Op::StartSrtp { ks } = o { Some(*ks) } else { None }).collect();
    let first = installed.first().map(|ks| keyset(0, *ks));
    let n_tasks = case.n_tasks.clamp(2, 4) as usize;
    let mut per_task: Vec<Vec<Act>> = (0..n_tasks).map(|_| Vec::new()).collect();
    for (idx, op) in case.ops.iter().enumerate() {
        let act = prepare(idx, op, &mut m, first.clone(), true, &installed);
        let t = case.tasks.get(idx).copied().unwrap_or(0) as usize % n_tasks;
        per_task[t].push(act);
    }
    for ks in installed.iter() {
        m.t_keys.push(keyset(0, *ks));
    }
    m.racing = true;
    m.first_key_op = case.ops.iter().position(|o| matches!(o, Op::StartSrtp { .. }));
    let w = {
        let wa = Arc::new(w);
        let barrier = Arc::new(tokio::sync::Barrier::new(n_tasks));
        let mut hs = Vec::new();
        for acts in per_task {
            let (wa, barrier) = (wa.clone(), barrier.clone());
            hs.push(tokio::spawn(async move {
                let mut buf = Vec::new();
                barrier.wait().await;
                for a in acts {
                    wa.perform(a, &mut buf).await;
                    tokio::task::yield_now().await;
                }
            }));
        }
        let mut panicked = None;
        for h in hs {
            if let Err(e) = h.await {
                panicked = Some(e.to_string());
            }
        }
        if let Some(e) = panicked {
            wa.teardown();
            return (rec, Err(Fail::new("task-panic:racing-ops", format!("a racing task died: {e}"))));
        }
        wa
    };
    let mut w = match Arc::try_unwrap(w) {
        Ok(w) => w,
        Err(_) => return (rec, Err(Fail::new("harness-error", "world still shared"))),
    };
    let mut tally = Tally { emitted: 0, delivered: 0, rtcp_delivered: 0, relayed_protected: 0, relayed_clear_control: 0 };
    tokio::time::sleep(std::time::Duration::from_millis(2)).await;
    let res: Check = (|| {
        judge_wires(&w, &mut m, case.ops.len(), &mut tally)?;
        drain_sinks(&mut w, &m, &mut tally)
    })();
    w.teardown();
    label_strays(&rec, &w);
    label_cross(&rec, &m);
    label_tally(&rec, &tally);
    (rec, res)
}

/// A non-required target keyed later by a TargetKeys op may legitimately have relayed in clear before
/// the keys arrived (racing, or late loopback delivery); a required one never.
fn judge_target_racing(d: &[u8], ti: usize, m: &Model, keys: &[KeySet]) -> Result<(bool, bool), Fail> {
    let tg = TARGETS[ti];
    if matches!(tg, Target::PlainNoKeys) {
        if keys.iter().any(|k| open_under(&k.tx, d).is_some()) {
            return judge_target(d, ti, m, keys);
        }
        return judge_target(d, ti, m, &[]);
    }
    judge_target(d, ti, m, keys)
}

// ---------------------------------------------------------------------------------------------
// generators
// ---------------------------------------------------------------------------------------------

fn pkt_strategy() -> impl Strategy<Value = Pkt> {
    (
        0u8..3,
        prop_oneof![4 => 0u16..40, 2 => 65500u16..=65535, 1 => 32700u16..32800, 1 => any::<u16>()],
        prop_oneof![Just(0u32), Just(u32::MAX), any::<u32>()],
        prop_oneof![3 => Just(96u8), 1 => Just(0u8), 1 => Just(101u8), 1 => Just(127u8), 1 => 72u8..=80, 1 => 0u8..128],
        any::<bool>(),
        prop_oneof![4 => Just(0u8), 1 => 1u8..=3],
        prop_oneof![3 => Just(false), 1 => Just(true)],
        prop_oneof![5 => Just(0u8), 1 => Just(1u8), 1 => Just(4u8), 1 => 1u8..=20],
        prop_oneof![2 => Just(0u8), 2 => 1u8..40, 1 => Just(200u8)],
        any::<u8>(),
    )
        .prop_map(|(ssrc_ix, seq, ts, pt, marker, csrcs, ext, pad, len, fill)| Pkt { ssrc_ix, seq, ts, pt, marker, csrcs, ext, pad, len, fill })
}

fn rtcp_kind() -> impl Strategy<Value = RtcpKind> {
    prop_oneof![
        Just(RtcpKind::Rr),
        Just(RtcpKind::Sr),
        Just(RtcpKind::Pli),
        Just(RtcpKind::Nack),
        Just(RtcpKind::Bye),
        Just(RtcpKind::RrPli)
    ]
}

fn keysel() -> impl Strategy<Value = KeySel> {
    prop_oneof![
        6 => Just(KeySel::Current),
        2 => (0u8..6).prop_map(KeySel::Set),
        1 => Just(KeySel::Tx),
        2 => Just(KeySel::Unrelated),
    ]
}

fn tamper_strategy() -> impl Strategy<Value = Option<u16>> {
    prop_oneof![
        7 => Just(None),
        // header bits, first payload bits, then anywhere (incl. the auth tag at the end)
        1 => (8u16..96).prop_map(Some),
        1 => (96u16..200).prop_map(Some),
        1 => any::<u16>().prop_map(Some),
    ]
}

fn target_strategy() -> impl Strategy<Value = Target> {
    prop_oneof![
        3 => Just(Target::ReqNoKeys),
        3 => Just(Target::ReqKeys),
        2 => Just(Target::PlainNoKeys),
        2 => Just(Target::PlainKeys),
        2 => Just(Target::Myself),
    ]
}

/// mostly one source so that bridge and traffic meet
fn aux_src() -> impl Strategy<Value = u8> {
    prop_oneof![3 => Just(0u8), 1 => Just(1u8)]
}

/// destinations of a plain source's bridge: mostly SRTP-required legs (Myself = the transport under test)
fn aux_target_strategy() -> impl Strategy<Value = Target> {
    prop_oneof![
        5 => Just(Target::Myself),
        3 => Just(Target::ReqNoKeys),
        2 => Just(Target::ReqKeys),
        1 => Just(Target::PlainNoKeys),
        1 => Just(Target::PlainKeys),
    ]
}

fn bridge_cfg() -> impl Strategy<Value = BridgeCfg> {
    (
        any::<bool>(),
        prop_oneof![Just(None), any::<u32>().prop_map(Some)],
        prop_oneof![Just(0u32), Just(1u32), any::<u32>()],
        prop_oneof![Just(None), (0u8..128).prop_map(Some)],
        prop_oneof![3 => Just(None), 1 => (Just(101u8), 0u8..128).prop_map(Some)],
        prop_oneof![Just(None), Just(Some(65535u16)), any::<u16>().prop_map(Some)],
        prop_oneof![Just(None), any::<u32>().prop_map(Some)],
        any::<bool>(),
        any::<bool>(),
        prop_oneof![3 => Just(None), 1 => target_strategy().prop_map(Some)],
    )
        .prop_map(|(rules_api, fixed_ssrc, ssrc_offset, out_pt, dtmf, init_seq, init_ts, strip_ext, mid, video_to)| BridgeCfg {
            rules_api,
            fixed_ssrc,
            ssrc_offset,
            out_pt,
            dtmf,
            init_seq,
            init_ts,
            strip_ext,
            mid,
            video_to,
        })
}

fn raw_bytes() -> impl Strategy<Value = Vec<u8>> {
    prop_oneof![
        // RTCP-looking bytes handed to the raw RTP send
        (0u8..3, any::<bool>()).prop_map(|(s, r)| rtcp_bytes(250, RtcpKind::Bye, SSRCS[s as usize], r)),
        // too short / not version 2 / random
        proptest::collection::vec(any::<u8>(), 0..12),
        proptest::collection::vec(any::<u8>(), 12..40).prop_map(|mut v| {
            v[0] = 0x80;
            v
        }),
        proptest::collection::vec(any::<u8>(), 12..40),
    ]
}

fn op_strategy() -> impl Strategy<Value = Op> {
    prop_oneof![
        1 => (0u8..6).prop_map(|ks| Op::StartSrtp { ks }),
        3 => pkt_strategy().prop_map(|p| Op::SendRaw { p }),
        1 => raw_bytes().prop_map(|b| Op::SendRawBytes { b }),
        4 => pkt_strategy().prop_map(|p| Op::SendRtp { p }),
        3 => (rtcp_kind(), 0u8..3).prop_map(|(kind, ssrc_ix)| Op::SendRtcp { kind, ssrc_ix }),
        3 => (0u8..3, any::<bool>()).prop_map(|(ssrc_ix, reason)| Op::SendRtcpSync { ssrc_ix, reason }),
        4 => (pkt_strategy(), any::<bool>()).prop_map(|(p, via_conn)| Op::RecvClearRtp { p, via_conn }),
        3 => (rtcp_kind(), 0u8..3, any::<bool>()).prop_map(|(kind, ssrc_ix, via_conn)| Op::RecvClearRtcp { kind, ssrc_ix, via_conn }),
        8 => (pkt_strategy(), keysel(), tamper_strategy(), any::<bool>())
            .prop_map(|(p, key, tamper, via_conn)| Op::RecvProtRtp { p, key, tamper, via_conn }),
        4 => (rtcp_kind(), 0u8..3, keysel(), tamper_strategy(), any::<u32>(), any::<bool>())
            .prop_map(|(kind, ssrc_ix, key, tamper, index, via_conn)| Op::RecvProtRtcp { kind, ssrc_ix, key, tamper, index, via_conn }),
        1 => any::<bool>().prop_map(|via_conn| Op::RecvReflected { via_conn }),
        3 => (target_strategy(), bridge_cfg()).prop_map(|(to, cfg)| Op::Bridge { to, cfg }),
        1 => Just(Op::ClearBridge),
        1 => Just(Op::ClearListeners),
        1 => Just(Op::RegisterListeners),
        1 => (target_strategy(), 0u8..6).prop_map(|(to, ks)| Op::TargetKeys { to, ks }),
        3 => (aux_src(), aux_target_strategy(), bridge_cfg()).prop_map(|(src, to, cfg)| Op::AuxBridge { src, to, cfg }),
        1 => aux_src().prop_map(|src| Op::AuxClearBridge { src }),
        6 => (aux_src(), pkt_strategy(), any::<bool>()).prop_map(|(src, p, via_conn)| Op::AuxRecvClearRtp { src, p, via_conn }),
        1 => (aux_src(), rtcp_kind(), 0u8..3, any::<bool>())
            .prop_map(|(src, kind, ssrc_ix, via_conn)| Op::AuxRecvClearRtcp { src, kind, ssrc_ix, via_conn }),
    ]
}

pub fn case_strategy(max_ops: usize) -> impl Strategy<Value = Case> {
    (
        proptest::collection::vec(op_strategy(), 1..max_ops),
        // where the (first) key installation goes: mostly early, sometimes late, sometimes never
        prop_oneof![
            5 => (0u16..16384, 0u8..6).prop_map(Some),
            3 => (any::<u16>(), 0u8..6).prop_map(Some),
            1 => Just(None),
        ],
        2u8..=4,
        proptest::collection::vec(0u8..4, max_ops),
    )
        .prop_map(|(mut ops, key_at, n_tasks, tasks)| {
            if let Some((pos, ks)) = key_at {
                let at = crate::engine::pick(pos, ops.len() + 1);
                ops.insert(at, Op::StartSrtp { ks });
            }
            Case { ops, n_tasks, tasks }
        })
}

fn seq_checker() -> AsyncCheck<Case> {
    Arc::new(|c: Case| Box::pin(run_seq(c)))
}

fn race_checker() -> AsyncCheck<Case> {
    Arc::new(|c: Case| Box::pin(run_race(c)))
}

pub fn run(ctx: &mut Ctx) {
    ctx.level = "exploration";
    ctx.rule = "Engine 1: proptest-generated op lists (1..=25 ops over start_srtp x3 profiles/6 key sets, send raw RTP / raw non-RTP bytes, send_rtp, send_rtcp, send_rtcp_sync BYE, receive of cleartext RTP/RTCP, of RTP/RTCP protected by the independent model under the installed / another / the own tx / an unrelated key, bit-tampered, reflected own output, bridge_rewrite_to / bridge_rewrite_rules_to to 5 targets {required,plain} x {keyed,unkeyed} + self, clear_bridge_rewrite, clear_listeners, re-register, target start_srtp; cross-mode: 2 auxiliary plain sources RtpTransport::new(conn, false) that install / clear bridge_rewrite_to / bridge_rewrite_rules_to INTO the transport under test or a required/plain extra target and receive cleartext RTP / RTCP before and after the destination is keyed) on RtpTransport::new(conn, true) over a loopback UDP IceConn; interpreted sequentially (judged after every op) and split over 2-4 barrier-released tasks (judged at the end). Engine 2: two PeerConnections (WebRtc through a DTLS-terminating harness proxy, Srtp/SDES through a forwarding proxy) with media, a provoked NACK->RTX, RTCP and close(); every RTP/RTCP-looking datagram judged with the independent SRTP model. Non-trivial = the list has a send before keys, or a cleartext receive after keys, or a bridge op (Engine 2: every connected run); distinct by case digest.".into();
    ctx.assumptions = vec![
        "loopback UDP delivery is synchronous: after an awaited op every datagram it emitted is already queued at the capture socket".into(),
        "send_rtp may set the marker bit of the first packet; expected plaintext accepts both".into(),
        "expected RTCP plaintext is the harness' own RFC 3550/4585 encoding or rustrtc's marshalling of the same fields".into(),
        "a drop is never a violation (safety property); liveness of genuine traffic is only measured (labels) and checked in aggregate".into(),
        "racing mode: an emitted datagram may be under any key set some start_srtp of the list installs; a protected input is genuine if its key belongs to such a set".into(),
        "a bridge target created with srtp_required = false is a control: relaying in clear through it is legitimate".into(),
        "cleartext fed to a plain (srtp_required = false) source leg is legitimate input of that leg; what an SRTP-required leg emits from it must open under that leg's own tx key and never precede its keys".into(),
    ];
    if let Err(e) = rs::self_test() {
        let f = Fail::new("reference-self-test", e);
        ctx.violation("self-test", &serde_json::json!({}), &f);
        return;
    }
    let rt = tokio::runtime::Builder::new_multi_thread().worker_threads(16).enable_all().build().unwrap();
    let n_seq = ctx.scale(12000usize, 150000usize);
    ctx.sub_async(&rt, "seq-ops", n_seq, 32, case_strategy(25), seq_checker());
    let n_race = ctx.scale(4000usize, 40000usize);
    ctx.sub_async(&rt, "racing-ops", n_race, 16, case_strategy(25), race_checker());
    super::c14_pc::run_pc(ctx, &rt);
    rt.shutdown_timeout(std::time::Duration::from_secs(2));
}
