//! C13 — the SCTP sender obeys packet-size, checksum, window and quiescence rules.
//!
//! The oracle walks the decoded wire trace of a two-endpoint run (every SCTP packet each side put
//! on the wire = `Captured`, every packet the harness handed to the receiver = `Delivered`) and
//! checks, per direction:
//!  (a) every packet <= 1200 bytes;
//!  (b) CRC32c correct (harness' own CRC) and the chunk walk well-formed;
//!  (c) verification tag = the peer's initiate tag (INIT tag for the responder, tag of the INIT-ACK
//!      whose cookie was echoed for the initiator), 0 only on INIT;
//!  (d) first transmissions of DATA carry consecutive TSNs (mod 2^32) from the advertised initial TSN;
//!  (e) new DATA is not injected once the advertised window is exhausted beyond one packet;
//!  (d') a TSN the sender skips must be given up by a FORWARD-TSN of its own that reaches it, and never shows up later;
//!  (f) no retransmission of a TSN more than 300 ms after a covering SACK was delivered to the sender
//!      (legitimate lag measured: < 10 ms idle, < 100 ms under a concurrent cargo build);
//!  (g) 1 s after everything ever sent is acknowledged (or skipped by a delivered FORWARD-TSN), and
//!      for 1.5 s, only HEARTBEAT / HEARTBEAT-ACK appear.

use super::sctp_common::*;
use crate::engine::{AsyncCheck, CaseRec, Check, Ctx, Fail};
use crate::net::fault::{Action, Ev, Phase, Rule, Side};
use crate::net::rig::{SctpInfo, trace_data_len};
use crate::net::sacksynth::SackForm;
use crate::net::setupforge::{CUSTOM_INIT, CUSTOM_INIT_ACK, SetupForgery};
use crate::net::wire::{self, SClass};
use parking_lot::Mutex;
use proptest::prelude::*;
use serde::{Deserialize, Serialize};
use std::collections::{BTreeMap, HashSet, VecDeque};
use std::sync::Arc;
use std::time::Duration;

// ------------------------------------------------------------------ oracle

pub const MAX_PACKET: usize = 1200;
/// window of recently delivered SACKs whose a_rwnd the sender may still be acting on
pub const RECENT_SACK_US: u64 = 100_000;
pub const LATE_RETX_US: u64 = 300_000;
pub const QUIET_AFTER_US: u64 = 1_000_000;
pub const QUIET_LEN_US: u64 = 1_500_000;

#[derive(Clone, Debug, PartialEq, Eq)]
pub enum Quiet {
    /// not every TSN was acknowledged / skipped before the trace ended (clause vacuous)
    NotReached,
    /// the trace ended before the window started
    NotObserved,
    Partial,
    Full,
}

#[derive(Clone, Debug)]
pub struct TraceStats {
    pub packets: u64,
    pub new_chunks: u64,
    pub retransmissions: u64,
    pub sacks_delivered: u64,
    pub min_a_rwnd: Option<u32>,
    /// (outstanding after the new chunk) - (most permissive recent a_rwnd), one per new counted chunk
    pub excess: Vec<i64>,
    /// same against the newest delivered SACK alone (diagnostic)
    pub excess_newest: Vec<i64>,
    /// retransmissions seen after a covering SACK: capture time - cover time
    pub retx_after_cover_us: Vec<u64>,
    pub quiet: Quiet,
    pub tsn_wrapped: bool,
    pub several_init_acks: bool,
    pub fwd_tsn: u64,
    pub max_gap_blocks: usize,
    pub sacks_over_16_blocks: u64,
    pub adjacent_blocks: bool,
    pub repeated_block: bool,
    /// distinct INIT tags the responder's INIT-ACKs answered
    pub init_ack_answer_tags: usize,
    pub acted_on_fabricated: bool,
    pub skipped_tsns: u64,
    pub late_gap_unjudged: bool,
    /// first transmission of the first fragment of a user message: (sender, stream, capture time)
    pub msg_starts: Vec<(Side, u16, u64)>,
    pub tolerated_wrap_retx: u64,
    pub tolerated_overruns: u64,
    pub tolerated_empty: u64,
    pub truncated_by_path_loss: bool,
    /// diagnostic notes (C13_DEBUG)
    pub notes: Vec<String>,
}

impl Default for TraceStats {
    fn default() -> Self {
        Self {
            packets: 0,
            new_chunks: 0,
            retransmissions: 0,
            sacks_delivered: 0,
            min_a_rwnd: None,
            excess: Vec::new(),
            excess_newest: Vec::new(),
            retx_after_cover_us: Vec::new(),
            quiet: Quiet::NotReached,
            tsn_wrapped: false,
            several_init_acks: false,
            fwd_tsn: 0,
            max_gap_blocks: 0,
            sacks_over_16_blocks: 0,
            adjacent_blocks: false,
            repeated_block: false,
            init_ack_answer_tags: 0,
            acted_on_fabricated: false,
            skipped_tsns: 0,
            late_gap_unjudged: false,
            msg_starts: Vec::new(),
            tolerated_wrap_retx: 0,
            tolerated_overruns: 0,
            tolerated_empty: 0,
            truncated_by_path_loss: false,
            notes: Vec::new(),
        }
    }
}

struct Chunk {
    /// placeholder for a TSN the sender numbered (it went on with a higher one) but has not put on the wire
    never_sent: bool,
    /// a copy of it has been handed to the peer by the harness
    delivered: bool,
    bytes: u32,
    /// capture time of its latest (re)transmission
    last_tx_us: u64,
    /// counts towards the outstanding bytes (sent reliably: never abandoned by the sender)
    counted: bool,
    /// SACK covering it delivered to the sender
    covered_us: Option<u64>,
    /// FORWARD-TSN skipping it captured from the sender (sender gave it up)
    abandoned: bool,
    /// FORWARD-TSN skipping it delivered to the receiver
    skipped_us: Option<u64>,
}

#[derive(Clone, Debug)]
struct InitInfo {
    /// verification tag of the packet that carried it (an INIT-ACK answers the INIT with this initiate tag)
    answers: u32,
    tag: u32,
    rwnd: u32,
    tsn: u32,
    cookie: Vec<u8>,
}

#[derive(Default)]
struct Dir {
    /// initial TSN / peer's initial a_rwnd, fixed at the first DATA or SACK that needs them
    base: Option<(u32, u32)>,
    chunks: Vec<Chunk>,
    /// every index below is covered cumulatively
    cum_idx: usize,
    outstanding: i64,
    /// delivered SACKs still inside the recent window, plus the one before it: (t, a_rwnd)
    recent: VecDeque<(u64, u32)>,
    /// no SACK older than the window has been dropped from `recent` yet
    init_in_window: bool,
    newest_rwnd: Option<u32>,
    /// start of the latest retransmission run that looks like a retransmission timeout
    timeout_rtx_us: Option<u64>,
    in_rtx_run: bool,
    rtx_run_last_us: u64,
    /// capture / delivery time of the latest FORWARD-TSN of this sender
    last_fwd_captured_us: u64,
    last_fwd_delivered_us: u64,
}

/// Developer aid for sensitivity experiments: `C13_DISABLE=f` switches clause (f) off so that the
/// clauses behind it can be shown to fire on their own.
fn clause_disabled(c: char) -> bool {
    std::env::var("C13_DISABLE").map(|v| v.contains(c)).unwrap_or(false)
}

fn idx(s: Side) -> usize {
    match s {
        Side::A => 0,
        Side::B => 1,
    }
}

fn init_ack_cookie(value: &[u8]) -> Vec<u8> {
    // fixed part 16 bytes, then TLV parameters; state cookie = type 7
    let mut o = 16;
    while o + 4 <= value.len() {
        let t = u16::from_be_bytes([value[o], value[o + 1]]);
        let l = u16::from_be_bytes([value[o + 2], value[o + 3]]) as usize;
        if l < 4 || o + l > value.len() {
            break;
        }
        if t == 7 {
            return value[o + 4..o + l].to_vec();
        }
        o += l + (4 - l % 4) % 4;
    }
    Vec::new()
}

fn ctype_name(t: u8) -> String {
    match t {
        wire::CT_DATA => "DATA".into(),
        wire::CT_INIT => "INIT".into(),
        wire::CT_INIT_ACK => "INIT-ACK".into(),
        wire::CT_SACK => "SACK".into(),
        wire::CT_HEARTBEAT => "HEARTBEAT".into(),
        wire::CT_HEARTBEAT_ACK => "HEARTBEAT-ACK".into(),
        wire::CT_ABORT => "ABORT".into(),
        wire::CT_SHUTDOWN => "SHUTDOWN".into(),
        wire::CT_SHUTDOWN_ACK => "SHUTDOWN-ACK".into(),
        wire::CT_COOKIE_ECHO => "COOKIE-ECHO".into(),
        wire::CT_COOKIE_ACK => "COOKIE-ACK".into(),
        wire::CT_RECONFIG => "RECONFIG".into(),
        wire::CT_FORWARD_TSN => "FORWARD-TSN".into(),
        x => format!("type{x}"),
    }
}

pub const SIG_EMPTY: &str = "packet-without-chunks";
pub const SIG_FWD_LOST: &str = "cumulative-ack-stuck-while-silent:forward-tsn-lost-and-never-sent-again";
pub const SIG_WRAP_SACK: &str = "retransmit-after-ack:pre-wrap-tsn-while-post-wrap-tsns-outstanding";
pub const SIG_FORGOTTEN: &str = "window-overrun:unacked-chunks-forgotten-after-timeout-retransmission";

pub struct OracleInput<'a> {
    /// signatures of known findings: the first such failure is kept, the walk continues behind it
    pub tolerated: &'a [String],
    pub trace: &'a [Ev<SClass, SctpInfo>],
    /// stream ids whose user messages are sent reliably (DCEP is always reliable)
    pub reliable_streams: &'a HashSet<u16>,
    pub end_us: u64,
    pub last_fault_us: u64,
    /// fabricated setup chunks were presented in this run (net::setupforge)
    pub forgery: Option<SetupForgery>,
    /// an endpoint reported the association closed
    pub closed: bool,
    /// the SACKs delivered in this run were built by the harness (net::sacksynth)
    pub synthetic_sacks: bool,
    /// configured RTO.min of the senders
    pub rto_min_us: u64,
    /// per side (A, B): the harness' own datagram path lost packets of that sender (its byte counter
    /// exceeds what was captured), so first transmissions may be missing from the trace
    pub path_loss: [bool; 2],
}

struct Oracle<'a> {
    inp: &'a OracleInput<'a>,
    inits: [Vec<InitInfo>; 2],
    init_acks: [Vec<InitInfo>; 2],
    /// for an initiator: the peer's INIT-ACK whose cookie it echoed
    acted: [Option<InitInfo>; 2],
    dirs: [Dir; 2],
    st: TraceStats,
    deferred: Option<Fail>,
}

impl<'a> Oracle<'a> {
    fn base(&mut self, s: Side) -> Option<(u32, u32)> {
        let i = idx(s);
        if let Some(b) = self.dirs[i].base {
            return Some(b);
        }
        let o = idx(s.other());
        let b = if let Some(init) = self.inits[i].last() {
            // initiator: own TSN from its INIT, peer window from the INIT-ACK it acted upon
            self.acted[i].as_ref().map(|a| (init.tsn, a.rwnd))
        } else {
            // responder: own TSN from the INIT-ACK the peer acted upon, peer window from the INIT
            // (the INIT the echoed INIT-ACK answered may be one the harness fabricated)
            match (&self.acted[o], self.inits[o].last()) {
                (Some(a), Some(init)) => {
                    let rwnd = match self.inp.forgery {
                        Some(f) if f.tag == a.answers => f.rwnd.unwrap_or(init.rwnd),
                        _ => init.rwnd,
                    };
                    Some((a.tsn, rwnd))
                }
                _ => None,
            }
        };
        if b.is_some() {
            self.dirs[i].base = b;
            self.dirs[i].init_in_window = true;
        }
        b
    }

    fn cover(&mut self, s: Side, k: usize, t: u64) {
        let d = &mut self.dirs[idx(s)];
        let c = &mut d.chunks[k];
        if c.covered_us.is_none() {
            c.covered_us = Some(t);
            if c.counted && !c.abandoned {
                d.outstanding -= c.bytes as i64;
            }
        }
    }

    /// SACK from `s.other()` handed to `s`
    fn sack_delivered(&mut self, s: Side, sack: &wire::SackChunk, t: u64) -> Result<(), Fail> {
        self.st.sacks_delivered += 1;
        self.st.max_gap_blocks = self.st.max_gap_blocks.max(sack.gaps.len());
        if sack.gaps.len() > 16 {
            self.st.sacks_over_16_blocks += 1;
        }
        if sack.gaps.windows(2).any(|w| w[1].0 == w[0].1 + 1) {
            self.st.adjacent_blocks = true;
        }
        if sack.gaps.iter().enumerate().any(|(k, g)| sack.gaps[..k].contains(g)) {
            self.st.repeated_block = true;
        }
        let Some((tsn0, _)) = self.base(s) else { return Ok(()) };
        let n = self.dirs[idx(s)].chunks.len();
        let d = sack.cum_tsn.wrapping_sub(tsn0).wrapping_add(1) as i32;
        let mut covered: Vec<usize> = Vec::new();
        if d > 0 {
            let upto = (d as usize).min(n);
            let from = self.dirs[idx(s)].cum_idx;
            covered.extend(from..upto);
            if upto > from {
                self.dirs[idx(s)].cum_idx = upto;
            }
        }
        for (a, b) in &sack.gaps {
            let lo = d as i64 - 1 + *a as i64;
            let hi = d as i64 - 1 + *b as i64;
            let mut k = lo.max(0);
            while k <= hi && (k as usize) < n {
                covered.push(k as usize);
                k += 1;
            }
        }
        for k in covered {
            if self.inp.synthetic_sacks {
                // guard of the harness' own SACK builder: it may only report what it delivered
                let c = &self.dirs[idx(s)].chunks[k];
                if !c.delivered && c.skipped_us.is_none() {
                    return Err(Fail::new(
                        "harness-sack-not-truthful",
                        format!("harness-built SACK delivered to {:?} at {} us covers TSN {} which was never delivered to (or skipped at) the peer", s, t, tsn0.wrapping_add(k as u32)),
                    ));
                }
            }
            self.cover(s, k, t);
        }
        let dir = &mut self.dirs[idx(s)];
        dir.recent.push_back((t, sack.a_rwnd));
        dir.newest_rwnd = Some(sack.a_rwnd);
        Ok(())
    }

    /// most permissive a_rwnd the sender `s` may legitimately be acting on at time `t`
    fn permissive_rwnd(&mut self, s: Side, t: u64) -> u32 {
        let init_rwnd = self.dirs[idx(s)].base.map(|b| b.1).unwrap_or(0);
        let dir = &mut self.dirs[idx(s)];
        let lo = t.saturating_sub(RECENT_SACK_US);
        // keep at most one SACK older than the window
        while dir.recent.len() >= 2 && dir.recent[1].0 < lo {
            dir.recent.pop_front();
            dir.init_in_window = false;
        }
        let mut m = dir.recent.iter().map(|x| x.1).max().unwrap_or(0);
        let front_old = dir.recent.front().map(|x| x.0 < lo).unwrap_or(false);
        if dir.recent.is_empty() || (dir.init_in_window && !front_old) {
            m = m.max(init_rwnd);
        }
        m
    }

    fn run(&mut self) -> Result<(), Fail> {
        let trace = self.inp.trace;
        for (ei, e) in trace.iter().enumerate() {
            let s = e.from;
            let i = idx(s);
            let o = idx(s.other());
            let Some(pkt) = e.info.pkt.as_ref() else {
                if e.phase == Phase::Captured {
                    return Err(Fail::new(
                        "malformed-packet",
                        format!("{:?} put a {}-byte datagram on the SCTP path that has no SCTP common header", s, e.len),
                    ));
                }
                continue;
            };
            match e.phase {
                Phase::Delivered => {
                    // delivered to s.other(): SACKs update that sender's view, FORWARD-TSN skips at the receiver
                    for c in &pkt.chunks {
                        if let Some(sack) = c.as_sack() {
                            self.sack_delivered(s.other(), &sack, e.t_us)?;
                        } else if let Some(dc) = c.as_data() {
                            if let Some((tsn0, _)) = self.dirs[i].base {
                                let k = dc.tsn.wrapping_sub(tsn0) as usize;
                                if let Some(ch) = self.dirs[i].chunks.get_mut(k) {
                                    ch.delivered = true;
                                }
                            }
                        } else if c.ctype == wire::CT_FORWARD_TSN && c.value.len() >= 4 {
                            self.dirs[i].last_fwd_delivered_us = e.t_us;
                            if let Some((tsn0, _)) = self.base(s) {
                                let new_cum = u32::from_be_bytes([c.value[0], c.value[1], c.value[2], c.value[3]]);
                                let d = new_cum.wrapping_sub(tsn0).wrapping_add(1) as i32;
                                if d > 0 {
                                    let upto = (d as usize).min(self.dirs[i].chunks.len());
                                    for ch in self.dirs[i].chunks[..upto].iter_mut() {
                                        if ch.skipped_us.is_none() {
                                            ch.skipped_us = Some(e.t_us);
                                        }
                                    }
                                }
                            }
                        }
                    }
                }
                Phase::Captured => {
                    self.st.packets += 1;
                    // (a)
                    if pkt.len > MAX_PACKET {
                        return Err(Fail::new(
                            "packet-too-large",
                            format!("{:?} sent a {}-byte SCTP packet ({:?}) at {} us; the path limit is {}", s, pkt.len, e.class, e.t_us, MAX_PACKET),
                        ));
                    }
                    // (b)
                    if !pkt.checksum_ok && pkt.len == MAX_PACKET {
                        // DtlsTransport cuts application data into 1200-byte records: an oversized SCTP packet
                        // reaches the wire as a 1200-byte head plus a remainder, neither of which verifies
                        let next = trace[ei + 1..].iter().find(|x| x.phase == Phase::Captured && x.from == s);
                        if let Some(nx) = next {
                            // the remainder is not an SCTP packet in its own right
                            let broken = nx.info.pkt.as_ref().map(|q| !q.checksum_ok && (!q.well_formed || q.chunks.is_empty())).unwrap_or(true);
                            if broken && nx.len < MAX_PACKET && nx.t_us.saturating_sub(e.t_us) < 5_000 {
                                return Err(Fail::new(
                                    "packet-too-large",
                                    format!(
                                        "{:?} sent an SCTP packet of {} + {} bytes at {} us: the DTLS layer split it at its 1200-byte record limit into two datagrams, neither of which carries a valid CRC32c; the path limit is {}",
                                        s, pkt.len, nx.len, e.t_us, MAX_PACKET
                                    ),
                                ));
                            }
                        }
                    }
                    if !pkt.checksum_ok {
                        return Err(Fail::new(
                            "bad-checksum",
                            format!("{:?} sent a {}-byte packet ({:?}) at {} us whose CRC32c does not verify", s, pkt.len, e.class, e.t_us),
                        ));
                    }
                    if pkt.well_formed && pkt.chunks.is_empty() {
                        let f = Fail::new(
                            SIG_EMPTY,
                            format!(
                                "{:?} sent a {}-byte SCTP packet at {} us that consists of the common header only (valid CRC32c, no chunk); events before: {}",
                                s, pkt.len, e.t_us, tail(trace, ei, 24)
                            ),
                        );
                        if self.inp.tolerated.iter().any(|k| k == SIG_EMPTY) {
                            self.st.tolerated_empty += 1;
                            if self.deferred.is_none() {
                                self.deferred = Some(f);
                            }
                        } else {
                            return Err(f);
                        }
                    } else if !pkt.well_formed || pkt.chunks.is_empty() {
                        return Err(Fail::new(
                            "malformed-packet",
                            format!("{:?} sent a {}-byte packet ({:?}) at {} us whose chunk walk does not end at the packet end ({} chunks)", s, pkt.len, e.class, e.t_us, pkt.chunks.len()),
                        ));
                    }
                    // setup bookkeeping first (a COOKIE-ECHO identifies the INIT-ACK acted upon)
                    let mut has_init = false;
                    for c in &pkt.chunks {
                        match c.ctype {
                            wire::CT_INIT => {
                                has_init = true;
                                if let Some((tag, rwnd, tsn)) = c.as_init() {
                                    self.inits[i].push(InitInfo { answers: 0, tag, rwnd, tsn, cookie: Vec::new() });
                                } else {
                                    return Err(Fail::new("malformed-packet", format!("{:?} sent a truncated INIT", s)));
                                }
                            }
                            wire::CT_INIT_ACK => {
                                if let Some((tag, rwnd, tsn)) = c.as_init() {
                                    let cookie = init_ack_cookie(&c.value);
                                    if self.init_acks[i].iter().any(|x| x.tag != tag) {
                                        self.st.several_init_acks = true;
                                    }
                                    self.init_acks[i].push(InitInfo { answers: pkt.vtag, tag, rwnd, tsn, cookie });
                                    let mut t: Vec<u32> = self.init_acks[i].iter().map(|x| x.answers).collect();
                                    t.sort_unstable();
                                    t.dedup();
                                    self.st.init_ack_answer_tags = self.st.init_ack_answer_tags.max(t.len());
                                } else {
                                    return Err(Fail::new("malformed-packet", format!("{:?} sent a truncated INIT-ACK", s)));
                                }
                            }
                            wire::CT_COOKIE_ECHO => {
                                let found = self.init_acks[o].iter().rev().find(|x| !x.cookie.is_empty() && x.cookie == c.value).cloned();
                                match found {
                                    Some(a) => {
                                        if let Some(prev) = &self.acted[i] {
                                            if prev.tag != a.tag && self.dirs[i].base.is_some() {
                                                return Err(Fail::new(
                                                    "cookie-echo-switched-association",
                                                    format!("{:?} echoed the cookie of a different INIT-ACK (tag {:08x}) after acting on tag {:08x}", s, a.tag, prev.tag),
                                                ));
                                            }
                                        }
                                        if self.inp.forgery.map(|f| f.tag == a.answers).unwrap_or(false) {
                                            self.st.acted_on_fabricated = true;
                                        }
                                        self.acted[i] = Some(a);
                                    }
                                    None => {
                                        return Err(Fail::new(
                                            "cookie-echo-matches-no-init-ack",
                                            format!("{:?} sent a COOKIE-ECHO ({} bytes) at {} us whose cookie equals the state cookie of none of the {} INIT-ACKs its peer sent", s, c.value.len(), e.t_us, self.init_acks[o].len()),
                                        ));
                                    }
                                }
                            }
                            _ => {}
                        }
                    }
                    // (c)
                    if has_init {
                        if pkt.vtag != 0 {
                            return Err(Fail::new("vtag-nonzero-on-init", format!("{:?} sent an INIT with verification tag {:08x}", s, pkt.vtag)));
                        }
                    } else {
                        // responder: an INIT-ACK answers one of the INITs handed to it (the genuine ones or the one the
                        // harness fabricated); everything else carries the initiate tag of the INIT whose INIT-ACK
                        // cookie the initiator echoed. initiator: the tag of the INIT-ACK whose cookie it echoed.
                        let is_init_ack = pkt.chunks.iter().any(|c| c.ctype == wire::CT_INIT_ACK);
                        let mut allowed: Vec<u32> = Vec::new();
                        match &self.acted[o] {
                            Some(a) if !is_init_ack && self.inits[i].is_empty() => allowed.push(a.answers),
                            _ => {
                                allowed.extend(self.inits[o].iter().map(|x| x.tag));
                                if let Some(f) = self.inp.forgery {
                                    if self.inits[i].is_empty() {
                                        allowed.push(f.tag);
                                    }
                                }
                            }
                        }
                        if let Some(a) = &self.acted[i] {
                            allowed.push(a.tag);
                        }
                        let abort_reflected = pkt.chunks.iter().any(|c| c.ctype == wire::CT_ABORT && c.flags & 1 == 1);
                        if !allowed.contains(&pkt.vtag) && !abort_reflected {
                            let role = if self.inits[i].is_empty() { "responder" } else { "initiator" };
                            let other_acks: Vec<String> = self.init_acks[o].iter().map(|x| format!("{:08x}", x.tag)).collect();
                            return Err(Fail::new(
                                format!("vtag-mismatch:{role}"),
                                format!(
                                    "{:?} ({role}) sent {:?} at {} us with verification tag {:08x}; the peer's initiate tag is {:?} (INIT-ACK tags seen from the peer: {:?})",
                                    s,
                                    e.class,
                                    e.t_us,
                                    pkt.vtag,
                                    allowed.iter().map(|x| format!("{:08x}", x)).collect::<Vec<_>>(),
                                    other_acks
                                ),
                            ));
                        }
                    }
                    // DATA / FORWARD-TSN
                    for c in &pkt.chunks {
                        if c.ctype == wire::CT_FORWARD_TSN && c.value.len() >= 4 {
                            self.st.fwd_tsn += 1;
                            self.dirs[i].last_fwd_captured_us = e.t_us;
                            if let Some((tsn0, _)) = self.base(s) {
                                let new_cum = u32::from_be_bytes([c.value[0], c.value[1], c.value[2], c.value[3]]);
                                let d = new_cum.wrapping_sub(tsn0).wrapping_add(1) as i32;
                                if d > 0 {
                                    let dir = &mut self.dirs[i];
                                    let upto = (d as usize).min(dir.chunks.len());
                                    for ch in dir.chunks[..upto].iter_mut() {
                                        if !ch.abandoned {
                                            ch.abandoned = true;
                                            if ch.counted && ch.covered_us.is_none() {
                                                dir.outstanding -= ch.bytes as i64;
                                            }
                                        }
                                    }
                                }
                            }
                            continue;
                        }
                        let Some(dc) = c.as_data() else {
                            if c.ctype == wire::CT_DATA {
                                return Err(Fail::new("malformed-packet", format!("{:?} sent a DATA chunk shorter than its 12-byte header", s)));
                            }
                            continue;
                        };
                        let bytes = trace_data_len(c) as u32;
                        let Some((tsn0, _)) = self.base(s) else {
                            return Err(Fail::new(
                                "data-before-association-setup",
                                format!("{:?} sent DATA tsn {} at {} us before the INIT / INIT-ACK / COOKIE-ECHO exchange that fixes its initial TSN was on the wire", s, dc.tsn, e.t_us),
                            ));
                        };
                        let off = dc.tsn.wrapping_sub(tsn0);
                        let n = self.dirs[i].chunks.len();
                        if (off as usize) < n && off < 0x8000_0000 {
                            if self.dirs[i].chunks[off as usize].never_sent {
                                return Err(Fail::new(
                                    "tsn-gap",
                                    format!(
                                        "{:?} put DATA tsn {} on the wire for the first time at {} us, after it had already sent TSNs up to {}: first transmissions are not in TSN order",
                                        s, dc.tsn, e.t_us, tsn0.wrapping_add(n as u32).wrapping_sub(1)
                                    ),
                                ));
                            }
                            // retransmission
                            self.st.retransmissions += 1;
                            {
                                // a run of retransmissions (no new chunk in between, <= 5 ms apart) that starts while
                                // some unacknowledged chunk has been on the wire for ~RTO.min or longer is what a T3
                                // expiry produces
                                let rto_min = self.inp.rto_min_us;
                                let dir = &mut self.dirs[i];
                                if !dir.in_rtx_run || e.t_us.saturating_sub(dir.rtx_run_last_us) > 5_000 {
                                    dir.in_rtx_run = true;
                                    let horizon = e.t_us.saturating_sub(rto_min * 9 / 10);
                                    let expired = dir.chunks[dir.cum_idx.min(n)..n]
                                        .iter()
                                        .any(|c| !c.never_sent && c.covered_us.is_none() && !c.abandoned && c.last_tx_us <= horizon);
                                    if expired {
                                        dir.timeout_rtx_us = Some(e.t_us);
                                    }
                                }
                                dir.rtx_run_last_us = e.t_us;
                                dir.chunks[off as usize].last_tx_us = e.t_us;
                            }
                            let ch = &self.dirs[i].chunks[off as usize];
                            if let Some(tc) = ch.covered_us {
                                let late = e.t_us.saturating_sub(tc);
                                self.st.retx_after_cover_us.push(late);
                                if late > std::env::var("C13_DEBUG_LATE_US").ok().and_then(|v| v.parse().ok()).unwrap_or(100_000u64) && self.st.notes.len() < 1 && std::env::var("C13_DEBUG").is_ok() {
                                    self.st.notes.push(format!("retx of tsn {} at {}us, {}ms after cover at {}us; before: {}", dc.tsn, e.t_us, late / 1000, tc, tail(trace, ei, 14)));
                                }
                                // (f)
                                if late > LATE_RETX_US && !clause_disabled('f') {
                                    // pre-wrap TSN retransmitted while TSNs beyond the 2^32 wrap are outstanding?
                                    let wrap_idx = (1u64 << 32) - tsn0 as u64;
                                    let post_wrap_outstanding = (off as u64) < wrap_idx
                                        && self.dirs[i].chunks.iter().enumerate().any(|(k, c)| k as u64 >= wrap_idx && c.covered_us.is_none() && !c.abandoned);
                                    let sig = if post_wrap_outstanding { SIG_WRAP_SACK } else { "retransmit-after-ack" };
                                    let f = Fail::timing(
                                        sig,
                                        format!(
                                            "{:?} retransmitted TSN {} at {} us, {} ms after a SACK covering it was delivered to it (at {} us){}; events before: {}",
                                            s,
                                            dc.tsn,
                                            e.t_us,
                                            late / 1000,
                                            tc,
                                            if post_wrap_outstanding { " - the TSN lies before the 2^32 wrap while TSNs after the wrap are outstanding" } else { "" },
                                            tail(trace, ei, 12)
                                        ),
                                    );
                                    if self.inp.tolerated.iter().any(|k| k == sig) {
                                        self.st.tolerated_wrap_retx += 1;
                                        if self.deferred.is_none() {
                                            let mut f = f;
                                            f.timing = false;
                                            self.deferred = Some(f);
                                        }
                                    } else {
                                        return Err(f);
                                    }
                                }
                            }
                            continue;
                        }
                        // (d)
                        if off as usize != n && self.inp.path_loss[i] {
                            // the trace is incomplete for this sender: stop judging here
                            self.st.truncated_by_path_loss = true;
                            return Ok(());
                        }
                        if off as usize != n && (n == 0 || off as usize - n > 4096) {
                            let sig = if n == 0 { "first-tsn-not-initial" } else { "tsn-gap" };
                            return Err(Fail::new(
                                sig,
                                format!(
                                    "{:?} sent DATA tsn {} (stream {}, {} bytes) at {} us as a first transmission, but the next new TSN must be {} (initial TSN {}, {} chunks sent so far)",
                                    s, dc.tsn, dc.stream, bytes, e.t_us, tsn0.wrapping_add(n as u32), tsn0, n
                                ),
                            ));
                        }
                        if off as usize != n {
                            // TSNs skipped: legitimate only if the sender gives them up with a FORWARD-TSN that
                            // reaches them (judged at the end of the trace); they must never show up later
                            let dir = &mut self.dirs[i];
                            for _ in n..off as usize {
                                dir.chunks.push(Chunk { never_sent: true, delivered: false, bytes: 0, last_tx_us: e.t_us, counted: false, covered_us: None, abandoned: false, skipped_us: None });
                            }
                            self.st.skipped_tsns += (off as usize - n) as u64;
                        }
                        let n = off as usize;
                        if n > 0 && dc.tsn == 0 {
                            self.st.tsn_wrapped = true;
                        }
                        self.st.new_chunks += 1;
                        if dc.flags & 0x02 != 0 && dc.ppid != 50 {
                            self.st.msg_starts.push((s, dc.stream, e.t_us));
                        }
                        let counted = dc.ppid == 50 || self.inp.reliable_streams.contains(&dc.stream);
                        // (e)
                        let perm = self.permissive_rwnd(s, e.t_us);
                        let newest = self.dirs[i].newest_rwnd.unwrap_or(perm);
                        let dir = &mut self.dirs[i];
                        dir.in_rtx_run = false;
                        let after = dir.outstanding + bytes as i64;
                        if counted {
                            dir.outstanding = after;
                        }
                        dir.chunks.push(Chunk { never_sent: false, delivered: false, bytes, last_tx_us: e.t_us, counted, covered_us: None, abandoned: false, skipped_us: None });
                        let excess = after - perm as i64;
                        self.st.excess.push(excess);
                        self.st.excess_newest.push(after - newest as i64);
                        if excess > MAX_PACKET as i64 {
                            let recent: Vec<String> = self.dirs[i].recent.iter().rev().take(6).map(|(t, w)| format!("{}us:{}", t, w)).collect();
                            let init_rwnd = self.dirs[i].base.map(|b| b.1).unwrap_or(0);
                            // beyond the largest window the peer ever advertised: independent of which SACK the sender acts on
                            let definite = after > init_rwnd as i64 + MAX_PACKET as i64;
                            // would the overrun vanish if the chunks last transmitted before the latest
                            // timeout retransmission were not counted?
                            let dir = &self.dirs[i];
                            let (forgot, since) = match dir.timeout_rtx_us {
                                Some(t0) => {
                                    let since: i64 = dir.chunks[..n]
                                        .iter()
                                        .filter(|c| c.counted && c.covered_us.is_none() && !c.abandoned && c.last_tx_us >= t0)
                                        .map(|c| c.bytes as i64)
                                        .sum();
                                    (since + bytes as i64 - perm as i64 <= MAX_PACKET as i64, since)
                                }
                                None => (false, 0),
                            };
                            let sig = if forgot {
                                SIG_FORGOTTEN
                            } else if definite {
                                "window-overrun"
                            } else {
                                "window-overrun:vs-recent-a_rwnd"
                            };
                            let msg = format!(
                                "{:?} injected new DATA tsn {} ({} bytes, stream {}) at {} us although {} bytes sent earlier were still unacknowledged by every SACK delivered to it; the most permissive a_rwnd among the SACKs delivered in the last {} ms (and the one before) is {}, the peer's initial a_rwnd {} -> {} bytes beyond the window, allowance one packet ({}). {} newest delivered SACKs (time:a_rwnd): {:?}; events before: {}",
                                s,
                                dc.tsn,
                                bytes,
                                dc.stream,
                                e.t_us,
                                after - bytes as i64,
                                RECENT_SACK_US / 1000,
                                perm,
                                init_rwnd,
                                excess,
                                MAX_PACKET,
                                if forgot {
                                    format!("Only {} of those bytes were (re)transmitted since the sender's latest retransmission-timeout burst (at {} us): the sender stopped counting the rest.", since, dir.timeout_rtx_us.unwrap_or(0))
                                } else {
                                    String::new()
                                },
                                recent,
                                tail(trace, ei, 28)
                            );
                            let f = if definite { Fail::new(sig, msg) } else { Fail::timing(sig, msg) };
                            if self.inp.tolerated.iter().any(|k| k == sig) {
                                self.st.tolerated_overruns += 1;
                                if self.deferred.is_none() {
                                    // known finding, classified structurally: no solo re-runs needed to tolerate it
                                    let mut f = f;
                                    f.timing = false;
                                    self.deferred = Some(f);
                                }
                            } else {
                                return Err(f);
                            }
                        }
                    }
                }
            }
            if let Some(p) = e.info.pkt.as_ref() {
                if e.phase == Phase::Captured {
                    for c in &p.chunks {
                        if let Some(sk) = c.as_sack() {
                            self.st.min_a_rwnd = Some(self.st.min_a_rwnd.map_or(sk.a_rwnd, |m| m.min(sk.a_rwnd)));
                        }
                    }
                }
            }
        }
        self.unsent_tsns()?;
        self.quiescence()?;
        self.cum_ack_stuck()
    }

    /// (d) at the end of the trace: a TSN the sender numbered and skipped must have been given up by a
    /// FORWARD-TSN of that sender reaching it
    fn unsent_tsns(&mut self) -> Result<(), Fail> {
        if clause_disabled('d') {
            return Ok(());
        }
        for (i, side) in [Side::A, Side::B].into_iter().enumerate() {
            let Some((tsn0, _)) = self.dirs[i].base else { continue };
            let dir = &self.dirs[i];
            let holes: Vec<(usize, u64)> = dir.chunks.iter().enumerate().filter(|(_, c)| c.never_sent && !c.abandoned).map(|(k, c)| (k, c.last_tx_us)).collect();
            if let Some((k, t)) = holes.first() {
                if self.inp.end_us.saturating_sub(*t) < 300_000 {
                    self.st.late_gap_unjudged = true;
                    continue;
                }
                let list: Vec<u32> = holes.iter().take(8).map(|(k, _)| tsn0.wrapping_add(*k as u32)).collect();
                return Err(Fail::new(
                    "tsn-gap",
                    format!(
                        "{:?} numbered {} TSN(s) that it never put on the wire and never gave up with a FORWARD-TSN: {:?}; at {} us it went on with TSN {} as the next first transmission (initial TSN {}, trace ends at {} us) - the peer's cumulative ack can never pass them",
                        side,
                        holes.len(),
                        list,
                        t,
                        tsn0.wrapping_add(dir.chunks[*k..].iter().position(|c| !c.never_sent).map(|p| (*k + p) as u32).unwrap_or(*k as u32 + 1)),
                        tsn0,
                        self.inp.end_us
                    ),
                ));
            }
        }
        Ok(())
    }

    /// consequence of (d)/(g) as seen on the wire: the association has fallen silent, yet the peer's
    /// cumulative ack never reached data the sender has sent and not given up
    fn cum_ack_stuck(&mut self) -> Result<(), Fail> {
        if self.inp.closed {
            return Ok(());
        }
        let last_activity = self
            .inp
            .trace
            .iter()
            .filter(|e| e.phase == Phase::Captured && !matches!(e.class, SClass::Heartbeat | SClass::HeartbeatAck))
            .map(|e| e.t_us)
            .max()
            .unwrap_or(0);
        if self.inp.end_us.saturating_sub(last_activity.max(self.inp.last_fault_us)) < 1_500_000 {
            return Ok(());
        }
        for (i, side) in [Side::A, Side::B].into_iter().enumerate() {
            let Some((tsn0, _)) = self.dirs[i].base else { continue };
            let dir = &self.dirs[i];
            let stuck = dir.chunks.iter().enumerate().skip(dir.cum_idx).find(|(_, c)| !c.never_sent && !c.abandoned && c.skipped_us.is_none());
            // the chunk the cumulative ack is waiting for: given up by a FORWARD-TSN that was put on the
            // wire but never reached the peer (lost) and was not sent again?
            let fwd_lost = dir.chunks.get(dir.cum_idx).map(|c| !c.never_sent && c.abandoned && c.skipped_us.is_none()).unwrap_or(false)
                || (dir.last_fwd_captured_us > 0 && dir.last_fwd_captured_us > dir.last_fwd_delivered_us);
            if let Some((k, c)) = stuck {
                return Err(Fail::stall(
                    if fwd_lost { SIG_FWD_LOST } else { "cumulative-ack-stuck-while-silent" },
                    format!(
                        "nothing but heartbeats has been on the wire since {} us (trace ends at {} us), yet the cumulative TSN ack delivered to {:?} stops at {} while TSN {} ({}acknowledged by a gap block) was sent and never given up; last events: {}",
                        last_activity,
                        self.inp.end_us,
                        side,
                        tsn0.wrapping_add(dir.cum_idx as u32).wrapping_sub(1),
                        tsn0.wrapping_add(k as u32),
                        if c.covered_us.is_some() { "" } else { "not " },
                        {
                            let last = self.inp.trace.iter().rposition(|e| e.phase == Phase::Captured && !matches!(e.class, SClass::Heartbeat | SClass::HeartbeatAck)).unwrap_or(0);
                            tail(self.inp.trace, last, 30)
                        }
                    ),
                ));
            }
        }
        Ok(())
    }

    /// (g)
    fn quiescence(&mut self) -> Result<(), Fail> {
        let mut tq = 0u64;
        let mut any = false;
        for d in &self.dirs {
            for c in &d.chunks {
                any = true;
                let t = match (c.covered_us, c.skipped_us) {
                    (Some(a), Some(b)) => a.min(b),
                    (Some(a), None) => a,
                    (None, Some(b)) => b,
                    (None, None) => {
                        self.st.quiet = Quiet::NotReached;
                        return Ok(());
                    }
                };
                tq = tq.max(t);
            }
        }
        if !any {
            self.st.quiet = Quiet::NotReached;
            return Ok(());
        }
        let start = tq.max(self.inp.last_fault_us) + QUIET_AFTER_US;
        let end = start + QUIET_LEN_US;
        self.st.quiet = if self.inp.end_us <= start {
            Quiet::NotObserved
        } else if self.inp.end_us < end {
            Quiet::Partial
        } else {
            Quiet::Full
        };
        for e in self.inp.trace {
            if e.phase != Phase::Captured || e.t_us < start || e.t_us > end {
                continue;
            }
            let Some(p) = e.info.pkt.as_ref() else { continue };
            for c in &p.chunks {
                if c.ctype != wire::CT_HEARTBEAT && c.ctype != wire::CT_HEARTBEAT_ACK {
                    let what = if let Some(d) = c.as_data() { format!(" tsn {}", d.tsn) } else { String::new() };
                    return Err(Fail::timing(
                        format!("not-quiescent:{}", ctype_name(c.ctype)),
                        format!(
                            "every DATA TSN either side sent was acknowledged (or skipped by a delivered FORWARD-TSN) by {} us and the last fault effect was at {} us, yet {:?} sent a {}{} at {} us ({} ms later); only HEARTBEAT / HEARTBEAT-ACK may appear from {} to {} us",
                            tq, self.inp.last_fault_us, e.from, ctype_name(c.ctype), what, e.t_us, (e.t_us - tq) / 1000, start, end
                        ),
                    ));
                }
            }
        }
        Ok(())
    }
}

/// Compact rendering of the `n` trace events up to and including `upto`.
pub fn tail(trace: &[Ev<SClass, SctpInfo>], upto: usize, n: usize) -> String {
    let mut out = String::new();
    for e in &trace[upto.saturating_sub(n)..=upto.min(trace.len().saturating_sub(1))] {
        let Some(p) = e.info.pkt.as_ref() else { continue };
        let ph = if e.phase == Phase::Captured { "sent" } else { "dlvd" };
        out.push_str(&format!("[{}us {:?} {}", e.t_us, e.from, ph));
        if let Some(a) = &e.action {
            out.push_str(&format!(" FAULT={:?}", a));
        }
        for c in &p.chunks {
            if let Some(d) = c.as_data() {
                out.push_str(&format!(" DATA({},{}B)", d.tsn, trace_data_len(c)));
            } else if let Some(k) = c.as_sack() {
                out.push_str(&format!(" SACK(cum={},rwnd={},gaps={:?})", k.cum_tsn, k.a_rwnd, k.gaps));
            } else if c.ctype == wire::CT_FORWARD_TSN && c.value.len() >= 4 {
                out.push_str(&format!(" FORWARD-TSN(cum={})", u32::from_be_bytes([c.value[0], c.value[1], c.value[2], c.value[3]])));
            } else {
                out.push_str(&format!(" {}", ctype_name(c.ctype)));
            }
        }
        out.push_str("] ");
    }
    out
}

pub fn check_trace(inp: &OracleInput) -> (TraceStats, Result<(), Fail>) {
    let mut o = Oracle {
        inp,
        inits: [Vec::new(), Vec::new()],
        init_acks: [Vec::new(), Vec::new()],
        acted: [None, None],
        dirs: [Dir::default(), Dir::default()],
        st: TraceStats::default(),
        deferred: None,
    };
    let r = o.run();
    let r = match (r, o.deferred.take()) {
        (Ok(()), Some(f)) => Err(f),
        (r, _) => r,
    };
    (o.st, r)
}

// ------------------------------------------------------------------ cases

#[derive(Clone, Debug, Serialize, Deserialize)]
pub struct Case {
    pub w: Workload,
    pub n: NetSpec,
    /// keep observing 2.6 s after completion (quiescence clause)
    pub quiesce: bool,
    /// Some = every SACK is replaced by a harness-built truthful one in this form (peer-independent SACKs)
    #[serde(default)]
    pub sack: Option<SackForm>,
    /// Some = a fabricated second INIT (and optionally INIT-ACK) is presented during setup
    #[serde(default)]
    pub forge: Option<SetupForgery>,
}

const RWNDS: [u32; 4] = [4 * 1024, 8 * 1024, 16 * 1024, 64 * 1024];
const BURSTS: [u8; 4] = [0, 1, 2, 8];
const CWNDS: [u32; 3] = [4800, 65536, 262144];
const RTOS: [(u16, u16, u16); 4] = [(100, 50, 400), (60, 30, 240), (200, 100, 800), (300, 150, 1000)];

fn chan(id: u16, ordered: bool, rel: Rel, inband_by: Option<Side>) -> ChanSpec {
    ChanSpec {
        id,
        ordered,
        rel,
        inband_by,
        label: format!("c{id}"),
        protocol: String::new(),
        late_ms: None,
    }
}

fn knobs() -> impl Strategy<Value = (u32, u8, u32, (u16, u16, u16))> {
    (0..RWNDS.len(), 0..BURSTS.len(), 0..CWNDS.len(), 0..RTOS.len()).prop_map(|(a, b, c, d)| (RWNDS[a], BURSTS[b], CWNDS[c], RTOS[d]))
}

/// Message sizes of a bulk one-directional transfer.
fn bulk_sizes() -> impl Strategy<Value = Vec<u32>> {
    prop_oneof![
        // full-size single-chunk messages
        3 => (20..90usize).prop_map(|k| vec![1172u32; k]),
        // a few large fragmented messages
        3 => prop::collection::vec(prop_oneof![Just(16_384u32), Just(30_000u32), 8_000..60_000u32], 1..5),
        // many tiny messages (chunk-count pressure on the receiver's reassembly queue)
        2 => (300..1400usize, 1..40u32).prop_map(|(k, sz)| vec![sz; k]),
        // mixed
        2 => prop::collection::vec(prop_oneof![1..64u32, Just(1172u32), Just(1173u32), 2000..9000u32], 20..70),
    ]
}

fn hole_action() -> impl Strategy<Value = Action> {
    prop_oneof![
        3 => (8..60u8, 150..700u16).prop_map(|(count, max_ms)| Action::HoldBack { count, max_ms }),
        3 => (100..800u16).prop_map(|ms| Action::Delay { ms }),
        1 => Just(Action::Drop),
    ]
}

fn follow_action() -> impl Strategy<Value = Action> {
    prop_oneof![
        5 => Just(Action::Drop),
        2 => (40..400u16).prop_map(|ms| Action::Delay { ms }),
        1 => (1..=2u8, prop_oneof![Just(0u16), 5..200u16]).prop_map(|(copies, gap_ms)| Action::Dup { copies, gap_ms }),
    ]
}

fn sack_action() -> impl Strategy<Value = Action> {
    prop_oneof![
        3 => Just(Action::Drop),
        3 => (20..300u16).prop_map(|ms| Action::Delay { ms }),
        1 => (1..=2u8, prop_oneof![Just(0u16), 5..200u16]).prop_map(|(copies, gap_ms)| Action::Dup { copies, gap_ms }),
        1 => (2..10u8, 20..200u16).prop_map(|(count, max_ms)| Action::HoldBack { count, max_ms }),
    ]
}

/// Dedicated zero-window runs: small receive window, one early DATA packet held back so that
/// everything behind it queues out of order at the receiver; further faults on the packets that
/// follow (which include the retransmissions of the hole) and on the SACKs.
fn zero_window_case() -> impl Strategy<Value = Case> {
    (
        knobs(),
        side_strategy(),
        bulk_sizes(),
        any::<bool>(),
        (0..8u16, hole_action()),
        prop::collection::vec((1..28u16, follow_action()), 0..7),
        prop::collection::vec((0..40u16, sack_action()), 0..4),
        prop::collection::vec((1..200u32, 0..30u16), 0..4),
        (tsn_strategy(), tsn_strategy()),
        // SACK blackout: a run of consecutive SACKs dropped or delayed (the sender hears nothing for a while)
        prop_oneof![
            3 => Just(None),
            2 => (
                1..40u16,
                3..22u16,
                // dropped, long delays, and delays close to the probe / retransmission timers (RTO.min/2, RTO.min, RTO.initial)
                prop_oneof![2 => Just(0u16), 2 => 120..500u16, 1 => 12..35u16, 1 => 25..70u16, 1 => 90..170u16, 1 => 280..330u16]
            )
                .prop_map(Some),
        ],
        prop_oneof![
            3 => Just(None),
            1 => (1..30u16, 6..19u16, prop::bool::weighted(0.6)).prop_map(Some),
        ],
    )
        .prop_map(|((rwnd, max_burst, max_cwnd, rto_ms), sender, sizes, ordered, (hole, hact), mut follow, mut sacks, reverse, (mut tsn_a, mut tsn_b), blackout, data_blackout)| {
            // DATA blackout: a run of consecutive DATA packets (first transmissions and whatever is
            // retransmitted meanwhile) lost; optionally placed so that it starts at the 2^32 TSN wrap
            let mut rto_ms = rto_ms;
            // a long run of dropped SACKs is consumed one SACK per (backed-off) RTO: keep RTO.max small there
            if matches!(blackout, Some((_, len, 0)) if len > 8) && rto_ms.2 > 400 {
                rto_ms = if rto_ms.0 == 200 { RTOS[0] } else { RTOS[1] };
            }
            if let Some((start, len, at_wrap)) = data_blackout {
                // every lost retransmission costs a (doubling) RTO: keep such runs short
                if rto_ms.2 > 400 {
                    rto_ms = if rto_ms.0 == 200 { RTOS[0] } else { RTOS[1] };
                }
                for k in 0..len {
                    follow.push((start + k, Action::Drop));
                }
                if at_wrap {
                    let t = Some(0u32.wrapping_sub((hole + start) as u32));
                    if sender == Side::A {
                        tsn_a = t;
                    } else {
                        tsn_b = t;
                    }
                }
            }
            if let Some((start, len, delay)) = blackout {
                for k in 0..len {
                    let a = if delay == 0 { Action::Drop } else { Action::Delay { ms: delay } };
                    sacks.push((start + k, a));
                }
            }
            let mut sends: Vec<SendOp> = sizes
                .iter()
                .map(|sz| SendOp {
                    side: sender,
                    chan: 0,
                    task: 0,
                    size: *sz,
                    gap_ms: 0,
                })
                .collect();
            for (sz, gap) in reverse {
                sends.push(SendOp {
                    side: sender.other(),
                    chan: 0,
                    task: 1,
                    size: sz,
                    gap_ms: gap,
                });
            }
            let mut rules = vec![Rule {
                from: sender,
                class: SClass::Data,
                ordinal: hole,
                action: hact,
            }];
            for (off, a) in follow {
                rules.push(Rule {
                    from: sender,
                    class: SClass::Data,
                    ordinal: hole + off,
                    action: a,
                });
            }
            for (ord, a) in sacks {
                rules.push(Rule {
                    from: sender.other(),
                    class: SClass::Sack,
                    ordinal: ord,
                    action: a,
                });
            }
            Case {
                w: Workload {
                    chans: vec![chan(100, ordered, Rel::Reliable, None)],
                    sends,
                },
                n: NetSpec {
                    rules,
                    tsn_a,
                    tsn_b,
                    rwnd,
                    max_burst,
                    max_cwnd,
                    rto_ms,
                },
                quiesce: true,
                sack: None,
                forge: None,
            }
        })
}

fn sack_form() -> impl Strategy<Value = SackForm> {
    (
        prop_oneof![3 => Just(0u8), 1 => Just(1u8), 1 => Just(2u8), 1 => Just(3u8)],
        prop::bool::weighted(0.3),
        prop::bool::weighted(0.3),
    )
        .prop_map(|(split, repeat, extra_dups)| SackForm { split, repeat, extra_dups })
}

/// None = the peer endpoint's own SACKs reach the sender; Some = harness-built peer-independent SACKs
fn sack_opt() -> impl Strategy<Value = Option<SackForm>> {
    prop_oneof![2 => Just(None), 1 => sack_form().prop_map(Some)]
}

/// Many holes in one flight: a burst of 40-150 one-chunk-per-packet messages over 2-4 channels
/// (reliable and PR-SCTP, so stream ordering does not serialise them) after an optional loss-free
/// warm-up that opens the congestion window, with every 2nd / 3rd DATA packet of a long ordinal
/// range dropped or delayed (the range also hits the retransmissions, so holes persist); every SACK is
/// replaced by a harness-built truthful one that reports ALL gap blocks (rustrtc's own receiver never
/// reports more than 16).
fn many_holes_case() -> impl Strategy<Value = Case> {
    let rel = prop_oneof![
        5 => Just(Rel::Reliable),
        1 => Just(Rel::Rexmit(0)),
        1 => Just(Rel::Rexmit(1)),
        1 => Just(Rel::Rexmit(3)),
        1 => (50..300u16).prop_map(Rel::Timed),
    ];
    (
        side_strategy(),
        prop::collection::vec((any::<bool>(), rel), 2..=4),
        (prop_oneof![1 => Just(0usize), 3 => 20..120usize], 40..150usize),
        (prop_oneof![Just(2u16), Just(3u16)], 0..3u16, 40..220u16),
        prop_oneof![4 => Just(0u16), 1 => 150..600u16],
        (596..1100u32, any::<bool>()),
        (prop_oneof![Just(0u8), Just(8u8)], prop_oneof![Just(65536u32), Just(262144u32)], 0..RTOS.len()),
        prop_oneof![
            // the flight straddles the 2^32 wrap
            2 => (3..140u32).prop_map(|k| Some(0u32.wrapping_sub(k))),
            1 => tsn_strategy(),
        ],
        tsn_strategy(),
        sack_form(),
    )
        .prop_map(|(sender, chans, (warm, burst), (period, phase, span), delay, (size, vary), (max_burst, max_cwnd, rto), tsn_s, tsn_o, form)| {
            let chans: Vec<ChanSpec> = chans.into_iter().enumerate().map(|(i, (ordered, rel))| chan(100 + i as u16, ordered, rel, None)).collect();
            let nch = chans.len();
            let sends: Vec<SendOp> = (0..warm + burst)
                .map(|i| SendOp {
                    side: sender,
                    chan: i % nch,
                    task: (i % nch) as u8,
                    size: if vary { size + (i as u32 * 37) % 70 } else { size },
                    gap_ms: 0,
                })
                .collect();
            let mut rules = Vec::new();
            for i in 0..span {
                if i % period == phase % period {
                    rules.push(Rule {
                        from: sender,
                        class: SClass::Data,
                        ordinal: warm as u16 + i,
                        action: if delay == 0 { Action::Drop } else { Action::Delay { ms: delay } },
                    });
                }
            }
            let (tsn_a, tsn_b) = if sender == Side::A { (tsn_s, tsn_o) } else { (tsn_o, tsn_s) };
            Case {
                w: Workload { chans, sends },
                n: NetSpec {
                    rules,
                    tsn_a,
                    tsn_b,
                    rwnd: 128 * 1024,
                    max_burst,
                    max_cwnd,
                    rto_ms: RTOS[rto],
                },
                quiesce: true,
                sack: Some(form),
                forge: None,
            }
        })
}

/// Lifetime expiring in the outbound queue: a burst of 30-80 ~1 KB messages on a maxPacketLifeTime
/// channel (20-150 ms) - more than cwnd / the peer's window admits at once - while the sender is blocked
/// for 0.3-2 s (every DATA packet lost, or every SACK lost / delayed), so that queued chunks outlive their
/// lifetime before they get a TSN; then later traffic on the same and on a second channel (reliable or
/// PR-SCTP) that has to continue the TSN sequence without a hole.
fn lifetime_case() -> impl Strategy<Value = Case> {
    let second = prop_oneof![3 => Just(Rel::Reliable), 1 => Just(Rel::Rexmit(1)), 1 => (30..200u16).prop_map(Rel::Timed)];
    let blockage = prop_oneof![
        // (kind 0) all DATA packets from ordinal `start` on are lost for `len` packets
        3 => (2..12u16, 8..25u16).prop_map(|(a, b)| (0u8, a, b, 0u16)),
        // (kind 1) all SACKs lost
        2 => (1..8u16, 8..22u16).prop_map(|(a, b)| (1u8, a, b, 0u16)),
        // (kind 2) all SACKs delayed by 0.3-2 s
        2 => (1..8u16, 8..30u16, 300..1500u16).prop_map(|(a, b, d)| (2u8, a, b, d)),
    ];
    (
        side_strategy(),
        (20..150u16, any::<bool>()),
        (second, any::<bool>()),
        (30..80usize, 900..1172u32),
        blockage,
        prop_oneof![Just(4096u32), Just(8192u32), Just(16384u32), Just(131072u32)],
        prop::collection::vec((0..2usize, prop_oneof![1..64u32, 600..1172u32, 1173..4000u32], 100..350u16), 3..6),
        (prop_oneof![Just(0u8), Just(2u8)], 0..2usize),
        tsn_strategy(),
        tsn_strategy(),
        sack_opt(),
    )
        .prop_map(|(sender, (life, ord0), (rel1, ord1), (burst, size), (kind, start, len, delay), rwnd, later, (max_burst, rto), tsn_a, tsn_b, sack)| {
            let chans = vec![chan(100, ord0, Rel::Timed(life), None), chan(101, ord1, rel1, None)];
            let mut sends: Vec<SendOp> = (0..burst)
                .map(|i| SendOp { side: sender, chan: 0, task: 0, size: size + (i as u32 * 13) % 40, gap_ms: 0 })
                .collect();
            // later traffic: one sender task per channel, each sequential with pauses
            for (ch, sz, gap) in later {
                sends.push(SendOp { side: sender, chan: ch, task: ch as u8, size: sz, gap_ms: gap });
            }
            let mut rules = Vec::new();
            for k in 0..len {
                rules.push(match kind {
                    0 => Rule { from: sender, class: SClass::Data, ordinal: start + k, action: Action::Drop },
                    1 => Rule { from: sender.other(), class: SClass::Sack, ordinal: start + k, action: Action::Drop },
                    _ => Rule { from: sender.other(), class: SClass::Sack, ordinal: start + k, action: Action::Delay { ms: delay } },
                });
            }
            Case {
                w: Workload { chans, sends },
                n: NetSpec { rules, tsn_a, tsn_b, rwnd, max_burst, max_cwnd: 262144, rto_ms: RTOS[rto] },
                quiesce: true,
                sack,
                forge: None,
            }
        })
}

/// Setup histories in which the server answers two INITs with DIFFERENT initiate tags before the
/// COOKIE-ECHO: the harness fabricates a copy of the client's INIT with another tag (optionally another
/// initial TSN / a_rwnd) and hands it to the server before or after the genuine one (first INIT or its
/// retransmission); the INIT-ACK answering it is swallowed or delivered; optionally a fabricated INIT-ACK
/// with another tag and a spoiled cookie follows the genuine INIT-ACK at the client. Then a normal workload.
fn forged_setup_case() -> impl Strategy<Value = Case> {
    let tag = prop_oneof![1 => Just(1u32), 1 => Just(u32::MAX), 4 => 2..u32::MAX];
    let forge = (
        tag.clone(),
        prop_oneof![2 => Just(0u32), 1 => 1..5000u32, 1 => Just(0x8000_0000u32)],
        prop_oneof![2 => Just(None), 1 => Just(Some(4096u32)), 1 => Just(Some(1u32 << 20))],
        any::<bool>(),
        any::<bool>(),
        prop_oneof![2 => Just(None), 1 => tag.prop_map(Some)],
        prop::bool::weighted(0.3),
    )
        .prop_map(|(tag, tsn_delta, rwnd, before, swallow, mirror, on_retransmit)| {
            // an INIT-ACK answering the fabricated INIT that reaches the client first is acted upon by it:
            // keep the parameters of the genuine INIT then, only the tag differs
            let keep = before && !swallow;
            (
                SetupForgery {
                    tag,
                    tsn_delta: if keep { 0 } else { tsn_delta },
                    rwnd: if keep { None } else { rwnd },
                    before,
                    swallow,
                    mirror,
                },
                on_retransmit,
            )
        });
    let w = (1..=2usize).prop_flat_map(|nch| {
        let chans: Vec<ChanSpec> = (0..nch).map(|i| chan(100 + i as u16, true, Rel::Reliable, None)).collect();
        let op = (side_strategy(), 0..nch, size_strategy(4096), prop_oneof![3 => Just(0u16), 1 => 1..30u16])
            .prop_map(|(side, chan, size, gap_ms)| SendOp { side, chan, task: chan as u8, size, gap_ms });
        prop::collection::vec(op, 2..=14).prop_map(move |sends| Workload { chans: chans.clone(), sends })
    });
    (w, forge, prop::collection::vec(data_rule(8), 0..3), tsn_strategy(), tsn_strategy(), prop::bool::weighted(0.25)).prop_map(|(w, (fg, on_retransmit), data, tsn_a, tsn_b, quiesce)| {
        // A is the SCTP client in this rig
        let mut rules = Vec::new();
        if on_retransmit {
            // the answer to the first INIT is lost: the transformation applies to the retransmitted INIT
            rules.push(Rule { from: Side::B, class: SClass::InitAck, ordinal: 0, action: Action::Drop });
        }
        rules.push(Rule { from: Side::A, class: SClass::Init, ordinal: if on_retransmit { 1 } else { 0 }, action: Action::Custom(CUSTOM_INIT) });
        for k in 0..6u16 {
            rules.push(Rule { from: Side::B, class: SClass::InitAck, ordinal: k, action: Action::Custom(CUSTOM_INIT_ACK) });
        }
        rules.extend(data);
        Case {
            w,
            n: NetSpec { rules, tsn_a, tsn_b, ..NetSpec::default_fast() },
            quiesce,
            sack: None,
            forge: Some(fg),
        }
    })
}

fn net_strategy(max_ord: u16, max_rules: usize) -> impl Strategy<Value = NetSpec> {
    (
        prop::collection::vec(setup_rule(), 0..3),
        prop::collection::vec(data_rule(max_ord), 0..max_rules),
        prop::bool::weighted(0.45),
        tsn_strategy(),
        tsn_strategy(),
        prop_oneof![2 => Just(None), 1 => knobs().prop_map(Some)],
    )
        .prop_map(|(setup, data, use_setup, tsn_a, tsn_b, k)| {
            let mut rules = if use_setup { setup } else { vec![] };
            rules.extend(data);
            let mut n = NetSpec {
                rules,
                tsn_a,
                tsn_b,
                ..NetSpec::default_fast()
            };
            if let Some((rwnd, max_burst, max_cwnd, rto_ms)) = k {
                n.rwnd = rwnd.max(16 * 1024);
                n.max_burst = max_burst;
                n.max_cwnd = max_cwnd;
                n.rto_ms = rto_ms;
            }
            n
        })
}

/// C01-style: 1-3 reliable ordered negotiated channels, messages in both directions, faults incl. setup chunks.
fn reliable_case(max_msgs: usize) -> impl Strategy<Value = Case> {
    let w = (1..=3usize).prop_flat_map(move |nch| {
        let chans: Vec<ChanSpec> = (0..nch).map(|i| chan(100 + i as u16, true, Rel::Reliable, None)).collect();
        let op = (
            side_strategy(),
            0..nch,
            size_strategy(16 * 1024),
            prop_oneof![4 => Just(0u16), 2 => 1..10u16, 1 => 10..80u16],
        )
            .prop_map(|(side, chan, size, gap_ms)| SendOp {
                side,
                chan,
                task: chan as u8,
                size,
                gap_ms,
            });
        prop::collection::vec(op, 1..=max_msgs).prop_map(move |sends| Workload { chans: chans.clone(), sends })
    });
    (w, net_strategy(10, 6), prop::bool::weighted(0.5), sack_opt()).prop_map(|(w, n, quiesce, sack)| Case { w, n, quiesce, sack, forge: None })
}

/// C12-style: reliable and partially reliable, ordered and unordered, negotiated and in-band channels,
/// several sender tasks, larger messages.
fn mixed_case(max_ch: usize, max_msgs: usize) -> impl Strategy<Value = Case> {
    let rel = prop_oneof![
        4 => Just(Rel::Reliable),
        1 => Just(Rel::Rexmit(0)),
        1 => Just(Rel::Rexmit(1)),
        1 => Just(Rel::Rexmit(3)),
        1 => (10..200u16).prop_map(Rel::Timed),
    ];
    let chans = prop::collection::vec(
        (
            any::<bool>(),
            rel,
            prop_oneof![2 => Just(None), 1 => Just(Some(Side::A)), 1 => Just(Some(Side::B))],
        ),
        1..=max_ch,
    )
    .prop_map(|v| {
        v.into_iter()
            .enumerate()
            .map(|(i, (ordered, rel, inband_by))| {
                let id = match inband_by {
                    None => 100 + i as u16,
                    Some(Side::A) => 2 * i as u16,
                    Some(Side::B) => 2 * i as u16 + 1,
                };
                chan(id, ordered, rel, inband_by)
            })
            .collect::<Vec<_>>()
    });
    let w = chans.prop_flat_map(move |chans| {
        let nch = chans.len();
        let size = prop_oneof![8 => size_strategy(4096), 1 => Just(65536u32), 1 => 20_000..70_000u32];
        let op = (
            side_strategy(),
            0..nch,
            0..4u8,
            size,
            prop_oneof![5 => Just(0u16), 2 => 1..8u16, 1 => 8..40u16],
        )
            .prop_map(|(side, chan, task, size, gap_ms)| SendOp { side, chan, task, size, gap_ms });
        prop::collection::vec(op, 1..=max_msgs).prop_map(move |sends| Workload { chans: chans.clone(), sends })
    });
    (w, net_strategy(12, 7), prop::bool::weighted(0.5), sack_opt()).prop_map(|(w, n, quiesce, sack)| Case { w, n, quiesce, sack, forge: None })
}

// ------------------------------------------------------------------ judging

#[derive(Default)]
pub struct Agg {
    pub cases: u64,
    pub packets: u64,
    pub new_chunks: u64,
    pub retransmissions: u64,
    pub sacks: u64,
    pub excess: BTreeMap<String, u64>,
    pub excess_newest: BTreeMap<String, u64>,
    pub max_excess: i64,
    pub max_excess_newest: i64,
    pub retx_after_cover_ms: BTreeMap<String, u64>,
    pub quiet: BTreeMap<String, u64>,
    pub expired_in_queue_msgs: u64,
    pub sacks_over_16_blocks: u64,
    pub runs_with_over_16_blocks: u64,
    pub max_gap_blocks: usize,
}

fn bucket(x: i64) -> &'static str {
    match x {
        i64::MIN..=-65537 => "a:<=-64K",
        -65536..=-16385 => "b:-64K..-16K",
        -16384..=-4097 => "c:-16K..-4K",
        -4096..=-1201 => "d:-4K..-1200",
        -1200..=0 => "e:-1200..0",
        1..=1200 => "f:1..1200(one packet)",
        1201..=2400 => "g:1201..2400",
        2401..=4800 => "h:2401..4800",
        4801..=16384 => "i:4801..16K",
        _ => "j:>16K",
    }
}

fn ms_bucket(us: u64) -> &'static str {
    match us / 1000 {
        0..=9 => "a:<10ms",
        10..=99 => "b:10-99ms",
        100..=499 => "c:100-499ms",
        500..=999 => "d:500-999ms",
        _ => "e:>=1s",
    }
}

impl Agg {
    fn add(&mut self, st: &TraceStats) {
        self.cases += 1;
        self.packets += st.packets;
        self.new_chunks += st.new_chunks;
        self.retransmissions += st.retransmissions;
        self.sacks += st.sacks_delivered;
        for x in &st.excess {
            *self.excess.entry(bucket(*x).to_string()).or_default() += 1;
            self.max_excess = self.max_excess.max(*x);
        }
        for x in &st.excess_newest {
            *self.excess_newest.entry(bucket(*x).to_string()).or_default() += 1;
            self.max_excess_newest = self.max_excess_newest.max(*x);
        }
        for x in &st.retx_after_cover_us {
            *self.retx_after_cover_ms.entry(ms_bucket(*x).to_string()).or_default() += 1;
        }
        *self.quiet.entry(format!("{:?}", st.quiet)).or_default() += 1;
        self.sacks_over_16_blocks += st.sacks_over_16_blocks;
        if st.sacks_over_16_blocks > 0 {
            self.runs_with_over_16_blocks += 1;
        }
        self.max_gap_blocks = self.max_gap_blocks.max(st.max_gap_blocks);
    }
}

pub fn judge(c: &Case, r: &RunResult, rec: &CaseRec, agg: &Mutex<Agg>, tolerated: &[String]) -> Check {
    if !r.dtls_connected {
        return Err(Fail::new("harness-dtls-not-connected", "DTLS did not connect on a fault-free datagram path"));
    }
    let mut captured = [0u64; 2];
    for e in &r.trace {
        if e.phase == Phase::Captured {
            captured[idx(e.from)] += e.len as u64;
        }
    }
    let path_loss = [r.link_bytes_sent[0] > captured[0], r.link_bytes_sent[1] > captured[1]];
    if path_loss[0] || path_loss[1] {
        rec.label("harness-datagram-path-lost-packets");
        if std::env::var("C13_DEBUG").is_ok() {
            eprintln!("C13_DEBUG path loss: sent by endpoints {:?}, captured {:?}", r.link_bytes_sent, captured);
        }
    }
    let reliable: HashSet<u16> = c.w.chans.iter().filter(|ch| ch.rel == Rel::Reliable).map(|ch| ch.id).collect();
    let inp = OracleInput {
        tolerated,
        trace: &r.trace,
        reliable_streams: &reliable,
        end_us: r.end_us,
        last_fault_us: r.last_fault_us,
        forgery: c.forge,
        closed: r.close_reason.iter().any(|x| x.is_some()),
        synthetic_sacks: c.sack.is_some(),
        rto_min_us: c.n.rto_ms.1 as u64 * 1000,
        path_loss,
    };
    let (st, res) = check_trace(&inp);
    agg.lock().add(&st);
    if std::env::var("C13_DEBUG").is_ok() && !st.notes.is_empty() {
        eprintln!("C13_DEBUG {}", st.notes.join("\n   "));
    }

    let low_window = st.min_a_rwnd.map(|m| m < 2400).unwrap_or(false);
    rec.set_nontrivial(st.retransmissions > 0 || low_window || st.init_ack_answer_tags >= 2);
    if st.retransmissions > 0 {
        rec.label("has-retransmission");
    }
    if low_window {
        rec.label("a_rwnd-below-2400");
    }
    if st.min_a_rwnd == Some(0) {
        rec.label("a_rwnd-zero");
    }
    if st.excess.iter().any(|x| *x > 0) {
        rec.label("sent-into-last-packet-of-window");
    }
    if st.tsn_wrapped {
        rec.label("tsn-wrapped-2^32");
    }
    if st.several_init_acks {
        rec.label("several-init-ack-tags");
    }
    if st.fwd_tsn > 0 {
        rec.label("forward-tsn-on-wire");
    }
    if let Some(f) = &c.forge {
        rec.label(format!(
            "fabricated-INIT:{}-genuine,{}",
            if f.before { "before" } else { "after" },
            if f.swallow { "its-INIT-ACK-swallowed" } else { "its-INIT-ACK-delivered" }
        ));
        if st.init_ack_answer_tags >= 2 {
            rec.label("server-answered-two-INITs-with-different-tags");
        }
        if st.acted_on_fabricated {
            rec.label("client-echoed-cookie-of-the-fabricated-INIT");
        }
        if f.mirror.is_some() {
            rec.label("fabricated-INIT-ACK-after-genuine");
        }
        if f.tsn_delta != 0 || f.rwnd.is_some() {
            rec.label("fabricated-INIT-differs-in-tsn-or-rwnd");
        }
    }
    // maxPacketLifeTime messages whose lifetime ran out while they were still queued: first put on the
    // wire later than submit + lifetime (channels fed by one sender task: k-th message start on the
    // stream = k-th accepted submit)
    let mut expired_in_queue = 0u64;
    let mut never_on_wire = 0u64;
    for (ci, ch) in c.w.chans.iter().enumerate() {
        let Rel::Timed(life) = ch.rel else { continue };
        for side in [Side::A, Side::B] {
            let tasks: HashSet<u8> = c.w.sends.iter().filter(|o| o.side == side && o.chan == ci).map(|o| o.task).collect();
            if tasks.len() != 1 {
                continue;
            }
            let mut subs: Vec<&Submit> = r.submits.iter().filter(|x| x.side == side && x.chan == ci && x.ok).collect();
            subs.sort_by_key(|x| x.op);
            let starts: Vec<u64> = st.msg_starts.iter().filter(|(s2, sid, _)| *s2 == side && *sid == ch.id).map(|x| x.2).collect();
            if starts.len() < subs.len() {
                never_on_wire += (subs.len() - starts.len()) as u64;
            }
            for (sub, t) in subs.iter().zip(&starts) {
                if *t > sub.t_us + life as u64 * 1000 {
                    expired_in_queue += 1;
                }
            }
        }
    }
    if expired_in_queue > 0 {
        rec.label("lifetime-expired-while-still-queued");
        agg.lock().expired_in_queue_msgs += expired_in_queue;
    }
    if never_on_wire > 0 {
        rec.label("accepted-timed-message-never-put-on-the-wire");
    }
    if st.skipped_tsns > 0 {
        rec.label("tsn-skipped-and-forwarded-over");
    }
    if st.late_gap_unjudged {
        rec.label("tsn-gap-too-close-to-trace-end(not judged)");
    }
    if let Some(f) = &c.sack {
        rec.label("sacks-built-by-harness");
        if f.split > 0 && st.adjacent_blocks {
            rec.label("sack-with-adjacent-blocks-presented");
        }
        if st.repeated_block {
            rec.label("sack-with-repeated-block-presented");
        }
        if f.extra_dups {
            rec.label("sack-form:extra-duplicate-tsns");
        }
    }
    if st.sacks_over_16_blocks > 0 {
        rec.label("sack-with->16-gap-blocks-presented");
    }
    rec.label(match st.max_gap_blocks {
        0 => "max-gap-blocks:0",
        1..=4 => "max-gap-blocks:1-4",
        5..=16 => "max-gap-blocks:5-16",
        17..=32 => "max-gap-blocks:17-32",
        33..=64 => "max-gap-blocks:33-64",
        _ => "max-gap-blocks:>64",
    });
    if let Some(sy) = &r.sack_synth {
        rec.label(match sy.max_holes {
            0..=16 => "max-simultaneous-holes:<=16",
            17..=32 => "max-simultaneous-holes:17-32",
            33..=60 => "max-simultaneous-holes:33-60",
            _ => "max-simultaneous-holes:>60",
        });
    }
    if st.truncated_by_path_loss {
        rec.label("walk-stopped-at-harness-path-loss");
        rec.inconclusive_timing();
    }
    if st.tolerated_wrap_retx > 0 {
        rec.label("known-retransmit-after-ack-at-tsn-wrap(walk continued)");
    }
    if st.tolerated_empty > 0 {
        rec.label("known-packet-without-chunks(walk continued)");
    }
    if st.tolerated_overruns > 0 {
        rec.label("known-overrun-after-timeout(walk continued)");
    }
    if !st.retx_after_cover_us.is_empty() {
        rec.label("retransmission-after-covering-sack(<1s)");
    }
    rec.label(format!("quiet-window:{:?}", st.quiet));
    rec.label(format!("rwnd:{}K", c.n.rwnd / 1024));
    rec.label(format!("max_burst:{}", c.n.max_burst));
    rec.label(format!("max_cwnd:{}", c.n.max_cwnd));
    rec.label(format!("rto:{}/{}/{}", c.n.rto_ms.0, c.n.rto_ms.1, c.n.rto_ms.2));
    let (setup_f, data_f) = fired_classes(&c.n, &r.rules_fired);
    if setup_f {
        rec.label("fault-on-setup-chunk");
    }
    if data_f {
        rec.label("fault-on-data-path");
    }
    if r.close_reason.iter().any(|x| x.is_some()) {
        rec.label("association-closed");
    }
    if (!r.complete || !r.senders_done) && std::env::var("C13_DEBUG").is_ok() {
        eprintln!(
            "C13_DEBUG incomplete run: senders_done={} complete={} issued={} returned={} end={}us last_fault={}us | A: {} | B: {} | {}",
            r.senders_done,
            r.complete,
            r.issued.len(),
            r.submits.len(),
            r.end_us,
            r.last_fault_us,
            r.diag[0],
            r.diag[1],
            describe_trace_tail(&r.trace, 12)
        );
    }
    if !r.complete || !r.senders_done {
        rec.label("run-incomplete(liveness is C01's clause)");
    }
    if let Err(f) = &res {
        if f.stall && std::env::var("C13_DEBUG").is_ok() {
            eprintln!("C13_DEBUG stall: {} | A: {} | B: {}", f.msg, r.diag[0], r.diag[1]);
        }
    }
    res.map_err(|mut f| {
        f.msg = format!(
            "{} | rwnd={} burst={} cwnd={} rto={:?} | A: {} | B: {}",
            f.msg, c.n.rwnd, c.n.max_burst, c.n.max_cwnd, c.n.rto_ms, r.diag[0], r.diag[1]
        );
        f
    })
}

/// Liveness is not a C13 clause (C01 owns it): the quick tier stops waiting for a stalled run early
/// (6 s after the last fault / submit); such runs are labelled and judged on what was observed.
fn limits(thorough: bool, quiesce: bool) -> Limits {
    Limits {
        complete_within: Duration::from_secs(if thorough { 30 } else { 6 }),
        settle: if quiesce { Duration::from_millis(2600) } else { Duration::from_millis(150) },
        hard_cap: Duration::from_secs(if thorough { 90 } else { 20 }),
    }
}

fn checker(thorough: bool, agg: Arc<Mutex<Agg>>, tolerated: Arc<Vec<String>>) -> AsyncCheck<Case> {
    Arc::new(move |c: Case| {
        let agg = agg.clone();
        let tolerated = tolerated.clone();
        Box::pin(async move {
            let rec = CaseRec::default();
            let res = match run_case_with(&c.w, &c.n, &limits(thorough, c.quiesce), &RigExtra { sack_form: c.sack, forgery: c.forge }).await {
                Ok(r) => judge(&c, &r, &rec, &agg, &tolerated),
                Err(e) => Err(Fail::new("harness-error", format!("rig failed: {e}"))),
            };
            (rec, res)
        })
    })
}

pub fn run(ctx: &mut Ctx) {
    ctx.level = "exploration";
    ctx.rule = "oracle over the decoded wire trace (every SCTP packet captured between two real IceConn+DTLS+SCTP endpoints, parsed by the harness' own reader and CRC32c) of proptest-generated runs: (1) zero-window runs: receive window {4,8,16,64 KiB} x max_burst {0,1,2,8} x max_cwnd {4800,64K,256K} x 4 RTO triples, bulk one-directional transfer (full-size chunks / large fragmented messages / hundreds of tiny messages / mixed, optional reverse traffic) with one early DATA packet held back, delayed or dropped plus 0-6 faults on the following DATA packets (which include its retransmissions) and 0-3 on SACKs, forced initial TSNs near 0 / 2^31 / 2^32; (2) C01-style reliable bidirectional workloads with faults on setup and data chunks; (3) C12-style mixed reliable / partially reliable / in-band channels with several sender tasks. (4) many-holes: 17-60 simultaneous holes, harness-built uncapped SACKs; (5) lifetime-in-queue: a burst on a maxPacketLifeTime channel (20-150 ms) while all DATA or all SACKs are lost / delayed for 0.3-2 s so that queued chunks outlive their lifetime before they are numbered, then later traffic on the same and a second channel. (6) forged-setup: a fabricated second INIT with another initiate tag (optionally other TSN / a_rwnd) reaches the server before or after the genuine one, its INIT-ACK swallowed or delivered, optionally a fabricated INIT-ACK after the genuine one. Non-trivial = the trace holds >= 1 retransmission, a SACK with a_rwnd < 2400, or INIT-ACKs answering two different initiate tags; distinct by case digest.".into();
    ctx.assumptions = vec![
        "the trace is taken between DTLS decryption and SCTP input of the receiving endpoint: capture order equals send order (loss-free in-order loopback datagram path), capture time is later than the send time by the transit latency".into(),
        "window clause: outstanding bytes = user-data bytes of reliably sent chunks (reliable channels + DCEP) first-transmitted so far and covered by no SACK delivered to the sender so far (cumulative or gap, union over all delivered SACKs) and not given up by a FORWARD-TSN; compared with the largest a_rwnd among the SACKs delivered in the last 100 ms plus the one before them (the INIT / INIT-ACK a_rwnd while no older SACK exists); allowance one packet (1200 bytes) as RFC 4960 6.1 rule A".into(),
        "time-bounded clauses (window, retransmit-after-ack 300 ms, quiescence 1 s + 1.5 s) are subject to the 3x solo re-run rule; the consequence check 'the peer's cumulative ack reaches everything sent and not given up once the wire has been silent for 1.5 s' is a stall verdict (counts when it reproduces alone or in >= 3 cases of a batch)".into(),
        "quiescence window starts 1 s after the later of (last TSN acknowledged/skipped, last harness fault effect) and is observed with settle = 2.6 s".into(),
        "faults are applied to SCTP packets between DTLS decryption and SCTP input; applications send only after the channel announced Open".into(),
    ];
    let rt = tokio::runtime::Builder::new_multi_thread().worker_threads(16).enable_all().build().unwrap();
    let agg = Arc::new(Mutex::new(Agg::default()));
    let th = ctx.thorough();
    let tolerated: Arc<Vec<String>> = Arc::new([SIG_FORGOTTEN, SIG_EMPTY, SIG_WRAP_SACK].iter().filter(|k| ctx.is_known(k)).map(|k| k.to_string()).collect());

    // developer aid: C13_ONLY=<sub-check name> runs a single sub-check
    let only = std::env::var("C13_ONLY").ok();
    let want = |name: &str| only.as_deref().map(|o| o == name).unwrap_or(true);
    let n = ctx.scale(240usize, 3000usize);
    if want("zero-window") {
        ctx.sub_async(&rt, "zero-window", n, ctx.scale(240, 64), (zero_window_case(), sack_opt()).prop_map(|(mut c, s)| { c.sack = s; c }), checker(th, agg.clone(), tolerated.clone()));
    }
    let n = ctx.scale(96usize, 2400usize);
    if want("many-holes") {
        ctx.sub_async(&rt, "many-holes", n, ctx.scale(96, 64), many_holes_case(), checker(th, agg.clone(), tolerated.clone()));
    }
    let n = ctx.scale(64usize, 1600usize);
    if want("lifetime-in-queue") {
        ctx.sub_async(&rt, "lifetime-in-queue", n, 64, lifetime_case(), checker(th, agg.clone(), tolerated.clone()));
    }
    let n = ctx.scale(96usize, 2400usize);
    if want("forged-setup") {
        ctx.sub_async(&rt, "forged-setup", n, ctx.scale(96, 64), forged_setup_case(), checker(th, agg.clone(), tolerated.clone()));
    }
    let n = ctx.scale(160usize, 3000usize);
    if want("reliable-faulted") {
        ctx.sub_async(&rt, "reliable-faulted", n, ctx.scale(80, 64), reliable_case(24), checker(th, agg.clone(), tolerated.clone()));
    }
    let n = ctx.scale(120usize, 2400usize);
    if want("mixed-channels") {
        ctx.sub_async(&rt, "mixed-channels", n, ctx.scale(60, 48), mixed_case(6, 30), checker(th, agg.clone(), tolerated.clone()));
    }

    let a = agg.lock();
    ctx.set_extra(
        "wire_checks",
        serde_json::json!({
            "runs": a.cases,
            "packets_checked": a.packets,
            "new_data_chunks_window_checked": a.new_chunks,
            "retransmissions_seen": a.retransmissions,
            "sacks_delivered": a.sacks,
            "window_excess_bytes_vs_permissive_a_rwnd": a.excess,
            "window_excess_bytes_vs_newest_sack": a.excess_newest,
            "max_window_excess": a.max_excess,
            "max_window_excess_vs_newest_sack": a.max_excess_newest,
            "retransmission_delay_after_covering_sack": a.retx_after_cover_ms,
            "quiescence_windows": a.quiet,
            "timed_messages_first_sent_after_their_lifetime_expired_in_the_queue": a.expired_in_queue_msgs,
            "delivered_sacks_with_more_than_16_gap_blocks": a.sacks_over_16_blocks,
            "runs_with_more_than_16_gap_blocks_presented": a.runs_with_over_16_blocks,
            "max_gap_blocks_in_a_delivered_sack": a.max_gap_blocks,
        }),
    );
    if std::env::var("C13_STATS").is_ok() {
        eprintln!("C13 stats: runs={} packets={} new_chunks={} retx={} sacks={}", a.cases, a.packets, a.new_chunks, a.retransmissions, a.sacks);
        eprintln!("  excess vs permissive a_rwnd (max {}): {:?}", a.max_excess, a.excess);
        eprintln!("  excess vs newest SACK      (max {}): {:?}", a.max_excess_newest, a.excess_newest);
        eprintln!("  retransmission after covering SACK: {:?}", a.retx_after_cover_ms);
        eprintln!("  quiescence windows: {:?}", a.quiet);
    }
    drop(a);
    rt.shutdown_timeout(Duration::from_secs(2));
}
